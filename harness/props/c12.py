"""C12 — forward models act identically on every representation of their input (correspondence + oracle).

Implementation side: the real `cuqi.model.Model / LinearModel / PDEModel`, `CUQIarray`, `Samples` and
geometries.  Model side: `lean/Driver/C12.lean` (exact rationals, `Model/C12.lean`).

Oracle (implementation only, run on every configuration):
  forward   the in-scope representations of one parameter vector x (ndarray parameters; ndarray function
            values with is_par=False; CUQIarray of the domain geometry flagged parameters / function values,
            whatever the is_par argument; the columns of a Samples object) give the same numbers, equal to
            R.fun2par(F(D.par2fun(x))); the output is a CUQIarray iff the input was one, flagged parameters
            and carrying the range geometry; a Samples object gives a Samples object on the range geometry;
  gradient  when every ingredient exists (gradient/Jacobian function, identity-like range geometry,
            identity-like domain geometry or one with a `gradient`) the value equals the transposed Jacobian
            of x -> forward(x) (Richardson-extrapolated central differences of `forward` in parameter space)
            applied to the direction, for every representation of direction and linearisation point;
            otherwise the call must raise;
  rename    forward(distribution) returns a new object whose attributes are the old ones (same objects)
            except `_non_default_args == [name]`; the original is untouched; only the keyword changed.

Keys:  tie:<site>:…                         correspondence (never matched by a known finding)
       forward:<input kind>:<aspect>
       gradient:<identity|geomgrad|...>:wrt-<kind>:dir-<kind>:tags-<gradstyle>-<geomgradstyle>:<aspect>
       rename:<aspect>
"""
import copy as _copy
import numpy as np
from fractions import Fraction
from harness.core import import_cuqi, quiet, q, qv, qm, pv, pm

TOL = 1e-9
# configurations whose data are dyadic ("exact"): only floating-point rounding separates the implementation from the exact model.  The
# rounding is relative to the INTERMEDIATE magnitudes (cubes of 1e3-sized inputs cancel down), observed up to 1.1e-13 relative to the output
# (thorough, seed 1), so 1e-10 (was 1e-12: margin only 9x)
EXACT_TOL = 1e-10


# ------------------------------------------------------------------------------------------------ helpers
def tok_bool(b):
    return "1" if b else "0"


def veq(a, b, tol=TOL):
    a = np.asarray(a, dtype=float).ravel(); b = np.asarray(b, dtype=float).ravel()
    if a.shape != b.shape:
        return False
    if a.size == 0:
        return True
    na, nb = np.isnan(a), np.isnan(b)
    if na.any() or nb.any():
        # NaN only matches NaN at the same position (e.g. sqrt of a negative number in a user-supplied imap)
        if not np.array_equal(na, nb):
            return False
        a, b = a[~na], b[~nb]
        if a.size == 0:
            return True
    bound = tol * (1.0 + max(np.abs(a).max(), np.abs(b).max()))
    dev = float(np.abs(a - b).max())
    ok = dev <= bound
    if ok and tol > 0.0 and np.isfinite(dev):
        # margin bookkeeping: largest passing deviation relative to its tolerance, per tolerance class
        k = f"tol={tol:g}"
        r = dev / bound
        if r > MARGINS.get(k, 0.0):
            MARGINS[k] = r
    return bool(ok)


MARGINS = {}


def note_margin(name, dev, bound):
    """largest passing deviation / tolerance of an oracle comparison that does not go through veq"""
    if bound > 0 and np.isfinite(dev) and dev <= bound:
        r = float(dev / bound)
        if r > MARGINS.get(name, 0.0):
            MARGINS[name] = r


class Geo:
    """one geometry: python object, driver token, bookkeeping for the oracle"""
    def __init__(self, label, family, obj, tokbody, ident, fun_shape, par_dim, nonneg=False, keeps=True,
                 has_f2p=True, exact=True, flat1d=True):
        self.label, self.family, self.obj = label, family, obj
        self.tokbody = tokbody            # callable(gid, gradtok) -> token
        self.ident = ident                # type in _get_identity_geometries()
        self.fun_shape = fun_shape
        self.par_dim = par_dim
        self.nonneg = nonneg              # parameters must be >= 0 for fun2par(par2fun(x)) == x exactly
        self.keeps = keeps
        self.has_f2p = has_f2p
        self.exact = exact
        self.flat1d = flat1d              # function values are 1-D arrays
        self.gradstyle = None             # None or 's' / 'd' / 'x'

    def token(self, gid):
        return self.tokbody(gid, "none" if self.gradstyle is None else "ch" + self.gradstyle)


def perm_F(r, c):
    # Image2D(order='F'): image[i, j] = p[j*r + i]; flat C index k = i*c + j
    return [j * r + i for i in range(r) for j in range(c)]


MAPS = {
    "sq": (lambda x: x ** 2, lambda y: np.sqrt(y), lambda x: 2 * x),
    "cube": (lambda x: x ** 3, None, lambda x: 3 * x ** 2),
}


def make_geometries(cuqi, rng, n, want, N_override=None):
    """geometry of kind `want` with parameter dimension about n"""
    G = cuqi.geometry
    if want == "cont1d":
        return Geo("Continuous1D", "id", G.Continuous1D(n), lambda g, gr: f"id:{g}:1:{gr}", True, (n,), n)
    if want == "discrete":
        return Geo("Discrete", "id", G.Discrete(n), lambda g, gr: f"id:{g}:1:{gr}", True, (n,), n)
    if want == "default1d":
        return Geo("_DefaultGeometry1D", "id", n, lambda g, gr: f"id:{g}:1:{gr}", True, (n,), n)
    if want in ("imageC", "imageF", "imageV", "cont2d", "default2d"):
        r, c = (2, 2) if n < 6 else (2, 3) if n < 9 else (3, 3)
        if want == "imageC":
            return Geo("Image2D-C", "id", G.Image2D((r, c)), lambda g, gr: f"id:{g}:1:{gr}", True, (r, c), r * c, flat1d=False)
        if want == "imageV":
            return Geo("Image2D-visual", "id", G.Image2D((r, c), visual_only=True), lambda g, gr: f"id:{g}:1:{gr}", True, (r * c,), r * c)
        if want == "cont2d":
            return Geo("Continuous2D", "id", G.Continuous2D((r, c)), lambda g, gr: f"id:{g}:1:{gr}", True, (r, c), r * c, flat1d=False)
        if want == "default2d":
            return Geo("_DefaultGeometry2D", "id", (r, c), lambda g, gr: f"id:{g}:1:{gr}", True, (r, c), r * c, flat1d=False)
        pi = ",".join(str(k) for k in perm_F(r, c))
        return Geo("Image2D-F", "perm", G.Image2D((r, c), order="F"), lambda g, gr: f"perm:{g}:1:{gr}:{pi}", True, (r, c), r * c, flat1d=False)
    if want.startswith("map"):
        # map-<kind>-<imap 0/1>-<base>
        _, kind, imap, base = want.split("-")
        imap = imap == "1"
        if base == "F":
            r, c = (2, 2) if n < 6 else (2, 3)
            bobj = G.Image2D((r, c), order="F"); pi = ",".join(str(k) for k in perm_F(r, c)); shape = (r, c); pd = r * c
        else:
            bobj = G.Continuous1D(n); pi = "id"; shape = (n,); pd = n
        if kind == "aff":
            a = float(rng.choice([2.0, -2.0, 0.5, 4.0])); b = float(rng.choice([0.0, 1.0, -3.0]))
            mp = (lambda a, b: (lambda x: a * x + b))(a, b)
            im = (lambda a, b: (lambda y: (y - b) / a))(a, b)
            kt = f"aff_{q(a)}_{q(b)}"
        else:
            mp, im, _ = MAPS[kind]; kt = kind
        obj = G.MappedGeometry(bobj, map=mp, imap=im if imap else None)
        return Geo(f"Mapped({kind},{'imap' if imap else 'noimap'},{base})", "map", obj,
                   lambda g, gr: f"map:{g}:0:{gr}:{kt}:{tok_bool(imap)}:{pi}", False, shape, pd,
                   nonneg=(kind == "sq"), has_f2p=imap, flat1d=(base != "F"))
    if want in ("step", "kl", "custom"):
        N = n + int(rng.randint(1, 4)) if N_override is None else N_override
        if want == "step":
            obj = G.StepExpansion(np.arange(N, dtype=float), n_steps=n)
            exact = True
        elif want == "kl":
            obj = G.KLExpansion(np.arange(N, dtype=float), num_modes=n, decay_rate=2.0, normalizer=4.0)
            exact = False
        else:
            Em = rng.randint(-2, 3, size=(N, n)).astype(float)

            class _UserGeom(G.Geometry):
                """user geometry with a linear par2fun and no fun2par"""
                def __init__(self, E):
                    self._E = E
                @property
                def par_shape(self):
                    return (self._E.shape[1],)
                def par2fun(self, p):
                    return self._E @ p
                def _plot(self):
                    pass
            obj = _UserGeom(Em)
            exact = True
        with quiet():
            E = np.column_stack([np.asarray(obj.par2fun(e), dtype=float) for e in np.eye(n)])
            P = None if want == "custom" else np.column_stack([np.asarray(obj.fun2par(e), dtype=float) for e in np.eye(N)])
        if np.isnan(E).any() or (P is not None and np.isnan(P).any()):
            return None
        Et = qm(E); Pt = "none" if P is None else qm(P)
        keeps = want == "custom"   # E @ p keeps the subclass of p; np.zeros / scipy.fftpack outputs do not
        g = Geo({"step": "StepExpansion", "kl": "KLExpansion", "custom": "UserGeometry"}[want], "lin", obj,
                lambda g, gr: f"lin:{g}:0:{gr}:{Et}:{Pt}:{tok_bool(keeps)}", False, (N,), n,
                keeps=keeps, has_f2p=(P is not None), exact=exact)
        g.E = E
        return g
    raise ValueError(want)


def install_geom_gradient(geo, style):
    """attach the exact chain-rule `gradient(direction, wrt_par)` to the geometry object, written so that the
    result inherits the CUQIarray subclass of `direction` ('d'), of `wrt_par` ('x') or of neither ('s')"""
    obj = geo.obj
    geo.gradstyle = style

    def wrap(core):
        # core(direction_flat_plain, x_plain) -> plain parameter-space vector
        def gradient(direction, wrt_par):
            dpl = np.asarray(direction, dtype=float).ravel()
            xpl = np.asarray(wrt_par, dtype=float)
            res = core(dpl, xpl)
            if style == "d":
                return _inherit(res, direction)
            if style == "x":
                return _inherit(res, wrt_par)
            return res
        return gradient

    if geo.family == "lin":
        E = geo.E
        obj.gradient = wrap(lambda d, x: E.T @ d)
    elif geo.family == "map":
        base = obj.geometry
        mp = obj.map
        kind = geo.label.split("(")[1].split(",")[0]
        if kind == "aff":
            a = mp(1.0) - mp(0.0)
            dmap = lambda f: a * np.ones_like(f)
        else:
            dmap = MAPS[kind][2]
        obj.gradient = wrap(lambda d, x: np.asarray(base.fun2par((d.reshape(geo.fun_shape)) * dmap(np.asarray(base.par2fun(x), dtype=float)))))
    else:
        base = obj
        obj.gradient = wrap(lambda d, x: np.asarray(base.fun2par(d.reshape(geo.fun_shape))))


def _inherit(res, src):
    """what numpy arithmetic does: the result of an operation with a CUQIarray operand is a CUQIarray carrying
    that operand's attributes (`res + 0*src` when shapes agree; a view with __array_finalize__ otherwise)"""
    from cuqi.array import CUQIarray
    if isinstance(src, CUQIarray):
        if src.shape == res.shape:
            return res + 0 * src
        out = np.asarray(res).view(CUQIarray)
        out.is_par = src.is_par; out.geometry = src.geometry
        return out
    return res


class Mdl:
    """one model: python object, driver token, the core F on flat function values (for the oracle)"""
    pass


def rint(rng, lo, hi, shape, density=1.0):
    M = rng.randint(lo, hi + 1, size=shape).astype(float)
    if density < 1.0:
        M *= (rng.rand(*shape) < density)
    return M


def build_model(cuqi, rng, kind, D, R, Dobj, Robj, scale=1.0):
    """kind: gen-<none|jac|gs|gd|gw>-<k|s> | linmat | linfun-<k|s> | pde-<none|jac|gs|gd|gw> | heat-<...>"""
    from cuqi.array import CUQIarray
    m = Mdl()
    nD = int(np.prod(D.fun_shape)); nR = int(np.prod(R.fun_shape))
    parts = kind.split("-")
    m.kind = kind
    m.gradkind = "lin" if parts[0] in ("linmat", "linfun") else parts[1]
    m.exact = True
    Rshape, Dshape = R.fun_shape, D.fun_shape
    arg = "x"

    def grad_from_jac(J, gk):
        # user gradient(direction, wrt) = J(wrt)^T direction on function values; subclass from direction / wrt / none
        def gradient(direction, wrt):
            dpl = np.asarray(direction, dtype=float).ravel()
            res = (J(np.asarray(wrt, dtype=float).ravel()).T @ dpl).reshape(Dshape)
            if gk == "gd":
                return _inherit(res, direction)
            if gk == "gw":
                return _inherit(res, wrt)
            return res
        return gradient

    if parts[0] == "gen":
        gk, fs = parts[1], parts[2]
        A = scale * rint(rng, -2, 2, (nR, nD)); B = rint(rng, -1, 1, (nR, nD), 0.5); C = rint(rng, -1, 1, (nR, nD), 0.3)
        c = scale * rint(rng, -2, 2, (nR,))
        arg = str(rng.choice(["x", "u", "theta"]))
        core = lambda f: A @ f + B @ (f * f) + C @ (f * f * f) + c
        J = lambda f: A + 2 * B * f[None, :] + 3 * C * (f * f)[None, :]
        if fs == "k":
            fwd_src = "def forward({a}):\n    f = {a}.ravel()\n    return (A @ f + B @ (f * f) + C @ (f * f * f) + c).reshape(Rshape)\n"
        else:
            fwd_src = "def forward({a}):\n    f = np.asarray({a}, dtype=float).ravel()\n    return (A @ f + B @ (f * f) + C @ (f * f * f) + c).reshape(Rshape)\n"
        ns = {"A": A, "B": B, "C": C, "c": c, "np": np, "Rshape": Rshape}
        exec(fwd_src.format(a=arg), ns)
        forward = ns["forward"]
        kw = {}
        if gk == "jac":
            kw["jacobian"] = lambda wrt: J(np.asarray(wrt, dtype=float).ravel())
        elif gk != "none":
            kw["gradient"] = grad_from_jac(J, gk)
        with quiet():
            m.obj = cuqi.model.Model(forward, Robj, Dobj, **kw)
        m.token = f"gen:{gk}:{tok_bool(fs == 'k')}:{qm(A)}:{qm(B)}:{qm(C)}:{qv(c)}:{arg}"
    elif parts[0] == "linmat":
        A = scale * rint(rng, -3, 3, (nR, nD))
        core = lambda f: A @ f
        with quiet():
            m.obj = cuqi.model.LinearModel(A, range_geometry=Robj, domain_geometry=Dobj)
        m.token = f"linmat:{qm(A)}"
    elif parts[0] == "linfun":
        fs = parts[1]
        A = scale * rint(rng, -3, 3, (nR, nD))
        Adj = A.T.copy()
        core = lambda f: A @ f
        arg = str(rng.choice(["x", "v"]))
        if fs == "k":
            src = "def forward({a}):\n    return (A @ {a}.ravel()).reshape(Rshape)\n"
            adjoint = lambda y: (Adj @ y.ravel()).reshape(Dshape)
        else:
            src = "def forward({a}):\n    return (A @ np.asarray({a}, dtype=float).ravel()).reshape(Rshape)\n"
            adjoint = lambda y: (Adj @ np.asarray(y, dtype=float).ravel()).reshape(Dshape)
        ns = {"A": A, "np": np, "Rshape": Rshape}
        exec(src.format(a=arg), ns)
        with quiet():
            m.obj = cuqi.model.LinearModel(ns["forward"], adjoint, range_geometry=Robj, domain_geometry=Dobj)
        m.token = f"linfun:{tok_bool(fs == 'k')}:{qm(A)}:{qm(Adj)}:{arg}"
    elif parts[0] in ("pde", "heat"):
        gk = parts[1]
        from cuqi.pde import SteadyStateLinearPDE, TimeDependentLinearPDE
        if parts[0] == "pde":
            # (A0 + diag(x)) u = b, observe Obs u   (D, R flat, nR rows observed out of nD unknowns)
            A0 = 4 * np.eye(nD) - np.eye(nD, k=1) - np.eye(nD, k=-1)
            b = rint(rng, 1, 3, (nD,))
            Obs = rint(rng, -1, 2, (nR, nD))
            def sol(f):
                return np.linalg.solve(A0 + np.diag(f), b)
            core = lambda f: Obs @ sol(f)
            J = lambda f: -Obs @ np.linalg.solve(A0 + np.diag(f), np.diag(sol(f)))
            base = SteadyStateLinearPDE
            pde_kwargs = dict(PDE_form=lambda x: (A0 + np.diag(np.asarray(x, dtype=float).ravel()), b), observation_map=lambda u: (Obs @ u).reshape(Rshape))
            m.token = f"pde:{gk}:{qm(A0)}:{qv(b)}:{qm(Obs)}"
            m.exact = False
            m.nonneg = True
        else:
            # u' = Dm u + src, u(0) = x, forward Euler with dyadic steps, observed at the final time (nR == nD)
            Dm = -2 * np.eye(nD) + np.eye(nD, k=1) + np.eye(nD, k=-1)
            src = rint(rng, -1, 1, (nD,))
            steps = int(rng.randint(2, 5)); dt = 0.25
            ts = np.arange(steps + 1) * dt
            Mstep = np.eye(nD) + dt * Dm
            Mk = np.linalg.matrix_power(Mstep, steps)
            cvec = sum(np.linalg.matrix_power(Mstep, i) @ (dt * src) for i in range(steps))
            core = lambda f: Mk @ f + cvec
            J = lambda f: Mk
            base = TimeDependentLinearPDE
            pde_kwargs = dict(PDE_form=lambda x, t: (Dm, src, np.asarray(x, dtype=float).ravel()), time_steps=ts, method="forward_euler")
            m.token = f"heat:{gk}:{qm(Mk)}:{qv(cvec)}"
        body = {}
        if gk == "jac":
            body["jacobian_wrt_parameter"] = lambda self, wrt: J(np.asarray(wrt, dtype=float).ravel())
        elif gk != "none":
            g = grad_from_jac(J, gk)
            body["gradient_wrt_parameter"] = lambda self, direction, wrt: g(direction, wrt)
        cls = type("HarnessPDE", (base,), body)
        with quiet():
            pde = cls(**pde_kwargs)
            m.obj = cuqi.model.PDEModel(pde, Robj, Dobj)
    else:
        raise ValueError(kind)
    m.core = core
    m.arg = arg
    if not hasattr(m, "nonneg"):
        m.nonneg = False
    return m


# ------------------------------------------------------------------------------------------------ canonical forms
class Canon:
    def __init__(self, cuqi, geoms):
        self.cuqi = cuqi
        self.geoms = geoms   # list of (python geometry object, gid)

    def gid(self, g):
        for o, i in self.geoms:
            if g is o:
                return i
        for o, i in self.geoms:
            try:
                if g == o:
                    return i
            except Exception:
                pass
        return 99

    def __call__(self, out):
        from cuqi.array import CUQIarray
        from cuqi.samples import Samples
        if isinstance(out, Samples):
            return ("smp", self.gid(out.geometry), bool(out.is_par), np.array(out.samples, dtype=float))
        if isinstance(out, CUQIarray):
            return ("arr", bool(out.is_par), self.gid(out.geometry), np.array(out, dtype=float).ravel())
        if isinstance(out, np.ndarray) or np.isscalar(out):
            return ("nd", np.array(out, dtype=float).ravel())
        return ("other", type(out).__name__)


def parse_model_out(s):
    t = s.split(" ")
    if t[0] == "nd":
        return ("nd", np.array([float(v) for v in pv(t[1])]))
    if t[0] == "arr":
        return ("arr", t[1] == "1", int(t[2]), np.array([float(v) for v in pv(t[3])]))
    if t[0] == "smp":
        cols = pm(t[2])
        if len({len(c) for c in cols}) > 1:
            return ("raw", s)          # ragged columns (a model-side shape inconsistency): never equal to an implementation value
        return ("smp", int(t[1]), True, np.array([[float(v) for v in c] for c in cols]).T if cols else np.zeros((0, 0)))
    if t[0] == "err":
        return ("err", t[1])
    if t[0] == "mat":
        rows = pm(t[2])
        return ("mat", np.array([[float(v) for v in r] for r in rows]) if rows else np.zeros((int(t[1]), 0)))
    return ("raw", s)


def same_canon(a, b, tol):
    if a[0] != b[0]:
        return False
    if a[0] == "err":
        return a[1] == b[1]
    if a[0] == "nd":
        return veq(a[1], b[1], tol)
    if a[0] == "arr":
        return a[1] == b[1] and a[2] == b[2] and veq(a[3], b[3], tol)
    if a[0] == "smp":
        return a[1] == b[1] and a[2] == b[2] and a[3].shape == b[3].shape and veq(a[3], b[3], tol)
    if a[0] == "mat":
        return a[1].shape == b[1].shape and veq(a[1], b[1], tol)
    return a == b


def short(c):
    if c[0] in ("nd",):
        return ["nd", [round(float(v), 9) for v in c[1][:8]]]
    if c[0] == "arr":
        return ["arr", c[1], c[2], [round(float(v), 9) for v in c[3][:8]]]
    if c[0] == "smp":
        return ["smp", c[1], c[2], np.round(c[3], 9).tolist()[:4]]
    if c[0] == "mat":
        return ["mat", np.round(c[1], 9).tolist()[:6]]
    return list(c)


def call(fn):
    """run the implementation; returns canonical value or ('err', class name)"""
    try:
        with quiet():
            return ("ok", fn())
    except Exception as e:  # noqa
        return ("err", type(e).__name__)


# ------------------------------------------------------------------------------------------------ the run
DOMAIN_KINDS = ["cont1d", "discrete", "default1d", "imageC", "imageF", "imageV", "cont2d", "default2d",
                "map-aff-1-1d", "map-aff-1-F", "map-sq-1-1d", "map-sq-0-1d", "map-cube-0-1d", "map-sq-1-F",
                "step", "kl", "custom"]
RANGE_KINDS = ["cont1d", "discrete", "default1d", "imageC", "imageF", "cont2d", "map-aff-1-1d", "step", "map-cube-0-1d"]
MODEL_KINDS = ["gen-jac-k", "gen-jac-s", "gen-gs-k", "gen-gd-k", "gen-gw-k", "gen-gw-s", "gen-none-k",
               "linmat", "linfun-k", "linfun-s", "pde-jac", "pde-gw", "pde-none", "heat-gd", "heat-jac", "heat-none"]


def run(ctx):
    cuqi = import_cuqi()
    from cuqi.array import CUQIarray
    from cuqi.samples import Samples
    thorough = ctx.tier == "thorough"
    rng = np.random.RandomState(ctx.seed + 1200)
    nconf = 1500 if thorough else 130
    ctx.trusted += ["numpy subclass propagation (__array_finalize__) as encoded by the tag rules of the harness callables",
                    "Geometry.__eq__ (geometry identifiers are assigned from the implementation's ==)",
                    "par2fun/fun2par matrices of StepExpansion / KLExpansion / user geometries are leaf data measured on the implementation",
                    "scipy.linalg.solve inside SteadyStateLinearPDE (model: exact rational inverse, compared to 1e-9)"]
    ctx.assumptions += ["integer / dyadic inputs: comparison tolerance 1e-9 (relative+absolute) against exact rationals",
                        "gradient oracle: Richardson-extrapolated central differences of forward in parameter space, tolerance 1e-5 relative to scale (1e-4 for the rational Poisson PDE model: truncation error of the scheme)"]
    MARGINS.clear()
    lines, pending = [], []     # pending: (line index, key, desc, impl canonical, tol)
    from harness.props import c12_ext
    genc = c12_ext.GeomEncoder(cuqi)
    hist = ctx.extra_cov.setdefault("config_histogram", {})
    verdicts = ctx.extra_cov.setdefault("oracle_verdicts", {})
    refusals = ctx.extra_cov.setdefault("refusal_classes", {})

    def add(line, key, desc, impl, tol):
        lines.append(line); pending.append((len(lines) - 1, key, desc, impl, tol))

    oracle_jobs = []
    # pinned configurations (always run first): the input classes of the known findings and of DESIGN's plan
    #   (model, domain, range, n, geometry-gradient style, range on the domain's grid, n_range)
    PINNED = [("linmat", "discrete", "discrete", 4, None, False, 3),          # Discrete(4) == Discrete(3) raises
              ("gen-gd-k", "discrete", "discrete", 3, None, False, 2),
              ("linmat", "default1d", "kl", 4, None, True, 3),                # default geometry == KLExpansion on the same grid
              ("gen-jac-k", "cont1d", "step", 4, None, True, 2),
              ("gen-gw-k", "map-sq-1-1d", "cont1d", 3, "d", False, 3),         # stale is_par flag after the geometry gradient
              ("gen-gw-k", "map-aff-1-1d", "cont1d", 3, "d", False, 2),
              ("gen-gw-k", "step", "default1d", 2, "d", False, 3),
              ("gen-gw-s", "custom", "cont1d", 2, "d", False, 2),
              ("pde-gw", "map-sq-1-1d", "cont1d", 3, "d", False, 2),
              ("gen-gw-k", "map-sq-1-1d", "cont1d", 3, "x", False, 3),
              ("gen-jac-k", "map-cube-0-1d", "discrete", 3, "s", False, 2)]
    for ci in range(nconf):
        # ---------------------------------------------------------------- configuration
        pinned = PINNED[ci] if ci < len(PINNED) else None
        mk = MODEL_KINDS[ci % len(MODEL_KINDS)] if ci < 3 * len(MODEL_KINDS) else str(rng.choice(MODEL_KINDS))
        dk = DOMAIN_KINDS[(ci // 2) % len(DOMAIN_KINDS)] if ci < 2 * len(DOMAIN_KINDS) else str(rng.choice(DOMAIN_KINDS))
        rk = str(rng.choice(RANGE_KINDS, p=[.25, .1, .15, .1, .1, .05, .1, .1, .05]))
        n = int(rng.randint(2, 5))
        if mk.startswith("heat"):
            rk = str(rng.choice(["cont1d", "discrete", "default1d"]))
        if pinned:
            mk, dk, rk, n = pinned[:4]
        D = make_geometries(cuqi, rng, n, dk)
        if D is None:
            continue
        nDf = int(np.prod(D.fun_shape))
        nr = nDf if mk.startswith("heat") else int(rng.randint(2, 5))
        if pinned:
            nr = pinned[6]
        R = make_geometries(cuqi, rng, nr, rk, N_override=(nDf if pinned and pinned[5] else None))
        if pinned:
            pass
        elif dk in ("cont1d", "default1d") and ci % 7 == 3 and not mk.startswith("heat") and nDf >= 3:
            # an expansion range geometry on the *same grid* as the domain (`Continuous1D(N) == KLExpansion(N-grid)` territory)
            rk = "kl" if ci % 2 else "step"
            R = make_geometries(cuqi, rng, nDf - 1, rk, N_override=nDf)
        if R is None:
            continue
        if mk.startswith("heat") and int(np.prod(R.fun_shape)) != nDf:
            continue
        jac_like = mk.split("-")[1] == "jac" if "-" in mk else False
        if jac_like and not (D.flat1d and R.flat1d):
            # `direction@jacobian(wrt)` needs 1-D function values on both sides (see docs/C12.md)
            D = make_geometries(cuqi, rng, n, "cont1d") if not D.flat1d else D
            R = make_geometries(cuqi, rng, nr, "cont1d") if not R.flat1d else R
            nDf = int(np.prod(D.fun_shape))
            if mk.startswith("heat"):
                R = make_geometries(cuqi, rng, nDf, "cont1d")
        if mk == "linmat" and not (D.flat1d and R.flat1d):
            mk = "linfun-k"   # a matrix cannot act on an image
        if mk.startswith("pde") and not D.flat1d:
            D = make_geometries(cuqi, rng, n, "cont1d")
        # optional user `gradient` attribute on the domain geometry (never on default geometries given as int/tuple)
        if pinned:
            if pinned[4]:
                install_geom_gradient(D, pinned[4])
        elif not isinstance(D.obj, (int, tuple)) and rng.rand() < (0.75 if not D.ident else 0.15):
            st_ = str(rng.choice(["s", "d", "x"], p=[.3, .45, .25]))
            if st_ == "d" and ("-F" in D.label or ",F)" in D.label):
                st_ = "x"   # flat C-order function values cannot express ravel(order='F') of an already flat array (docs/C12.md)
            install_geom_gradient(D, st_)
        Dobj, Robj = D.obj, R.obj
        try:
            M = build_model(cuqi, rng, mk, D, R, Dobj, Robj)
        except Exception as e:  # constructor refused: not part of this property
            ctx.note(f"constructor refused {mk} {D.label}->{R.label}: {type(e).__name__}: {str(e)[:80]}")
            continue
        model = M.obj
        Dg, Rg = model.domain_geometry, model.range_geometry     # the objects the model holds
        # geometry identifiers from the implementation's ==
        def eq_eval(a_, b_):
            try:
                with quiet():
                    return "T" if bool(a_ == b_) else "F"
            except IndexError:
                return "I"
            except KeyError:
                return "K"
        # the same two comparisons computed by the model from vars() taken right before each of them (op `geq`)
        def geq_tokens(a_, b_):
            try:
                return genc.token(a_), genc.token(b_)
            except c12_ext._Unsupported:
                return None
        tk1 = geq_tokens(Dg, Rg)
        e1 = eq_eval(Dg, Rg)
        tk2 = geq_tokens(Rg, Dg)
        e2 = eq_eval(Rg, Dg)
        eqr = e1 + e2     # value of `D == R` and of `R == D` on the implementation
        for tk_, e_, lab_ in ((tk1, e1, "D==R"), (tk2, e2, "R==D")):
            if tk_ is not None and e_ in "TF":
                dsc_ = {"call": "Geometry.__eq__", "pair": lab_, "domain": D.label, "range": R.label, "seed_index": ci}
                ctx.case("geometry-eq:model-pair", dsc_)
                lines.append(f"geq {tk_[0]} {tk_[1]}"); pending.append((len(lines) - 1, "tie:geometry-eq:model-pair", dsc_, ("raw", e_), 0.0))
        eq_raises = ("I" in eqr) or ("K" in eqr)
        loose_eq = eqr[0] == "T" and type(Dg) is not type(Rg)      # `D == R` holds between geometries of different classes
        gD, gR = 0, 1
        Dtok, Rtok = D.token(gD), R.token(gR)
        foreign = cuqi.geometry.Continuous1D(np.arange(D.par_dim) + 0.5)   # unequal to everything else here, comparisons never raise
        canon = Canon(cuqi, [(Dg, gD), (Rg, gR), (foreign, 2)])
        exact = D.exact and R.exact and M.exact
        tol = 0.0 if False else (EXACT_TOL if exact else TOL)
        conf = {"model": mk, "domain": D.label, "domain_gradient": D.gradstyle, "range": R.label, "n": D.par_dim, "seed_index": ci, "geometry_eq_raises": eq_raises, "loose_geometry_eq": loose_eq}
        hist[f"{mk.split('-')[0]}|{D.family}{'+grad' if D.gradstyle else ''}|{R.family}"] = hist.get(f"{mk.split('-')[0]}|{D.family}{'+grad' if D.gradstyle else ''}|{R.family}", 0) + 1

        # ---------------------------------------------------------------- inputs
        lo = 0 if (D.nonneg or M.nonneg) else -3
        x = rng.randint(lo, 4, size=D.par_dim).astype(float)
        if rng.rand() < 0.3:
            x = x + rng.randint(0, 4, size=D.par_dim) / 4.0
        with quiet():
            fx = np.asarray(Dg.par2fun(x), dtype=float)       # function values (image-shaped if 2-D)
        Ns = int(rng.randint(1, 4))
        Xs = rng.randint(lo, 4, size=(D.par_dim, Ns)).astype(float)
        Xs[:, 0] = x
        # equal but DISTINCT geometry objects (deepcopy keeps function-valued attributes such as `map` identical, so
        # `==` holds): the code must recognise them by `==`, not by `is`
        def equal_copy(g_):
            c_ = _copy.deepcopy(g_)
            try:
                with quiet():
                    if c_ is not g_ and (c_ == g_) and (g_ == c_):
                        return c_
            except Exception:
                pass
            ctx.note(f"no equal distinct copy for {type(g_).__name__}")
            return g_
        Dcopy, Rcopy = equal_copy(Dg), equal_copy(Rg)
        cov_copy = ctx.extra_cov.setdefault("equal_copy_geometries", {})
        if Dcopy is not Dg:
            cov_copy[D.label] = cov_copy.get(D.label, 0) + 1
        a = M.arg

        def fwd_line(inp_tok, is_par, npos=1, kw="_"):
            return f"fwd {M.token} {Dtok} {Rtok} {eqr} {inp_tok} {tok_bool(is_par)} {npos} {kw}"

        reps = []   # (kind label, in_scope, python thunk, driver line)
        reps.append(("nd-par", True, lambda: model.forward(x.copy()), fwd_line(f"nd:{qv(x)}", True)))
        reps.append(("nd-par-kw", True, lambda: model.forward(**{a: x.copy()}), fwd_line(f"nd:{qv(x)}", True, 0, a)))
        reps.append(("nd-fun", True, lambda: model.forward(fx.copy(), is_par=False), fwd_line(f"nd:{qv(fx.ravel())}", False)))
        reps.append(("arr-par", True, lambda: model.forward(CUQIarray(x.copy(), is_par=True, geometry=Dg)), fwd_line(f"arr:1:{gD}:{qv(x)}", True)))
        reps.append(("arr-par-eqgeom", True, lambda: model.forward(CUQIarray(x.copy(), is_par=True, geometry=Dcopy)), fwd_line(f"arr:1:{gD}:{qv(x)}", True)))
        reps.append(("arr-par-eqgeom-argF", True, lambda: model.forward(CUQIarray(x.copy(), is_par=True, geometry=Dcopy), is_par=False), fwd_line(f"arr:1:{gD}:{qv(x)}", False)))
        reps.append(("arr-fun-eqgeom", True, lambda: model.forward(CUQIarray(fx.copy(), is_par=False, geometry=Dcopy)), fwd_line(f"arr:0:{gD}:{qv(fx.ravel())}", True)))
        reps.append(("arr-fun-eqgeom-argF", True, lambda: model.forward(CUQIarray(fx.copy(), is_par=False, geometry=Dcopy), is_par=False), fwd_line(f"arr:0:{gD}:{qv(fx.ravel())}", False)))
        reps.append(("arr-par-argF", True, lambda: model.forward(CUQIarray(x.copy(), is_par=True, geometry=Dg), is_par=False), fwd_line(f"arr:1:{gD}:{qv(x)}", False)))
        reps.append(("arr-fun", True, lambda: model.forward(CUQIarray(fx.copy(), is_par=False, geometry=Dg)), fwd_line(f"arr:0:{gD}:{qv(fx.ravel())}", True)))
        reps.append(("arr-fun-argF", True, lambda: model.forward(CUQIarray(fx.copy(), is_par=False, geometry=Dg), is_par=False), fwd_line(f"arr:0:{gD}:{qv(fx.ravel())}", False)))
        reps.append(("samples", True, lambda: model.forward(Samples(Xs.copy(), geometry=Dg)), fwd_line(f"smp:1:{gD}:{qm(Xs.T)}", True)))
        reps.append(("samples-eqgeom", True, lambda: model.forward(Samples(Xs.copy(), geometry=Dcopy)), fwd_line(f"smp:1:{gD}:{qm(Xs.T)}", True)))
        reps.append(("samples-nogeom", True, lambda: model.forward(Samples(Xs.copy())), fwd_line(f"smp:1:7:{qm(Xs.T)}", True)))
        # a Samples object of function values (flag is_par=False), with and without the is_par argument
        FXs = None
        if len(D.fun_shape) == 1:
            with quiet():
                FXs = np.column_stack([np.asarray(Dg.par2fun(Xs[:, j]), dtype=float) for j in range(Ns)])
            if FXs.shape[0] == D.par_dim or D.family != "lin":
                reps.append(("samples-funvals", True, lambda: model.forward(Samples(FXs.copy(), geometry=Dg, is_par=False)), fwd_line(f"smp:0:{gD}:{qm(FXs.T)}", True)))
                reps.append(("samples-funvals-argF", True, lambda: model.forward(Samples(FXs.copy(), geometry=Dg, is_par=False), is_par=False), fwd_line(f"smp:0:{gD}:{qm(FXs.T)}", False)))
            else:
                FXs = None
        # out-of-scope / malformed stream (tie only): arrays carrying a foreign geometry, argument-passing errors
        if D.family in ("id", "perm", "map") or D.label in ("StepExpansion", "UserGeometry", "KLExpansion"):
            reps.append(("arr-foreign-par", False, lambda: model.forward(CUQIarray(x.copy(), is_par=True, geometry=foreign)), fwd_line(f"arr:1:2:{qv(x)}", True)))
            # a CUQIarray built without a geometry carries the default geometry; sent as "foreign" when it is unequal to both model geometries
            dflt = CUQIarray(x.copy()).geometry
            if eq_eval(dflt, Dg) == "F" and eq_eval(dflt, Rg) == "F":
                reps.append(("arr-default-par", False, lambda: model.forward(CUQIarray(x.copy())), fwd_line(f"arr:1:2:{qv(x)}", True)))
            if len(D.fun_shape) == 1 and len(fx) == D.par_dim:
                reps.append(("arr-foreign-funflag-argT", False, lambda: model.forward(CUQIarray(x.copy(), is_par=False, geometry=foreign)), fwd_line(f"arr:0:2:{qv(x)}", True)))
                reps.append(("arr-foreign-argF", False, lambda: model.forward(CUQIarray(fx.copy(), is_par=True, geometry=foreign), is_par=False), fwd_line(f"arr:1:2:{qv(fx.ravel())}", False)))
        # a CUQIarray whose geometry is a MappedGeometry over an equal base with a map that differs from the model's ONLY in constants /
        # closure values (same bytecode): not the model's geometry -> it is the plain vector it holds
        if D.family == "map":
            near = near_mapped_geometry(Dg)
            if near is not None:     # (by construction another geometry: NOT conditioned on the implementation's ==, which is what is under test)
                ctx.extra_cov["nearmap_geometries"] = ctx.extra_cov.get("nearmap_geometries", 0) + 1
                reps.append(("arr-nearmap-par", False, lambda: model.forward(CUQIarray(x.copy(), is_par=True, geometry=near)), fwd_line(f"arr:1:2:{qv(x)}", True)))
                reps.append(("arr-nearmap-fun-argF", False, lambda: model.forward(CUQIarray(fx.copy(), is_par=False, geometry=near), is_par=False), fwd_line(f"arr:0:2:{qv(fx.ravel())}", False)))
        reps.append(("args-wrong-kw", False, lambda: model.forward(**{a + "_": x.copy()}), fwd_line(f"nd:{qv(x)}", True, 0, a + "_")))
        reps.append(("args-pos-and-kw", False, lambda: model.forward(x.copy(), **{a: x.copy()}), fwd_line(f"nd:{qv(x)}", True, 1, a)))
        reps.append(("args-two-pos", False, lambda: model.forward(x.copy(), x.copy()), fwd_line(f"nd:{qv(x)}", True, 2)))
        reps.append(("args-none", False, lambda: model.forward(), fwd_line(f"nd:{qv(x)}", True, 0)))
        reps.append(("args-two-kw", False, lambda: model.forward(**{a: x.copy(), a + "2": x.copy()}), fwd_line(f"nd:{qv(x)}", True, 0, a + "," + a + "2")))

        results = {}
        for kind, in_scope, thunk, line in reps:
            st, val = call(thunk)
            c = canon(val) if st == "ok" else ("err", val)
            results[kind] = c
            desc = {**conf, "call": "forward", "input": kind, "x": x.tolist()}
            ctx.case("forward:" + kind, desc, nontrivial=True)
            add(line, f"tie:forward:{kind}", desc, c, tol)
            if c[0] == "err":
                refusals[c[1]] = refusals.get(c[1], 0) + 1
        oracle_jobs.append(("forward", conf, M, D, R, model, Dg, Rg, x, fx, Xs, FXs, results, gR, exact))

        # ---------------------------------------------------------------- gradient
        d = rng.randint(-3, 4, size=R.par_dim).astype(float)
        try:
            with quiet():
                dfun = np.asarray(Rg.par2fun(d), dtype=float)
        except Exception:
            dfun = None
        wrts = [("nd-par", lambda: x.copy(), True, f"nd:{qv(x)}"),
                ("nd-fun", lambda: fx.copy(), False, f"nd:{qv(fx.ravel())}"),
                ("arr-par", lambda: CUQIarray(x.copy(), is_par=True, geometry=Dg), True, f"arr:1:{gD}:{qv(x)}"),
                ("arr-fun", lambda: CUQIarray(fx.copy(), is_par=False, geometry=Dg), True, f"arr:0:{gD}:{qv(fx.ravel())}"),
                ("arr-fun-argF", lambda: CUQIarray(fx.copy(), is_par=False, geometry=Dg), False, f"arr:0:{gD}:{qv(fx.ravel())}"),
                ("arr-par-eqgeom-argF", lambda: CUQIarray(x.copy(), is_par=True, geometry=Dcopy), False, f"arr:1:{gD}:{qv(x)}"),
                ("arr-fun-eqgeom", lambda: CUQIarray(fx.copy(), is_par=False, geometry=Dcopy), True, f"arr:0:{gD}:{qv(fx.ravel())}"),
                ("samples", lambda: Samples(Xs.copy(), geometry=Dg), True, "smp")]
        dirs = [("nd-par", lambda: d.copy(), True, f"nd:{qv(d)}")]
        if dfun is not None:
            dirs += [("nd-fun", lambda: dfun.copy(), False, f"nd:{qv(dfun.ravel())}"),
                     ("arr-par", lambda: CUQIarray(d.copy(), is_par=True, geometry=Rg), True, f"arr:1:{gR}:{qv(d)}"),
                     ("arr-fun", lambda: CUQIarray(dfun.copy(), is_par=False, geometry=Rg), True, f"arr:0:{gR}:{qv(dfun.ravel())}"),
                     ("arr-par-eqgeom-argF", lambda: CUQIarray(d.copy(), is_par=True, geometry=Rcopy), False, f"arr:1:{gR}:{qv(d)}"),
                     ("arr-fun-eqgeom", lambda: CUQIarray(dfun.copy(), is_par=False, geometry=Rcopy), True, f"arr:0:{gR}:{qv(dfun.ravel())}")]
        dirs.append(("samples", lambda: Samples(np.column_stack([d, d])), True, "smp"))
        gres = {}
        combos = [(w, dd) for w in wrts for dd in dirs]
        if not thorough and len(combos) > 14:
            # always keep the first row / column, sample the rest
            keep = [c for c in combos if c[0][0] == "nd-par" or c[1][0] == "nd-par" or (c[0][0].endswith("eqgeom") and c[1][0] == "arr-fun-eqgeom")]
            rest = [c for c in combos if c not in keep]
            idx = rng.choice(len(rest), size=min(6, len(rest)), replace=False)
            combos = keep + [rest[i] for i in sorted(idx)]
        for (wk, wth, iwp, wtok), (dk_, dth, idp, dtok) in combos:
            thunk = (lambda wth=wth, dth=dth, idp=idp, iwp=iwp: model.gradient(dth(), wth(), is_direction_par=idp, is_wrt_par=iwp))
            st, val = call(thunk)
            c = canon(val) if st == "ok" else ("err", val)
            gres[(wk, dk_)] = c
            desc = {**conf, "call": "gradient", "wrt": wk, "direction": dk_, "x": x.tolist(), "d": d.tolist()}
            ctx.case(f"gradient:{wk}:{dk_}", desc, nontrivial=True)
            add(f"grad {M.token} {Dtok} {Rtok} {eqr} {dtok} {wtok} {tok_bool(idp)} {tok_bool(iwp)}", f"tie:gradient:wrt-{wk}:dir-{dk_}", desc, c, tol)
            if c[0] == "err":
                refusals[c[1]] = refusals.get(c[1], 0) + 1
        oracle_jobs.append(("gradient", conf, M, D, R, model, Dg, Rg, x, fx, d, gres, exact))

        # ---------------------------------------------------------------- distribution: rename only
        if ci % 3 == 0:
            name = str(rng.choice(["y", "z", "x", "alpha"]))
            ddim = D.par_dim if rng.rand() < 0.8 else D.par_dim + 1
            with quiet():
                dist = cuqi.distribution.Gaussian(np.zeros(ddim), 1.0, name=name)
            before = dict(vars(model))
            st, new = call(lambda: model.forward(dist))
            desc = {**conf, "call": "forward(distribution)", "dist_dim": ddim, "name": name}
            ctx.case("rename", desc, nontrivial=True)
            if st == "ok" and isinstance(new, cuqi.model.Model):
                after = dict(vars(model))
                same = all((k in vars(new)) and (vars(new)[k] is before[k]) for k in before if k != "_non_default_args") and set(vars(new)) == set(before)
                untouched = set(after) == set(before) and all(after[k] is before[k] for k in before)
                impl = f"model {','.join(vars(new)['_non_default_args'])} {tok_bool(same)} {','.join(before['_non_default_args'])}"
                # oracle
                if not (same and untouched and vars(new)["_non_default_args"] == [name] and new is not model and type(new) is type(model)):
                    ctx.fail("rename:attributes", desc, f"new object, all attributes identical except _non_default_args == ['{name}'], original untouched",
                             {"same_attrs": same, "original_untouched": untouched, "args": vars(new)["_non_default_args"], "distinct": new is not model},
                             "applying a model to a distribution changed more than the input name")
                # behaviour: the renamed model computes the same thing under the new keyword only
                r_old = call(lambda: model.forward(**{a: x.copy()}))
                r_new = call(lambda: new.forward(**{name: x.copy()}))
                if r_old[0] != r_new[0] or (r_old[0] == "ok" and not veq(np.asarray(r_old[1]), np.asarray(r_new[1]), 0.0)):
                    ctx.fail("rename:behaviour", desc, "renamed model gives the same output under the new keyword", str(r_new)[:200],
                             "applying a model to a distribution changed what the model computes")
                if name != a and call(lambda: new.forward(**{a: x.copy()}))[0] != "err":
                    ctx.fail("rename:old-keyword", desc, "old keyword refused after renaming", "accepted")
                verdicts["rename:ok"] = verdicts.get("rename:ok", 0) + 1
            elif st == "err":
                impl = f"err {new}"
                if ddim == D.par_dim:
                    ctx.fail("rename:refused", desc, "a model renamed to the distribution's name", impl, "forward(distribution) of matching dimension raised")
            else:
                impl = f"other {type(new).__name__}"
                ctx.fail("rename:type", desc, "a Model", impl)
            lines.append(f"dist {M.token} {Dtok} {Rtok} {D.par_dim} {ddim} {name} 1 _")
            pending.append((len(lines) - 1, "tie:rename", desc, ("raw", impl), 0.0))
            if ddim != D.par_dim and st != "err":
                ctx.fail("rename:dimension", desc, "ValueError for a distribution of the wrong dimension", impl)

    # -------------------------------------------------------------------- user geometries with `gradient`, wrapped in MappedGeometry
    wrapped_user_geometries(ctx, cuqi, rng, lines, pending, verdicts, 160 if thorough else 24)

    # -------------------------------------------------------------------- model(distribution) for every model kind x distribution geometry
    rename_stream(ctx, cuqi, rng, lines, pending, verdicts, 160 if thorough else 40)

    # -------------------------------------------------------------------- PDE option sweep: retained outputs (python-only oracle)
    pde_variants(ctx, cuqi, rng, verdicts, 120 if thorough else 24)

    # -------------------------------------------------------------------- dtypes, in-place updates, aliasing, caches: every model kind
    robustness(ctx, cuqi, rng, lines, pending, verdicts, 320 if thorough else 48)

    # -------------------------------------------------------------------- call histories on one model object
    histories(ctx, cuqi, rng, lines, pending, verdicts, 400 if thorough else 40)

    # -------------------------------------------------------------------- session-3 streams (own random streams; harness/props/c12_ext.py)
    from harness.props import c12_ext
    c12_ext.nofun2par_ranges(ctx, cuqi, lines, pending, verdicts, oracle_jobs, 96 if thorough else 16)
    c12_ext.linear_objects(ctx, cuqi, lines, pending, verdicts, 480 if thorough else 48)
    c12_ext.constructors(ctx, cuqi, lines, pending, thorough)
    c12_ext.geometry_equality(ctx, cuqi, lines, pending, thorough)
    c12_ext.gradient_samples_wrt(ctx, cuqi, lines, pending, verdicts, 340 if thorough else 68)
    c12_ext.geometry_reassignment(ctx, cuqi, lines, pending, verdicts, oracle_jobs, 400 if thorough else 80)

    # -------------------------------------------------------------------- model side + diff
    outs = ctx.lean.drive(lines)
    inexact = 0
    singular = 0
    tie_bad = {}
    for (i, key, desc, impl, tol) in pending:
        out = outs[i]
        mo = parse_model_out(out)
        if impl[0] == "raw":
            ok = (out == impl[1])
        elif mo == ("err", "TypeError") and impl[0] != "err":
            # the model's marker for "an inexact square root was taken": only reachable through the
            # stale-flag defect of gradient (fun2par applied to a parameter-space gradient)
            inexact += 1
            ok = True
        elif out == "unmodelled":
            ok = True
        elif impl == ("err", "LinAlgError") and str(desc.get("model", "")).startswith("pde"):
            # the generated PDE system A0 + diag(par2fun x) happened to be singular: scipy raises, the driver's exact solver has no
            # exception class for it (it prints an empty vector).  Outside the modelled domain: not compared (counted).
            singular += 1
            ok = True
        else:
            ok = same_canon(mo, impl, tol)
        if not ok:
            ctx.disagree(key, desc, out[:300], short(impl) if impl[0] != "raw" else impl[1], "model and implementation differ")
            tie_bad.setdefault(key, []).append(desc)
    ctx.extra_cov["model_inexact_marker"] = inexact
    ctx.extra_cov["singular_pde_system_not_compared"] = singular

    # -------------------------------------------------------------------- oracle
    for job in oracle_jobs:
        if job[0] == "forward":
            oracle_forward(ctx, cuqi, verdicts, *job[1:])
        else:
            oracle_gradient(ctx, cuqi, verdicts, *job[1:])
    # a broken tie needs a failing input with the same key: mirror oracle failures onto tie keys
    from harness.core import KnownMap
    open_known = KnownMap([k for k in ctx.known if k.get("status", "open") == "open"])
    failed_sites = {}
    for f in ctx.failures:
        if f["key"] in open_known:
            continue     # a listed finding does not explain a new disagreement
        failed_sites.setdefault(f["case"].get("seed_index"), []).append(f)
    for key, descs in tie_bad.items():
        for desc in descs:
            for f in failed_sites.get(desc.get("seed_index"), []):
                if f["case"].get("call") == desc.get("call"):
                    ctx.fail(key, f["case"], f["demanded"], f["got"], f["what"] + " [found while searching near a model/implementation disagreement]")
                    break
    _dump_margins(ctx)


def _dump_margins(ctx):
    ctx.extra_cov["tolerance_margins(max passing deviation / tolerance)"] = {k: float(f"{v:.3g}") for k, v in sorted(MARGINS.items())}


def rename_stream(ctx, cuqi, rng, lines, pending, verdicts, nconf):
    """B = A(dist) for every model kind and distributions carrying a default / Continuous1D / mapped (exp) / step / KL
    geometry of matching dimension; A on integer-dimension (default) and explicit geometries.  Demanded: B has A's
    geometries (same objects) and every attribute but `_non_default_args`; B.forward / gradient / adjoint on ndarray,
    CUQIarray (both flags) and Samples equal A's on the same numbers; `Gaussian(B, 1)(y=x).mean == A(x)`; A untouched."""
    from cuqi.array import CUQIarray
    from cuqi.samples import Samples
    G = cuqi.geometry
    DG = ["default", "cont1d", "mapped-exp", "step", "kl", "discrete"]
    cov = ctx.extra_cov.setdefault("rename_configs", {})
    for ri in range(nconf):
        mk = MODEL_KINDS[ri % len(MODEL_KINDS)]
        dgk = DG[(ri // 2) % len(DG)] if ri >= len(DG) else DG[ri]
        n = int(rng.randint(2, 4))
        dk = ["default1d", "default1d", "cont1d", "map-sq-1-1d"][ri % 4]      # the model's own domain geometry (mostly the default one)
        D = make_geometries(cuqi, rng, n, dk)
        nDf = int(np.prod(D.fun_shape))
        R = make_geometries(cuqi, rng, nDf if mk.startswith("heat") else int(rng.randint(2, 4)), ["default1d", "cont1d"][ri % 2])
        try:
            M = build_model(cuqi, rng, mk, D, R, D.obj, R.obj)
        except Exception as e:
            ctx.note(f"rename: constructor refused {mk}: {type(e).__name__}")
            continue
        A = M.obj
        Dg, Rg = A.domain_geometry, A.range_geometry
        if dgk == "default":
            gd = None
        elif dgk == "cont1d":
            gd = G.Continuous1D(n)
        elif dgk == "discrete":
            gd = G.Discrete(n)
        elif dgk == "mapped-exp":
            gd = G.MappedGeometry(G.Continuous1D(n), map=np.exp, imap=np.log)
        elif dgk == "step":
            gd = G.StepExpansion(np.arange(n + 2, dtype=float), n_steps=n)
        else:
            gd = G.KLExpansion(np.arange(n + 2, dtype=float), num_modes=n)
        name = str(rng.choice(["y", "z", "alpha"]))
        with quiet():
            dist = cuqi.distribution.Gaussian(np.zeros(n), 1.0, name=name) if gd is None else cuqi.distribution.Gaussian(np.zeros(n), 1.0, geometry=gd, name=name)
        conf = {"rename_stream": True, "model": mk, "domain": D.label, "range": R.label, "dist_geometry": dgk, "n": n, "seed_index": 400000 + ri, "name": name}
        cov[f"{mk.split('-')[0]}|{dk}|{dgk}"] = cov.get(f"{mk.split('-')[0]}|{dk}|{dgk}", 0) + 1
        before = dict(vars(A))
        st, B = call(lambda: A.forward(dist))
        ctx.case("rename-stream", conf)
        if st != "ok" or not isinstance(B, cuqi.model.Model):
            ctx.fail("rename:refused", conf, "a renamed model", str(B)[:100], "forward(distribution) of matching dimension did not return a model")
            continue
        same = set(vars(B)) == set(before) and all(vars(B)[k] is before[k] for k in before if k != "_non_default_args")
        untouched = set(vars(A)) == set(before) and all(vars(A)[k] is before[k] for k in before)
        if not (B.domain_geometry is Dg and B.range_geometry is Rg):
            ctx.fail("rename:geometry", conf, "the renamed model keeps the model's own domain and range geometry objects",
                     {"domain": repr(B.domain_geometry), "range": repr(B.range_geometry)}, "applying a model to a distribution changed its geometry")
        if not (same and untouched and vars(B)["_non_default_args"] == [name]):
            ctx.fail("rename:attributes", conf, "all attributes identical except _non_default_args", {"same": same, "untouched": untouched},
                     "applying a model to a distribution changed more than the input name")

        def eq_eval(a_, b_):
            try:
                with quiet():
                    return "T" if bool(a_ == b_) else "F"
            except IndexError:
                return "I"
            except KeyError:
                return "K"
        eqr = eq_eval(Dg, Rg) + eq_eval(Rg, Dg)
        loose = eqr[0] == "T" and type(Dg) is not type(Rg)
        Dtok, Rtok = D.token(0), R.token(1)
        canonA = Canon(cuqi, [(Dg, 0), (Rg, 1)])
        exact = D.exact and R.exact and M.exact
        tol = EXACT_TOL if exact else TOL
        lo = 0 if (D.nonneg or M.nonneg) else -3
        x = rng.randint(lo, 4, size=n).astype(float)
        Xs = rng.randint(lo, 4, size=(n, 2)).astype(float)
        d = rng.randint(-3, 4, size=R.par_dim).astype(float)
        with quiet():
            fx = np.asarray(Dg.par2fun(x), dtype=float)
        forms = [("nd", lambda: x.copy(), True, f"nd:{qv(x)}"),
                 ("nd-fun", lambda: fx.copy(), False, f"nd:{qv(fx.ravel())}"),
                 ("samples", lambda: Samples(Xs.copy(), geometry=Dg), True, f"smp:1:0:{qm(Xs.T)}")]
        if not loose:
            forms += [("arr-par", lambda: CUQIarray(x.copy(), is_par=True, geometry=Dg), True, f"arr:1:0:{qv(x)}"),
                      ("arr-fun", lambda: CUQIarray(fx.copy(), is_par=False, geometry=Dg), True, f"arr:0:0:{qv(fx.ravel())}")]
        for lab, mkin, ip, tok in forms:
            ra = call(lambda: A.forward(mkin(), is_par=ip))
            rb = call(lambda: B.forward(**{name: mkin()}, is_par=ip))
            ca = canonA(ra[1]) if ra[0] == "ok" else ("err", ra[1])
            cb = canonA(rb[1]) if rb[0] == "ok" else ("err", rb[1])
            desc = {**conf, "call": "rename-forward", "input": lab, "x": x.tolist()}
            ctx.case(f"rename-stream:forward:{lab}", desc)
            lines.append(f"distfwd {M.token} {Dtok} {Rtok} {eqr} {n} {n} {name} {tok} {tok_bool(ip)}")
            pending.append((len(lines) - 1, f"tie:rename:forward:{lab}", desc, cb, tol))
            if not same_canon(ca, cb, 0.0 if exact else tol):
                ctx.fail(f"rename:forward:{lab}", desc, short(ca), short(cb), "the renamed model computes something else than the original on the same numbers")
            else:
                verdicts["rename:forward-same"] = verdicts.get("rename:forward-same", 0) + 1
            if lab in ("nd", "arr-par"):
                ga = call(lambda: A.gradient(d.copy(), mkin()))
                gb = call(lambda: B.gradient(d.copy(), mkin()))
                cga = canonA(ga[1]) if ga[0] == "ok" else ("err", ga[1])
                cgb = canonA(gb[1]) if gb[0] == "ok" else ("err", gb[1])
                if not same_canon(cga, cgb, 0.0 if exact else tol):
                    ctx.fail(f"rename:gradient:{lab}", {**desc, "call": "rename-gradient"}, short(cga), short(cgb), "the renamed model's gradient differs from the original's")
        if isinstance(A, cuqi.model.LinearModel):
            for lab, mky in (("nd", lambda: d.copy()), ("samples", lambda: Samples(np.column_stack([d, 2 * d]), geometry=Rg))):
                aa, ab = call(lambda: A.adjoint(mky())), call(lambda: B.adjoint(mky()))
                caa = canonA(aa[1]) if aa[0] == "ok" else ("err", aa[1])
                cab = canonA(ab[1]) if ab[0] == "ok" else ("err", ab[1])
                if not same_canon(caa, cab, 0.0 if exact else tol):
                    ctx.fail(f"rename:adjoint:{lab}", {**conf, "call": "rename-adjoint"}, short(caa), short(cab), "the renamed model's adjoint differs from the original's")
        # the renamed model as the mean of a distribution, conditioned on the new name
        zc = call(lambda: np.array(cuqi.distribution.Gaussian(B, 1.0, name="obs")(**{name: x.copy()}).mean, dtype=float))
        ra = call(lambda: np.array(A.forward(x.copy()), dtype=float))
        ctx.case("rename-stream:as-mean", conf)
        if zc[0] == "ok" and ra[0] == "ok":
            if not veq(zc[1], ra[1], 0.0 if exact else tol):
                ctx.fail("rename:as-mean", {**conf, "call": "rename-as-mean", "x": x.tolist()}, ra[1].tolist(), zc[1].tolist(), "Gaussian(A(dist), 1)(name=x).mean is not A(x)")
        elif zc[0] != ra[0]:
            ctx.note(f"rename as-mean: {zc[0]} vs {ra[0]} for {mk}/{dgk}: {str(zc[1])[:60]}")


def pde_variants(ctx, cuqi, rng, verdicts, nconf):
    """Option sweep of the PDE classes (python-only oracle; the interpolating observations are not in the Lean model):
    steady / time-dependent (forward, backward Euler), observation grid equal / different, time_obs 'final' / 'all' / vector,
    with / without observation_map.  One PDEModel is evaluated on several inputs and a Samples object; every returned
    array is retained untouched and, at the end, must still be byte-identical, equal the output of a FRESH model object on
    the same input, equal the Samples column, and share memory with no other output, no input and no solver buffer."""
    from cuqi.pde import SteadyStateLinearPDE, TimeDependentLinearPDE
    from cuqi.samples import Samples
    G = cuqi.geometry
    cov = ctx.extra_cov.setdefault("pde_variants", {})
    for vi in range(nconf):
        n = int(rng.randint(4, 7))
        grid = np.linspace(0.0, 1.0, n)
        steady = vi % 3 == 2
        grids = "equal" if (vi // 3) % 2 == 0 else "different"
        omap = None if (vi // 6) % 2 == 0 else (lambda u: 2.0 * u + u ** 2)
        grid_obs = None if grids == "equal" else np.linspace(0.1, 0.9, n - 1)
        Dm = (-2 * np.eye(n) + np.eye(n, k=1) + np.eye(n, k=-1))
        src = rng.randint(-1, 2, size=n).astype(float)
        if steady:
            A0 = 4 * np.eye(n) - np.eye(n, k=1) - np.eye(n, k=-1)
            tobs = "n/a"; method = "steady"
            def make():
                pde = SteadyStateLinearPDE(lambda x: (A0 + np.diag(np.abs(np.asarray(x, dtype=float))), src + 1.0), grid_sol=grid, grid_obs=grid_obs, observation_map=omap)
                nout = n if grid_obs is None else len(grid_obs)
                return cuqi.model.PDEModel(pde, G.Continuous1D(nout), G.Continuous1D(n))
        else:
            steps = 5
            ts = np.arange(steps + 1) * 0.0625
            tobs = ["final", "all", "vector"][vi % 3 if vi % 3 < 2 else 0] if grids == "equal" else ["final", "vector", "all"][(vi // 2) % 3]
            method = "forward_euler" if vi % 2 == 0 else "backward_euler"
            tvals = {"final": "final", "all": "all", "vector": ts[[2, 4]] + 0.01}[tobs]
            nt = {"final": 1, "all": len(ts), "vector": 2}[tobs]
            def make():
                pde = TimeDependentLinearPDE(lambda x, t: (Dm, src, np.asarray(x, dtype=float)), ts, time_obs=tvals, method=method,
                                             grid_sol=grid, grid_obs=grid_obs, observation_map=omap)
                nout = n if grid_obs is None else len(grid_obs)
                rg = G.Continuous1D(nout) if nt == 1 else G.Continuous2D((nout, nt))
                return cuqi.model.PDEModel(pde, rg, G.Continuous1D(n))
        conf = {"pde_variant": True, "class": "steady" if steady else "time-dependent", "method": method, "grids": grids, "time_obs": tobs,
                "observation_map": omap is not None, "n": n, "seed_index": 500000 + vi}
        cov[f"{conf['class']}|{method}|{grids}|{tobs}|{'map' if omap else 'nomap'}"] = cov.get(f"{conf['class']}|{method}|{grids}|{tobs}|{'map' if omap else 'nomap'}", 0) + 1
        ctx.case("pde-variant", conf)
        try:
            with quiet():
                model = make()
        except Exception as e:
            ctx.note(f"pde-variant constructor refused {conf}: {type(e).__name__}: {str(e)[:60]}")
            continue
        xs = [rng.randint(0, 4, size=n).astype(float) for _ in range(3)]
        kept = []
        for i, xv in enumerate(xs):
            st, val = call(lambda: model.forward(xv))
            kept.append((f"forward-{i}", val if st == "ok" else None, np.asarray(val).tobytes() if st == "ok" else None, xv))
        Xmat = np.column_stack(xs)
        st, sv = call(lambda: model.forward(Samples(Xmat, geometry=model.domain_geometry)))
        st2, again = call(lambda: model.forward(xs[0]))
        if any(k[1] is None for k in kept) or st != "ok":
            ctx.note(f"pde-variant raised {conf}: {[type(k[1]).__name__ for k in kept]} {str(sv)[:80]}")
            continue
        key = f"pde-variant:{conf['class']}:{grids}:{tobs}:{'map' if omap else 'nomap'}"
        for i, (lab, val, snap, xv) in enumerate(kept):
            dsc = {**conf, "call": "pde-variant", "output_of": lab, "x": xv.tolist()}
            if np.asarray(val).tobytes() != snap:
                ctx.fail(key + ":retained-output-overwritten", dsc, "the array returned earlier keeps its value", np.asarray(val, dtype=float).ravel().tolist()[:8],
                         "an output returned earlier was overwritten by a later evaluation of the same model (view into a reused solution buffer)")
                verdicts["retained:overwritten"] = verdicts.get("retained:overwritten", 0) + 1
            with quiet():
                fresh = np.asarray(make().forward(xv.copy()), dtype=float)
            if not veq(np.asarray(val, dtype=float), fresh, 1e-12):
                ctx.fail(key + ":differs-from-fresh-model", dsc, fresh.ravel().tolist()[:8], np.asarray(val, dtype=float).ravel().tolist()[:8],
                         "the retained output is not what a fresh model object returns for the same input")
            if not veq(np.asarray(sv.samples, dtype=float)[:, i], fresh, 1e-12):
                ctx.fail(key + ":samples-column", dsc, fresh.ravel().tolist()[:8], np.asarray(sv.samples, dtype=float)[:, i].tolist()[:8], "Samples column differs from the single evaluation")
            for j in range(i):
                if np.shares_memory(np.asarray(val), np.asarray(kept[j][1])):
                    ctx.fail(key + ":outputs-share-memory", dsc, "distinct memory", "shared", "outputs of two evaluations share memory")
            if np.shares_memory(np.asarray(val), xv):
                ctx.fail(key + ":aliases-input", dsc, "no aliasing", "aliases input")
        verdicts["pde-variant:checked"] = verdicts.get("pde-variant:checked", 0) + 1


def robustness(ctx, cuqi, rng, lines, pending, verdicts, nconf):
    """One model object per configuration (all 16 model kinds incl. steady / time-dependent PDE models, identity-like and
    mapped domain geometries, dimensions 1..3) and a fixed script of calls on it:
      * forward on an ndarray, on the SAME ndarray after an in-place update, on a CUQIarray / a fresh array / a Samples
        object holding the new numbers, interleaved with gradient calls and with A-B-A alternation;
      * the same numbers as int64 / int32 / float32 / bool (/ list for matrix models) ndarray, CUQIarray and Samples;
      * a tiny (1e-7 relative) in-place perturbation and, for linear models, inputs scaled by 1e-12 / 1e12;
      * mutation of every returned array before the next call; byte snapshots of every caller-owned array.
    Every result must be the float64 result R.fun2par(F(D.par2fun(x))) of the *current* numbers (explicit python
    composition on fresh arrays), column by column for Samples, and equal the (pure) model's prediction."""
    from cuqi.array import CUQIarray
    from cuqi.samples import Samples
    DK = ["cont1d", "default1d", "discrete", "map-aff-1-1d", "map-sq-1-1d"]
    cov = ctx.extra_cov.setdefault("robustness_configs", {})
    for ri in range(nconf):
        mk = MODEL_KINDS[ri % len(MODEL_KINDS)]
        dk = DK[(ri // 3) % len(DK)]
        rk = ["cont1d", "discrete", "default1d"][ri % 3]
        n = [2, 3, 1, 2][ri % 4]
        if mk.startswith("pde") and "aff" in dk:
            dk = "map-sq-1-1d"      # keep A0 + diag(par2fun x) positive definite
        D = make_geometries(cuqi, rng, n, dk)
        nDf = int(np.prod(D.fun_shape))
        nr = nDf if mk.startswith("heat") else [2, 1, 3][(ri // 2) % 3]
        R = make_geometries(cuqi, rng, nr, rk)
        if D.family == "map" and ri % 2 == 0:
            install_geom_gradient(D, "x")
        try:
            M = build_model(cuqi, rng, mk, D, R, D.obj, R.obj, scale=0.25)
        except Exception as e:
            ctx.note(f"robustness: constructor refused {mk} {D.label}->{R.label}: {type(e).__name__}")
            continue
        model = M.obj
        Dg, Rg = model.domain_geometry, model.range_geometry

        def eq_eval(a_, b_):
            try:
                with quiet():
                    return "T" if bool(a_ == b_) else "F"
            except IndexError:
                return "I"
            except KeyError:
                return "K"
        eqr = eq_eval(Dg, Rg) + eq_eval(Rg, Dg)
        if "I" in eqr or "K" in eqr:
            continue      # the geometry comparison raises for CUQIarrays (listed finding, covered in the main stream)
        loose = eqr[0] == "T" and type(Dg) is not type(Rg)
        Dtok, Rtok = D.token(0), R.token(1)
        canon = Canon(cuqi, [(Dg, 0), (Rg, 1)])
        exact = D.exact and R.exact and M.exact
        tol = EXACT_TOL if exact else TOL
        conf = {"robustness": True, "model": mk, "domain": D.label, "domain_gradient": D.gradstyle, "range": R.label, "n": n,
                "seed_index": 300000 + ri}
        cov[f"{mk.split('-')[0]}|{D.family}|n={n}"] = cov.get(f"{mk.split('-')[0]}|{D.family}|n={n}", 0) + 1
        lo = 0 if (D.nonneg or M.nonneg) else -3
        newx = lambda: rng.randint(lo, 4, size=n).astype(float)
        xa, xb, xc = newx(), newx(), newx()
        if np.array_equal(xa, xb):
            xb = xb + 1.0
        xbool = rng.randint(0, 2, size=n).astype(float)
        Ns = [2, 1, 3][ri % 3]
        Xs = rng.randint(lo, 4, size=(n, Ns)).astype(float)
        d = rng.randint(-3, 4, size=R.par_dim).astype(float)
        formable = M.gradkind != "none" and R.ident and (D.ident or D.gradstyle is not None)

        def ref_of(p):
            with quiet():
                f = np.asarray(Dg.par2fun(np.array(p, dtype=float)), dtype=float)
                y = np.asarray(M.core(f.ravel()), dtype=float).reshape(R.fun_shape)
                return np.asarray(Rg.fun2par(y), dtype=float).ravel()

        def ref_grad(p):
            p = np.array(p, dtype=float)
            J = np.zeros((R.par_dim, n))
            for j in range(n):
                def cd(h):
                    e = np.zeros(n); e[j] = h
                    return (ref_of(p + e) - ref_of(p - e)) / (2 * h)
                h = 2.0 ** -6
                a_, b_, c_ = cd(h), cd(h / 2), cd(h / 4)
                J[:, j] = (16 * ((4 * c_ - b_) / 3) - (4 * b_ - a_) / 3) / 15
            return J.T @ d
        step = [0]

        def do(label, thunk, line, want, owned, aspect="value", gtol=None):
            """run one call; `owned` = caller-owned arrays that must not be modified; `want` canonical expectation"""
            step[0] += 1
            snaps = [np.asarray(o).tobytes() for o in owned]
            st, val = call(thunk)
            c = canon(val) if st == "ok" else ("err", val)
            desc = {**conf, "call": "robustness", "step": step[0], "probe": label}
            ctx.case(f"robust:{label}", desc)
            if line is not None:
                lines.append(line); pending.append((len(lines) - 1, f"tie:robust:{label}", desc, c, tol))
            for o, b in zip(owned, snaps):
                if np.asarray(o).tobytes() != b:
                    ctx.fail(f"robust:{label}:caller-array-modified", desc, "caller-owned array unchanged", "modified", "a call modified an array owned by the caller")
            if want is not None:
                ok = same_canon(c, want, tol) if gtol is None else (c[0] == want[0] and c[0] != "err" and veq(c[1] if c[0] == "nd" else c[3], want[1] if want[0] == "nd" else want[3], gtol))
                if not ok:
                    ctx.fail(f"robust:{label}:{aspect}", desc, short(want), short(c),
                             "the output is not that of the current float64 numbers (stale cache, dtype truncation or dependence on earlier calls)")
                    verdicts["robust:wrong"] = verdicts.get("robust:wrong", 0) + 1
                else:
                    verdicts["robust:ok"] = verdicts.get("robust:ok", 0) + 1
            # G3: the caller may do what it likes with the returned array
            if st == "ok":
                try:
                    if isinstance(val, Samples):
                        val.samples[...] = 77.0
                    elif isinstance(val, np.ndarray) and not any(np.shares_memory(val, np.asarray(o)) for o in owned):
                        val[...] = 77.0
                except Exception:
                    pass
            return c

        fl = lambda tok, ip=True: f"fwd {M.token} {Dtok} {Rtok} {eqr} {tok} {tok_bool(ip)} 1 _"
        gl = lambda dtok, wtok: f"grad {M.token} {Dtok} {Rtok} {eqr} {dtok} {wtok} 1 1"
        w_nd = lambda p: ("nd", ref_of(p))
        w_arr = lambda p: ("arr", True, 1, ref_of(p))
        w_smp = lambda P: ("smp", 1, True, np.column_stack([ref_of(P[:, j]) for j in range(P.shape[1])]))
        arr_ok = not loose      # CUQIarray inputs hit the loose-equality finding otherwise (main stream)
        # ---- retained outputs: every array ever returned keeps its value and shares memory with nothing else
        inputs_r = [xa.copy(), xb.copy(), xc.copy(), Xs.copy(), d.copy()]
        calls_r = [("forward-nd-1", lambda: model.forward(inputs_r[0]), w_nd(xa), None),
                   ("forward-nd-2", lambda: model.forward(inputs_r[1]), w_nd(xb), None),
                   ("forward-nd-3", lambda: model.forward(inputs_r[2]), w_nd(xc), None),
                   ("forward-samples", lambda: model.forward(Samples(inputs_r[3], geometry=Dg)), w_smp(Xs), None),
                   ("forward-nd-1-again", lambda: model.forward(inputs_r[0]), w_nd(xa), None)]
        if arr_ok:
            calls_r.insert(3, ("forward-arr-2", lambda: model.forward(CUQIarray(inputs_r[1], geometry=Dg)), w_arr(xb), None))
        if formable:
            calls_r += [("gradient-1", lambda: model.gradient(inputs_r[4], inputs_r[0]), ("nd", ref_grad(xa)), 1e-5),
                        ("gradient-2", lambda: model.gradient(inputs_r[4], inputs_r[1]), ("nd", ref_grad(xb)), 1e-5)]
        if mk.split("-")[0] in ("linmat", "linfun") and D.family == "id" and R.family == "id":
            y1, y2 = rng.randint(-3, 4, size=R.par_dim).astype(float), rng.randint(-3, 4, size=R.par_dim).astype(float)
            inputs_r += [y1, y2]
            calls_r += [("adjoint-1", lambda: model.adjoint(y1), None, None), ("adjoint-2", lambda: model.adjoint(y2), None, None),
                        ("adjoint-1-again", lambda: model.adjoint(y1), None, None)]
        kept = []
        for lab, th, want, gtol in calls_r:
            st, val = call(th)
            if st != "ok":
                kept.append((lab, None, None, ("err", val), want, gtol)); continue
            raw = val.samples if isinstance(val, Samples) else val
            kept.append((lab, raw, np.asarray(raw).tobytes(), canon(val), want, gtol))
        descr = {**conf, "call": "robustness", "probe": "retained-outputs", "calls": [k[0] for k in kept]}
        ctx.case("robust:retained-outputs", descr)
        for i, (lab, raw, snap, c, want, gtol) in enumerate(kept):
            dsc = {**descr, "output_of": lab}
            if raw is None:
                if want is not None:
                    ctx.fail(f"robust:retained:{lab}:raised", dsc, short(want), c[1], "call raised")
                continue
            if np.asarray(raw).tobytes() != snap:
                ctx.fail(f"robust:retained:{lab}:overwritten", dsc, "the array returned earlier keeps its value", "changed by a later call",
                         "an output returned earlier was overwritten by a later call (it is a view of internal state)")
                verdicts["retained:overwritten"] = verdicts.get("retained:overwritten", 0) + 1
            if want is not None:
                cur = ("smp", c[1], c[2], np.array(raw, dtype=float)) if c[0] == "smp" else (("nd", np.array(raw, dtype=float).ravel()) if c[0] == "nd" else ("arr", c[1], c[2], np.array(raw, dtype=float).ravel()))
                okv = same_canon(cur, want, tol) if gtol is None else veq(cur[1], want[1], gtol)
                if not okv:
                    ctx.fail(f"robust:retained:{lab}:value-at-end", dsc, short(want), short(cur), "the retained output no longer is the output of its input")
            for j in range(i):
                if kept[j][1] is not None and np.shares_memory(np.asarray(raw), np.asarray(kept[j][1])):
                    ctx.fail(f"robust:retained:{lab}:shares-memory", {**dsc, "with": kept[j][0]}, "distinct calls return distinct memory", "shared",
                             "two outputs of different calls share memory")
            for inp in inputs_r:
                if np.shares_memory(np.asarray(raw), inp):
                    ctx.fail(f"robust:retained:{lab}:aliases-input", dsc, "output does not alias the caller's input", "aliases", "an output is a view of an input array")
        # the same retained outputs against a second look: repeated calls agree with their first results
        for a_, b_ in (("forward-nd-1", "forward-nd-1-again"), ("adjoint-1", "adjoint-1-again")):
            ka = [k for k in kept if k[0] == a_]; kb = [k for k in kept if k[0] == b_]
            if ka and kb and ka[0][1] is not None and kb[0][1] is not None and not veq(np.asarray(ka[0][1]), np.asarray(kb[0][1]), tol):
                ctx.fail(f"robust:retained:{a_}:differs-from-repeat", descr, np.asarray(kb[0][1]).tolist(), np.asarray(ka[0][1]).tolist(), "the retained first output differs from the repeated call")
        verdicts["retained:checked"] = verdicts.get("retained:checked", 0) + len(kept)
        # ---- in-place updates of the same argument array, fresh equal arrays, other representations
        x = xa.copy()
        do("nd:first", lambda: model.forward(x), fl(f"nd:{qv(x)}"), w_nd(xa), [x])
        if formable:
            do("grad:first", lambda: model.gradient(d, x), gl(f"nd:{qv(d)}", f"nd:{qv(x)}"), ("nd", ref_grad(xa)), [x, d], "gradient", 1e-5)
        x[:] = xb
        do("nd:after-inplace-update", lambda: model.forward(x), fl(f"nd:{qv(xb)}"), w_nd(xb), [x], "stale")
        if arr_ok:
            do("arr:after-inplace-update", lambda: model.forward(CUQIarray(x.copy(), geometry=Dg)), fl(f"arr:1:0:{qv(xb)}"), w_arr(xb), [x], "stale")
        if formable:
            do("grad:after-inplace-update", lambda: model.gradient(d, x), gl(f"nd:{qv(d)}", f"nd:{qv(xb)}"), ("nd", ref_grad(xb)), [x, d], "stale-gradient", 1e-5)
        do("nd:fresh-equal-array", lambda: model.forward(xb.copy()), fl(f"nd:{qv(xb)}"), w_nd(xb), [xb])
        x[:] = xa
        do("nd:A-B-A", lambda: model.forward(x), fl(f"nd:{qv(xa)}"), w_nd(xa), [x], "stale")
        Xcur = Xs.copy()
        do("samples:first", lambda: model.forward(Samples(Xcur, geometry=Dg)), fl(f"smp:1:0:{qm(Xs.T)}"), w_smp(Xs), [Xcur])
        Xcur[:, 0] = xc
        X2 = Xs.copy(); X2[:, 0] = xc
        do("samples:after-inplace-update", lambda: model.forward(Samples(Xcur, geometry=Dg)), fl(f"smp:1:0:{qm(X2.T)}"), w_smp(X2), [Xcur], "stale")
        do("nd:after-samples", lambda: model.forward(X2[:, -1].copy()), fl(f"nd:{qv(X2[:, -1])}"), w_nd(X2[:, -1]), [X2])
        # ---- a tiny in-place perturbation must be seen (tolerance-based change detection)
        x[:] = xa
        r0 = call(lambda: np.array(model.forward(x), dtype=float))
        x[:] = xa * (1 + 1e-7) + 1e-7
        r1 = call(lambda: np.array(model.forward(x), dtype=float))
        ctx.case("robust:nd:tiny-update", {**conf, "call": "robustness", "probe": "tiny-update"})
        if r0[0] == "ok" and r1[0] == "ok":
            want_d = ref_of(x) - ref_of(xa)
            got_d = np.asarray(r1[1]).ravel() - np.asarray(r0[1]).ravel()
            if np.abs(want_d).max() > 1e-9 and np.abs(got_d - want_d).max() > 0.5 * np.abs(want_d).max():
                ctx.fail("robust:nd:tiny-update:stale", {**conf, "call": "robustness", "probe": "tiny-update"}, want_d.tolist(), got_d.tolist(),
                         "a 1e-7 in-place change of the argument is not reflected in the output")
        # ---- extreme scales (linear kinds): F(s x) - F(0) = s (F(x) - F(0))
        if mk.split("-")[0] in ("linmat", "linfun", "heat") and D.family == "id":
            z = call(lambda: np.array(model.forward(np.zeros(n)), dtype=float))
            b1 = call(lambda: np.array(model.forward(xa.copy()), dtype=float))
            for sc in (1e-12, 1e12):
                ctx.case("robust:nd:scaled", {**conf, "call": "robustness", "probe": f"scale {sc}"})
                bs = call(lambda: np.array(model.forward(sc * xa), dtype=float))
                if z[0] == b1[0] == bs[0] == "ok":
                    lhs, rhs = bs[1] - z[1], sc * (b1[1] - z[1])
                    if np.abs(lhs - rhs).max() > 1e-6 * (np.abs(rhs).max() + (np.abs(z[1]).max() if sc < 1 else 0) * 1e-3 + 1e-300):
                        ctx.fail("robust:nd:scaled:value", {**conf, "call": "robustness", "probe": f"scale {sc}"}, rhs.tolist(), lhs.tolist(), "linear model is not homogeneous at extreme scales")
        # ---- Samples whose consecutive columns are distinct but (nearly) equal: tiny magnitudes, slow chains, exact repeats.
        #      Every column must get ITS OWN output (tolerance-based "unchanged" tests would copy the predecessor's).
        def chain_probe(label, P):
            c = do(f"samples:{label}", lambda: model.forward(Samples(P.copy(), geometry=Dg)), fl(f"smp:1:0:{qm(P.T)}"), None, [P])
            desc = {**conf, "call": "robustness", "probe": f"samples:{label}", "columns": P.T.tolist()}
            refc = np.column_stack([ref_of(P[:, j]) for j in range(P.shape[1])])
            if c[0] != "smp" or c[3].shape != refc.shape:
                ctx.fail(f"robust:samples:{label}:columnwise", desc, refc.tolist(), short(c), "Samples are not mapped column by column")
                return
            got = c[3]
            for j in range(1, P.shape[1]):
                wd, gd = refc[:, j] - refc[:, j - 1], got[:, j] - got[:, j - 1]
                sc_ = np.abs(wd).max()
                noise = 1e-13 * (1.0 + np.abs(refc[:, j]).max())
                if sc_ > 50 * noise and np.abs(gd - wd).max() > 0.05 * sc_ + 10 * noise:
                    ctx.fail(f"robust:samples:{label}:columnwise", {**desc, "column": j}, {"increment": wd.tolist()}, {"increment": gd.tolist()},
                             "a column that differs slightly from its predecessor did not get its own output")
                    verdicts["robust:wrong"] = verdicts.get("robust:wrong", 0) + 1
                    return
            if not veq(got, refc, 1e-9):
                ctx.fail(f"robust:samples:{label}:columnwise", desc, refc.tolist(), got.tolist(), "Samples are not mapped column by column")
            else:
                verdicts["robust:ok"] = verdicts.get("robust:ok", 0) + 1
        base = np.abs(xa) + 1.0
        tiny = np.column_stack([(base + k) * 1e-9 for k in range(4)])                     # all |x| ~ 1e-9, distinct
        slow = np.column_stack([1000.0 * base + k * 1e-4 * base for k in range(4)]) if not mk.startswith("pde") else \
            np.column_stack([base * (1 + k * 1e-7) for k in range(4)])
        drift = np.column_stack([base * (1 + k * 2e-6) for k in range(5)])                  # relative steps below 1e-5
        rep = np.column_stack([xa, xa, xb, xb, xa])                                       # exact repeats and a return
        chain_probe("tiny-magnitude", tiny)
        chain_probe("slow-chain", slow)
        chain_probe("drift", drift)
        chain_probe("repeated-columns", rep)
        # ---- array properties other than the numbers (G7): strides, negative strides, read-only, Fortran / transposed Samples
        buf = np.zeros(2 * n); buf[::2] = xa
        xs_view = buf[::2]
        do("nd:strided-view", lambda: model.forward(xs_view), fl(f"nd:{qv(xa)}"), w_nd(xa), [buf], "layout")
        rbuf = xa[::-1].copy()
        do("nd:negative-stride", lambda: model.forward(rbuf[::-1]), fl(f"nd:{qv(xa)}"), w_nd(xa), [rbuf], "layout")
        ro = xa.copy(); ro.flags.writeable = False
        do("nd:read-only", lambda: model.forward(ro), fl(f"nd:{qv(xa)}"), w_nd(xa), [ro], "layout")
        XF = np.asfortranarray(Xs.copy())
        do("samples:fortran-order", lambda: model.forward(Samples(XF, geometry=Dg)), fl(f"smp:1:0:{qm(Xs.T)}"), w_smp(Xs), [XF], "layout")
        XT = np.ascontiguousarray(Xs.T.copy())
        do("samples:transposed-view", lambda: model.forward(Samples(XT.T, geometry=Dg)), fl(f"smp:1:0:{qm(Xs.T)}"), w_smp(Xs), [XT], "layout")
        if formable:
            do("grad:strided-view", lambda: model.gradient(d, xs_view), gl(f"nd:{qv(d)}", f"nd:{qv(xa)}"), ("nd", ref_grad(xa)), [buf, d], "layout-gradient", 1e-5)
        # ---- narrow dtypes whose own arithmetic wraps (uint8 / int8 / float16): only where the model function itself works in
        #      float64 (matrix models, PDE models); a user callable cubing an int8 array is the user's business
        if mk.split("-")[0] in ("linmat", "heat", "pde") and D.family == "id":
            xn = np.abs(xa)
            for dt_name, dt in (("uint8", np.uint8), ("int8", np.int8), ("float16", np.float16)):
                xt = xn.astype(dt)
                do(f"nd:{dt_name}", lambda: model.forward(xt), fl(f"nd:{qv(xn)}"), w_nd(xn), [xt], "dtype")
                Xt = np.abs(Xs).astype(dt)
                do(f"samples:{dt_name}", lambda: model.forward(Samples(Xt, geometry=Dg)), fl(f"smp:1:0:{qm(np.abs(Xs).T)}"), w_smp(np.abs(Xs)), [Xt], "dtype")
        # ---- non-float64 inputs: the same numbers as int64 / int32 / float32 / bool / list
        for dt_name, dt in (("int64", np.int64), ("int32", np.int32), ("float32", np.float32), ("bool", np.bool_), ("list", None)):
            src = xbool if dt_name == "bool" else xa
            Xsrc = (np.abs(Xs) > 1).astype(float) if dt_name == "bool" else Xs
            if dt is None:
                if mk != "linmat" or D.family != "id":
                    continue
                do("nd:list", lambda: model.forward([float(v) for v in src]), fl(f"nd:{qv(src)}"), w_nd(src), [])
                continue
            xt = src.astype(dt)
            do(f"nd:{dt_name}", lambda: model.forward(xt), fl(f"nd:{qv(src)}"), w_nd(src), [xt], "dtype")
            if arr_ok:
                do(f"arr:{dt_name}", lambda: model.forward(CUQIarray(xt.copy(), geometry=Dg)), fl(f"arr:1:0:{qv(src)}"), w_arr(src), [xt], "dtype")
            Xt = Xsrc.astype(dt)
            do(f"samples:{dt_name}", lambda: model.forward(Samples(Xt, geometry=Dg)), fl(f"smp:1:0:{qm(Xsrc.T)}"), w_smp(Xsrc), [Xt], "dtype")
            if formable and dt_name != "bool":
                dti = d.astype(dt)
                do(f"grad:{dt_name}", lambda: model.gradient(dti, xt), gl(f"nd:{qv(d)}", f"nd:{qv(src)}"), ("nd", ref_grad(src)), [xt, dti], "dtype-gradient", 1e-5)
            if mk.split("-")[0] in ("linmat", "linfun") and D.family == "id" and R.family == "id":
                # adjoint goes through the same Samples branch
                Yt = rng.randint(-3, 4, size=(R.par_dim, Ns)).astype(float)
                if dt_name == "bool":
                    Yt = (Yt > 0).astype(float)
                with quiet():
                    want_adj = np.column_stack([np.asarray(model.adjoint(Yt[:, j].copy()), dtype=float) for j in range(Ns)])
                Ytt = Yt.astype(dt)
                do(f"adjoint-samples:{dt_name}", lambda: model.adjoint(Samples(Ytt, geometry=Rg)), None, ("smp", 0, True, want_adj), [Ytt], "dtype")


def wrapped_user_geometries(ctx, cuqi, rng, lines, pending, verdicts, nconf):
    """Domain geometry = a `_WrappedGeometry` (MappedGeometry, possibly nested) around a USER geometry whose class has
    its own `gradient` method.  The wrapper has no `gradient` and is not identity-like: the model's decision table
    refuses `Model.gradient`.  Oracle: refusal, or - if a value is returned - the finite-difference oracle of forward.
    Controls: the unwrapped user geometries (formable: the value must pass the oracle)."""
    from cuqi.array import CUQIarray
    G = cuqi.geometry

    class UserLinear(G.Geometry):
        """par2fun = E p, gradient = E^T direction (linear in direction, constant in the point)"""
        def __init__(self, E):
            self._E = E
        @property
        def par_shape(self):
            return (self._E.shape[1],)
        def par2fun(self, p):
            return self._E @ p
        def gradient(self, direction, wrt_par):
            return self._E.T @ np.asarray(direction, dtype=float)
        def _plot(self):
            pass

    class UserQuadratic(G.Geometry):
        """par2fun = p**2 (elementwise), gradient = 2 p * direction"""
        def __init__(self, n):
            self._n = n
        @property
        def par_shape(self):
            return (self._n,)
        def par2fun(self, p):
            return p ** 2
        def gradient(self, direction, wrt_par):
            return 2 * np.asarray(wrt_par, dtype=float) * np.asarray(direction, dtype=float)
        def _plot(self):
            pass

    WRAPS = {"aff": (lambda x: 2 * x + 1, "aff_2_1"), "cube": (lambda x: x ** 3, "cube"), "exp": (lambda x: np.exp(x), None)}
    SHAPES = [[], ["aff"], ["cube"], ["exp"], ["aff", "cube"], ["cube", "aff"], ["exp", "aff"]]
    cov = ctx.extra_cov.setdefault("wrapped_user_geometry", {})
    for wi in range(nconf):
        n = int(rng.randint(2, 4))
        inner_kind = "linear" if wi % 2 == 0 else "quadratic"
        wraps = SHAPES[wi % len(SHAPES)]
        if inner_kind == "linear":
            N = n + 1
            E = rng.randint(-2, 3, size=(N, n)).astype(float)
            inner = UserLinear(E); Etok = qm(E); ktoks = []
        else:
            N = n
            inner = UserQuadratic(n); Etok = "id"; ktoks = ["sq"]
        geom = inner
        has_exp = "exp" in wraps
        for w in wraps:
            geom = G.MappedGeometry(geom, map=WRAPS[w][0])
            ktoks.append(WRAPS[w][1] or "cube")       # exp: stand-in, only refusal decisions are sent to the driver
        label = f"{'Mapped(' * len(wraps)}User{inner_kind.capitalize()}{''.join(',' + w + ')' for w in wraps)}"
        D = Geo(label, "mapn", geom, None, False, (N,), n, has_f2p=False, exact=not has_exp)
        unwrapped = not wraps
        Dtok = f"mapn:0:{'chs' if unwrapped else 'none'}:{Etok}:{'+'.join(ktoks) if ktoks else '_'}:{len(wraps)}"
        nr = int(rng.randint(2, 4))
        R = make_geometries(cuqi, rng, nr, str(rng.choice(["cont1d", "discrete", "default1d"])))
        mk = ["gen-jac-k", "gen-gd-k", "gen-gs-k", "linmat", "gen-gw-s"][wi % 5]
        try:
            M = build_model(cuqi, rng, mk, D, R, geom, R.obj)
        except Exception as e:
            ctx.note(f"wrapped-user-geometry: constructor refused {mk} {label}: {type(e).__name__}")
            continue
        model = M.obj
        Dg, Rg = model.domain_geometry, model.range_geometry
        canon = Canon(cuqi, [(Dg, 0), (Rg, 1)])
        Rtok = R.token(1)
        conf = {"model": mk, "domain": label, "range": R.label, "n": n, "seed_index": 200000 + wi, "wrapped_user_geometry": True}
        cov[label] = cov.get(label, 0) + 1
        x = (rng.randint(-4, 5, size=n) / 4.0) if has_exp else rng.randint(-2, 3, size=n).astype(float)
        d = rng.randint(-3, 4, size=R.par_dim).astype(float)
        with quiet():
            fx = np.asarray(Dg.par2fun(x), dtype=float)
        tol = EXACT_TOL if not has_exp else TOL
        # forward (tie only where the maps are rational; oracle everywhere)
        ref = np.asarray(M.core(fx.ravel()), dtype=float)
        fw = [("nd-par", lambda: model.forward(x.copy()), f"nd:{qv(x)}", True),
              ("nd-fun", lambda: model.forward(fx.copy(), is_par=False), f"nd:{qv(fx)}", False),
              ("arr-par", lambda: model.forward(CUQIarray(x.copy(), geometry=Dg)), f"arr:1:0:{qv(x)}", True),
              ("arr-fun", lambda: model.forward(CUQIarray(fx.copy(), is_par=False, geometry=Dg)), f"arr:0:0:{qv(fx)}", True)]
        for kind, th, tok, ip in fw:
            st, val = call(th)
            c = canon(val) if st == "ok" else ("err", val)
            desc = {**conf, "call": "forward", "input": kind, "x": x.tolist()}
            ctx.case("wrapped:forward:" + kind, desc)
            if not has_exp:
                lines.append(f"fwd {M.token} {Dtok} {Rtok} FF {tok} {tok_bool(ip)} 1 _")
                pending.append((len(lines) - 1, f"tie:wrapped:forward:{kind}", desc, c, tol))
            data = c[1] if c[0] == "nd" else c[3] if c[0] == "arr" else None
            if data is None or not veq(data, ref, tol):
                ctx.fail(f"forward:{kind}:value:wrapped-user-geometry", desc, ref.tolist(), short(c), "output differs from R.fun2par(F(D.par2fun(x)))")
        # gradient: decision table says refused (wrapper) / formable (unwrapped control)
        has_func = M.gradkind != "none"
        Jfd = None
        reps_w = [("nd-par", lambda: x.copy(), True, f"nd:{qv(x)}"),
                  ("arr-par", lambda: CUQIarray(x.copy(), geometry=Dg), True, f"arr:1:0:{qv(x)}"),
                  ("arr-fun", lambda: CUQIarray(fx.copy(), is_par=False, geometry=Dg), True, f"arr:0:0:{qv(fx)}"),
                  ("nd-fun", lambda: fx.copy(), False, f"nd:{qv(fx)}")]
        reps_d = [("nd-par", lambda: d.copy(), f"nd:{qv(d)}"),
                  ("arr-par", lambda: CUQIarray(d.copy(), geometry=Rg), f"arr:1:1:{qv(d)}")]
        for wk, wth, iwp, wtok in reps_w:
            for dk_, dth, dtok in reps_d:
                st, val = call(lambda wth=wth, dth=dth, iwp=iwp: model.gradient(dth(), wth(), is_wrt_par=iwp))
                c = canon(val) if st == "ok" else ("err", val)
                desc = {**conf, "call": "gradient", "wrt": wk, "direction": dk_, "x": x.tolist(), "d": d.tolist()}
                ctx.case(f"wrapped:gradient:{wk}:{dk_}", desc)
                lines.append(f"grad {M.token} {Dtok} {Rtok} FF {dtok} {wtok} 1 {tok_bool(iwp)}")
                pending.append((len(lines) - 1, f"tie:wrapped:gradient:wrt-{wk}:dir-{dk_}", desc, c, tol))
                key = f"gradient:{'usergeom' if unwrapped else 'wrapped-usergeom'}:wrt-{wk}:dir-{dk_}:tags-{M.gradkind}-method"
                must_refuse = (not unwrapped) or (not has_func) or wk in ("arr-fun", "nd-fun")   # no fun2par anywhere here
                if c[0] == "err":
                    if not must_refuse:
                        ctx.fail(key + ":raised", desc, "a value (unwrapped user geometry with gradient)", c[1], "gradient raised although every ingredient is available")
                    else:
                        verdicts["wrapped:refused"] = verdicts.get("wrapped:refused", 0) + 1
                    continue
                # a value was returned: it must be the transposed Jacobian of forward (finite differences)
                if Jfd is None:
                    Jfd = fd_jacobian(model, x, R.par_dim)
                refg = Jfd.T @ d
                data = c[1] if c[0] == "nd" else c[3]
                scale = 1.0 + np.abs(refg).max()
                if data.shape == refg.shape and not np.isnan(data).any():
                    note_margin("wrapped-gradient-oracle(1e-5*scale)", np.abs(data - refg).max() if data.size else 0.0, 1e-5 * scale * (1 + np.abs(fx).max()) ** 2)
                if data.shape != refg.shape or np.isnan(data).any() or np.abs(data - refg).max() > 1e-5 * scale * (1 + np.abs(fx).max()) ** 2:
                    ctx.fail(key + ":value", desc, np.round(refg, 6).tolist(), short(c),
                             "gradient is not the transposed Jacobian of x -> forward(x): the derivative of the wrapper's map is missing")
                    verdicts["wrapped:wrong"] = verdicts.get("wrapped:wrong", 0) + 1
                elif must_refuse and wk in ("arr-fun", "nd-fun"):
                    ctx.fail(key + ":refusal", desc, "an exception (function values cannot be converted to parameters)", short(c))
                else:
                    verdicts["wrapped:value-ok"] = verdicts.get("wrapped:value-ok", 0) + 1


# callables that are correct on one vector but are NOT column-vectorised: on a (dim, N) array they do something
# else or raise, so "apply to each column" and "apply once to the whole array" differ
def _raw_callables(n, rng):
    k = rng.randint(-2, 3, size=n).astype(float)
    k3 = rng.randint(-2, 3, size=min(3, n)).astype(float)
    return {
        "roll": lambda x: np.roll(np.asarray(x, dtype=float), 1),                    # rolls the flattened array for 2-D input
        "reverse": lambda x: np.asarray(x, dtype=float)[::-1].copy(),                # reverses the rows, i.e. each column - but see cumsum
        "cumsum": lambda x: np.cumsum(np.asarray(x, dtype=float)),                   # flattens a 2-D input
        "fft-circular": lambda x: np.real(np.fft.ifft(np.fft.fft(np.asarray(x, dtype=float)) * np.fft.fft(k))),   # last axis of a 2-D input
        "convolve": lambda x: np.convolve(np.asarray(x, dtype=float), k3, mode="same"),   # raises on 2-D input
        "reshape": lambda x: 2.0 * np.asarray(x, dtype=float).reshape(n) + np.roll(np.asarray(x, dtype=float).reshape(n), -1),  # raises on 2-D input
        "diff-sorted-index": lambda x: np.asarray(x, dtype=float)[np.arange(n)[::-1]] - np.asarray(x, dtype=float)[0],
    }


def histories(ctx, cuqi, rng, lines, pending, verdicts, nhist):
    """(A) sequences of calls on ONE model object followed by forward/adjoint on Samples / CUQIarray / vector;
    (B) function-backed LinearModels (and matrix-backed ones) whose callables are not column-vectorised.
    The model is pure, so its prediction for the probes does not depend on the history; the oracle is an explicit
    python loop over fresh columns and the comparison before / after the history."""
    from cuqi.array import CUQIarray
    from cuqi.samples import Samples
    G = cuqi.geometry
    OPS = ["get_matrix", "T", "T.get_matrix", "T.forward", "gradient", "forward-vec", "forward-arr", "adjoint-vec",
           "forward-samples", "adjoint-samples", "matmul"]
    hist_ops = ctx.extra_cov.setdefault("history_ops", {})
    for hi in range(nhist):
        n = int(rng.randint(2, 6))
        # every fourth history: a function-backed model on a NON identity-like domain geometry that provides `gradient`
        # (mapped 3x+b / step expansion / user geometry) - get_matrix() then caches a PARAMETER-space matrix
        Dgeo = None
        if hi % 4 == 1:
            Dgeo = make_geometries(cuqi, rng, int(rng.randint(2, 4)), ["map-aff-1-1d", "step", "custom"][(hi // 4) % 3])
            install_geom_gradient(Dgeo, ["s", "x"][(hi // 12) % 2])
            n = int(np.prod(Dgeo.fun_shape))
        npar = n if Dgeo is None else Dgeo.par_dim
        raws = _raw_callables(n, rng)
        names = sorted(raws)
        cname = names[hi % len(names)]
        backed = "matrix" if (hi % 5 == 4 and Dgeo is None) else "function"
        raw = raws[cname]
        A = np.column_stack([raw(e) for e in np.eye(n)])            # the callable is linear: its matrix (harness' own evaluation)
        exact = cname != "fft-circular"
        tol = EXACT_TOL if exact else TOL

        def mk_geom(kind):
            if kind == "int":
                return n
            if kind == "cont1d":
                return G.Continuous1D(n)
            if kind == "discrete":
                return G.Discrete(n)
            return G.Continuous1D(np.arange(n) * 0.5 + 1.0)
        dkind = ["int", "cont1d", "default", "discrete", "grid"][hi % 5] if hi < 10 else str(rng.choice(["int", "cont1d", "discrete", "grid"]))
        rkind = str(rng.choice(["int", "cont1d", "discrete", "grid"]))
        if Dgeo is not None:
            dkind = Dgeo.label
            if rkind == "int":
                rkind = "cont1d"
        Dobj = None if dkind == "default" else (Dgeo.obj if Dgeo is not None else mk_geom(dkind))
        Robj = None if dkind == "default" else mk_geom(rkind)
        fwd_calls = {"n": 0, "max_ndim": 0}

        def forward(x, raw=raw, fwd_calls=fwd_calls):
            fwd_calls["n"] += 1
            fwd_calls["max_ndim"] = max(fwd_calls["max_ndim"], np.ndim(x))
            return raw(x)

        def adjoint(y, A=A, n=n):
            return A.T @ np.asarray(y, dtype=float).reshape(n)          # refuses a 2-D array
        try:
            with quiet():
                if backed == "matrix" or dkind == "default":
                    backed = "matrix"
                    model = cuqi.model.LinearModel(A.copy(), range_geometry=Robj, domain_geometry=Dobj)
                    mtok = f"linmat:{qm(A)}"
                else:
                    model = cuqi.model.LinearModel(forward, adjoint, range_geometry=Robj, domain_geometry=Dobj)
                    mtok = f"linfun:0:{qm(A)}:{qm(A.T)}:x"
        except Exception as e:
            ctx.note(f"history: constructor refused {cname}/{dkind}: {type(e).__name__}")
            continue
        Dg, Rg = model.domain_geometry, model.range_geometry

        def eq_eval(a_, b_):
            try:
                with quiet():
                    return "T" if bool(a_ == b_) else "F"
            except IndexError:
                return "I"
            except KeyError:
                return "K"
        eqr = eq_eval(Dg, Rg) + eq_eval(Rg, Dg)
        canon = Canon(cuqi, [(Dg, 0), (Rg, 1)])
        Ns = int(rng.randint(2, 5))
        Xs = rng.randint(-3, 4, size=(npar, Ns)).astype(float)
        Ys = rng.randint(-3, 4, size=(n, Ns)).astype(float)
        x, y = Xs[:, 0].copy(), Ys[:, 0].copy()
        nops = int(rng.randint(1, 6))
        ops = [str(o) for o in rng.choice(OPS, size=nops)]
        if hi % 2 == 0 or Dgeo is not None:
            ops = ["get_matrix"] + ops          # the caching call first in half of the histories (always on expansion / mapped domains)
        Dt, Rt = ("id:0:1:none" if Dgeo is None else Dgeo.token(0)), "id:1:1:none"
        # probes: (label, thunk, driver line)  -- adjoint = forward of the swapped model
        fw = lambda tok, ip=True: f"fwd {mtok} {Dt} {Rt} {eqr} {tok} {tok_bool(ip)} 1 _"
        adj_tok = f"linfun:0:{qm(A.T)}:{qm(A)}:y" if backed == "function" else f"linmat:{qm(A.T)}"
        ad = lambda tok: f"fwd {adj_tok} id:1:1:none id:0:1:none {eqr[::-1]} {tok.replace(':0:', ':1:', 1) if tok.startswith(('arr:1:0', 'smp:1:0')) else tok} 1 1 _"
        probes = [
            ("forward-samples", lambda: model.forward(Samples(Xs.copy(), geometry=Dg)), fw(f"smp:1:0:{qm(Xs.T)}")),
            ("forward-samples-nogeom", lambda: model.forward(Samples(Xs.copy())), fw(f"smp:1:7:{qm(Xs.T)}")),
            ("matmul-samples", lambda: model @ Samples(Xs.copy(), geometry=Dg), fw(f"smp:1:0:{qm(Xs.T)}")),
            ("forward-vec", lambda: model.forward(x.copy()), fw(f"nd:{qv(x)}")),
            ("forward-arr", lambda: model.forward(CUQIarray(x.copy(), geometry=Dg)), fw(f"arr:1:0:{qv(x)}")),
            ("adjoint-samples", lambda: model.adjoint(Samples(Ys.copy(), geometry=Rg)), ad(f"smp:1:1:{qm(Ys.T)}")),
            ("adjoint-vec", lambda: model.adjoint(y.copy()), ad(f"nd:{qv(y)}")),
            ("adjoint-arr", lambda: model.adjoint(CUQIarray(y.copy(), geometry=Rg)), ad(f"arr:1:1:{qv(y)}")),
        ]
        probes += [("gradient-nd", lambda: model.gradient(y.copy(), x.copy()), f"grad {mtok} {Dt} {Rt} {eqr} nd:{qv(y)} nd:{qv(x)} 1 1"),
                   ("gradient-dir-arr", lambda: model.gradient(CUQIarray(y.copy(), geometry=Rg), x.copy()), f"grad {mtok} {Dt} {Rt} {eqr} arr:1:1:{qv(y)} nd:{qv(x)} 1 1")]
        if Dgeo is not None:
            probes = [p_ for p_ in probes if not p_[0].startswith("adjoint")]      # adjoint on expansion geometries is C07's subject
        conf = {"history": True, "callable": cname, "backed": backed, "domain": dkind, "range": rkind, "n": n, "ops": ops,
                "seed_index": 100000 + hi, "Xs": Xs.tolist(), "Ys": Ys.tolist()}

        def run_probes():
            out = {}
            for lab, th, _ in probes:
                st, val = call(th)
                out[lab] = canon(val) if st == "ok" else ("err", val)
            return out
        before = run_probes()
        # the history
        for o in ops:
            hist_ops[o] = hist_ops.get(o, 0) + 1
            try:
                with quiet():
                    if o == "get_matrix":
                        model.get_matrix()
                    elif o == "T":
                        model.T
                    elif o == "T.get_matrix":
                        model.T.get_matrix()
                    elif o == "T.forward":
                        model.T.forward(y.copy())
                    elif o == "gradient":
                        model.gradient(y.copy(), x.copy())
                    elif o == "forward-vec":
                        model.forward(x.copy())
                    elif o == "forward-arr":
                        model.forward(CUQIarray(x.copy(), geometry=Dg))
                    elif o == "adjoint-vec":
                        model.adjoint(y.copy())
                    elif o == "forward-samples":
                        model.forward(Samples(Xs.copy(), geometry=Dg))
                    elif o == "adjoint-samples":
                        model.adjoint(Samples(Ys.copy(), geometry=Rg))
                    elif o == "matmul":
                        model @ x.copy()
            except Exception as e:
                ctx.note(f"history op {o} raised {type(e).__name__} ({cname}, {backed}, {dkind}->{rkind})")
        after = run_probes()
        # oracle: explicit loop over fresh columns with the raw callable / the transposed matrix
        def comp(p):
            with quiet():
                return np.asarray(raw(np.asarray(Dg.par2fun(np.array(p, dtype=float)), dtype=float)), dtype=float)
        fcols = np.column_stack([comp(Xs[:, j]) for j in range(Ns)])
        Jc = np.column_stack([(comp(x + 0.5 * e) - comp(x - 0.5 * e)) for e in np.eye(npar)])     # exact: the composition is affine here
        gwant = Jc.T @ y
        acols = np.column_stack([A.T @ Ys[:, j].copy() for j in range(Ns)])
        want = {"forward-samples": ("smp", 1, True, fcols), "forward-samples-nogeom": ("smp", 1, True, fcols),
                "matmul-samples": ("smp", 1, True, fcols),
                "forward-vec": ("nd", fcols[:, 0]), "forward-arr": ("arr", True, 1, fcols[:, 0]),
                "adjoint-samples": ("smp", 0, True, acols), "adjoint-vec": ("nd", acols[:, 0]), "adjoint-arr": ("arr", True, 0, acols[:, 0]),
                "gradient-nd": ("nd", gwant), "gradient-dir-arr": ("arr", True, 0, gwant)}
        eq_bad = ("I" in eqr) or ("K" in eqr)
        for (lab, th, line), when, res in [(p, w, r[p[0]]) for p in probes for w, r in (("fresh", before), ("after-history", after))]:
            desc = {**conf, "call": "history", "probe": lab, "when": when}
            ctx.case(f"history:{lab}:{when}", desc, nontrivial=True)
            lines.append(line); pending.append((len(lines) - 1, f"tie:history:{lab}:{when}", desc, res, tol))
            if eq_bad and lab.endswith("arr"):
                continue          # the geometry comparison raises for CUQIarray inputs here (listed finding, covered in the main stream)
            if not same_canon(res, want[lab], tol):
                ctx.fail(f"history:{lab}:{when}:{'samples-columnwise' if 'samples' in lab else 'value'}", desc, short(want[lab]), short(res),
                         "the output is not the column-by-column application of the model's function / depends on what was called before")
                verdicts["history:wrong"] = verdicts.get("history:wrong", 0) + 1
            else:
                verdicts["history:ok"] = verdicts.get("history:ok", 0) + 1
        for lab in before:
            if not same_canon(before[lab], after[lab], tol):
                desc = {**conf, "call": "history", "probe": lab, "when": "before-vs-after"}
                ctx.fail(f"history:{lab}:depends-on-history", desc, short(before[lab]), short(after[lab]), "the same call gives another result after the history")


FOREIGN_FWD = ["arr-foreign-par", "arr-foreign-funflag-argT", "arr-foreign-argF", "arr-default-par", "arr-nearmap-par", "arr-nearmap-fun-argF"]
NEARMAP_FWD = ["arr-nearmap-par", "arr-nearmap-fun-argF"]


def near_mapped_geometry(g):
    """MappedGeometry over an equal (deep-copied) base whose `map` has the SAME code as g.map but other numeric constants / closure values
    (x**2 -> x**3, a*x+b -> (a+1)*x+(b+1)); `imap` is the same object.  None when the map has nothing to tweak."""
    import types
    f = getattr(g, "map", None)
    if not isinstance(f, types.FunctionType):
        return None
    code = f.__code__
    consts = tuple((c + 1) if (isinstance(c, (int, float)) and not isinstance(c, bool)) else c for c in code.co_consts)
    cells = None
    changed = consts != code.co_consts
    if f.__closure__:
        vals = [c.cell_contents for c in f.__closure__]
        new = [(v + 1.0) if isinstance(v, (int, float)) and not isinstance(v, bool) else v for v in vals]
        changed = changed or new != vals
        cells = tuple(types.CellType(v) for v in new)
    if not changed:
        return None
    f2 = types.FunctionType(code.replace(co_consts=consts), f.__globals__, f.__name__, f.__defaults__, cells)
    return type(g)(_copy.deepcopy(g.geometry), map=f2, imap=g.imap)


def _is_parameters_of(c, Rg, fun_ref):
    """is the returned canonical value `c` a parameter vector p of the geometry `Rg` with Rg.par2fun(p) == fun_ref ?"""
    if fun_ref is None or c[0] not in ("nd", "arr"):
        return False
    data = c[1] if c[0] == "nd" else c[3]
    try:
        with quiet():
            back = np.asarray(Rg.par2fun(np.array(data, dtype=float)), dtype=float).ravel()
    except Exception:
        return False
    return back.shape == fun_ref.shape and veq(back, fun_ref, 1e-7)


IN_SCOPE_FWD = ["nd-par", "nd-par-kw", "nd-fun", "arr-par", "arr-par-eqgeom", "arr-par-eqgeom-argF", "arr-par-argF", "arr-fun",
                "arr-fun-argF", "arr-fun-eqgeom", "arr-fun-eqgeom-argF"]


def oracle_forward(ctx, cuqi, verdicts, conf, M, D, R, model, Dg, Rg, x, fx, Xs, FXs, results, gR, exact):
    tol = EXACT_TOL if exact else TOL
    def ref_of(p):
        with quiet():
            f = np.asarray(Dg.par2fun(p), dtype=float)
            y = M.core(f.ravel()).reshape(R.fun_shape)
            return np.asarray(Rg.fun2par(y), dtype=float).ravel()
    try:
        ref = ref_of(x)
        ref_err = None
    except Exception as e:
        ref, ref_err = None, type(e).__name__
    fun_ref = None
    if ref is None:
        try:
            with quiet():
                fun_ref = np.asarray(M.core(np.asarray(Dg.par2fun(x), dtype=float).ravel()), dtype=float).ravel()
        except Exception:
            fun_ref = None
    desc0 = {**conf, "call": "forward", "x": x.tolist()}
    # "wrapped like the input" for CUQIarrays that carry a geometry other than the model's (foreign / default geometry):
    # whatever value comes back, it is a CUQIarray flagged parameters on the range geometry
    for kind in FOREIGN_FWD:
        c = results.get(kind)
        if c is None or c[0] == "err":
            continue
        desc = {**desc0, "input": kind}
        if not (c[0] == "arr" and c[1] is True and c[2] == gR):
            ctx.fail(f"forward:{kind}:wrap", desc, "CUQIarray flagged parameters on the range geometry", short(c),
                     "a CUQIarray input (carrying another geometry than the model's) did not give a CUQIarray output: not wrapped like the input")
            verdicts["forward:foreign:wrap-wrong"] = verdicts.get("forward:foreign:wrap-wrong", 0) + 1
        else:
            verdicts["forward:foreign:wrap-ok"] = verdicts.get("forward:foreign:wrap-ok", 0) + 1
    for kind in NEARMAP_FWD:
        c = results.get(kind)
        if c is None or c[0] == "err" or ref is None:
            continue
        desc = {**desc0, "input": kind}
        data = c[1] if c[0] == "nd" else c[3] if c[0] == "arr" else None
        if data is None or not veq(data, ref, tol):
            ctx.fail(f"forward:{kind}:value", desc, ref.tolist(), short(c),
                     "a CUQIarray carrying ANOTHER geometry (a MappedGeometry whose map differs from the model's only in constants) is not treated as the plain vector it holds")
            verdicts["forward:nearmap:wrong"] = verdicts.get("forward:nearmap:wrong", 0) + 1
        else:
            verdicts["forward:nearmap:same"] = verdicts.get("forward:nearmap:same", 0) + 1
    for kind in IN_SCOPE_FWD:
        if kind not in results:
            continue
        c = results[kind]
        desc = {**desc0, "input": kind}
        key = f"forward:{kind}"
        if ref is None:
            # the range geometry cannot express the output as parameters: refuse, or return a p with R.par2fun(p) == F(D.par2fun(x))
            if c[0] != "err" and not _is_parameters_of(c, Rg, fun_ref):
                ctx.fail(key + ":refusal", desc, f"{ref_err} (range geometry has no fun2par), or parameters p with par2fun(p) = {None if fun_ref is None else np.round(fun_ref, 9).tolist()[:8]}",
                         short(c), "the range geometry has no fun2par, yet a value was returned that is not the parameter representation of the operator output")
                verdicts["forward:no-fun2par:wrong"] = verdicts.get("forward:no-fun2par:wrong", 0) + 1
            else:
                verdicts["forward:no-fun2par:refused"] = verdicts.get("forward:no-fun2par:refused", 0) + 1
            continue
        if c[0] == "err":
            sfx = ":geometry-eq-raises" if (conf.get("geometry_eq_raises") and c[1] in ("IndexError", "KeyError")) else ""
            ctx.fail(key + ":raised" + sfx, desc, ref.tolist(), c[1], "forward raised on an in-scope input")
            continue
        data = c[1] if c[0] == "nd" else c[3] if c[0] == "arr" else None
        if data is None or not veq(data, ref, tol):
            ctx.fail(key + ":value" + (":loose-geometry-eq" if conf.get("loose_geometry_eq") and kind.startswith("arr") else ""), desc, ref.tolist(), short(c), "output differs from R.fun2par(F(D.par2fun(x)))")
        want_arr = kind.startswith("arr")
        if want_arr and not (c[0] == "arr" and c[1] is True and c[2] == gR):
            ctx.fail(key + ":wrap", desc, "CUQIarray flagged parameters on the range geometry", short(c), "output is not wrapped like the input")
        if not want_arr and c[0] != "nd":
            ctx.fail(key + ":wrap", desc, "plain ndarray", short(c), "output is not wrapped like the input")
        verdicts["forward:checked"] = verdicts.get("forward:checked", 0) + 1
    # Samples: column-wise, Samples on the range geometry
    for kind in ("samples", "samples-eqgeom", "samples-nogeom"):
        if kind not in results:
            continue
        c = results[kind]
        desc = {**desc0, "input": kind, "Xs": Xs.tolist()}
        key = f"forward:{kind}"
        if ref is None:
            if c[0] != "err":
                ok_cols = c[0] == "smp" and c[3].shape[1] == Xs.shape[1]
                if ok_cols:
                    for j in range(Xs.shape[1]):
                        with quiet():
                            fj = np.asarray(M.core(np.asarray(Dg.par2fun(Xs[:, j]), dtype=float).ravel()), dtype=float).ravel()
                        ok_cols = ok_cols and _is_parameters_of(("nd", c[3][:, j]), Rg, fj)
                if not ok_cols:
                    ctx.fail(key + ":refusal", desc, f"{ref_err} (range geometry has no fun2par) or columns that are parameters of the outputs", short(c),
                             "the range geometry has no fun2par, yet Samples were returned whose columns are not parameter representations of the outputs")
            continue
        cols = np.column_stack([ref_of(Xs[:, j]) for j in range(Xs.shape[1])])
        if c[0] != "smp":
            ctx.fail(key + ":wrap", desc, "Samples", short(c), "a Samples input did not give a Samples output")
            continue
        if c[3].shape != cols.shape or not veq(c[3], cols, tol):
            ctx.fail(key + ":value", desc, cols.tolist(), short(c), "Samples are not mapped column by column")
        if c[1] != gR or c[2] is not True:
            ctx.fail(key + ":wrap", desc, "Samples of parameters on the range geometry", short(c))
    # Samples flagged as function values: the corresponding outputs are those of the parameter columns
    if FXs is not None and ref is not None:
        cols = np.column_stack([ref_of(Xs[:, j]) for j in range(Xs.shape[1])])
        for kind in ("samples-funvals", "samples-funvals-argF"):
            if kind not in results:
                continue
            c = results[kind]
            desc = {**desc0, "input": kind, "Xs": Xs.tolist()}
            good = c[0] == "smp" and c[3].shape == cols.shape and veq(c[3], cols, tol)
            if not good and not np.array_equal(FXs, Xs):
                ctx.fail(f"forward:{kind}:is_par-ignored", desc, cols.tolist(), short(c),
                         "a Samples object flagged is_par=False is treated as parameters (par2fun applied to function values)")
                verdicts["forward:samples-funvals:wrong"] = verdicts.get("forward:samples-funvals:wrong", 0) + 1
            else:
                verdicts["forward:samples-funvals:same"] = verdicts.get("forward:samples-funvals:same", 0) + 1


def fd_jacobian(model, x, m):
    """Richardson-extrapolated central differences of forward in parameter space (exact for cubics up to rounding)"""
    n = len(x)
    J = np.zeros((m, n))
    for j in range(n):
        def cd(h):
            e = np.zeros(n); e[j] = h
            with quiet():
                return (np.asarray(model.forward(x + e), dtype=float).ravel() - np.asarray(model.forward(x - e), dtype=float).ravel()) / (2 * h)
        h = 2.0 ** -6
        a, b, c = cd(h), cd(h / 2), cd(h / 4)
        r1, r2 = (4 * b - a) / 3, (4 * c - b) / 3
        J[:, j] = (16 * r2 - r1) / 15
    return J


def oracle_gradient(ctx, cuqi, verdicts, conf, M, D, R, model, Dg, Rg, x, fx, d, gres, exact):
    has_func = M.gradkind != "none"
    formable = has_func and R.ident and (D.ident or D.gradstyle is not None)
    dom = "identity" if D.ident and D.gradstyle is None else ("geomgrad" if D.gradstyle is not None else "noidentity")
    tags = f"tags-{M.gradkind}-{'ch' + D.gradstyle if D.gradstyle else 'none'}"
    ref = None
    if formable:
        try:
            J = fd_jacobian(model, x, R.par_dim)
            ref = J.T @ d
        except Exception as e:
            ctx.note(f"finite differences unavailable at {conf}: {type(e).__name__}")
    scale = 1.0 + (np.abs(ref).max() if ref is not None and ref.size else 0.0)
    for (wk, dk_), c in gres.items():
        desc = {**conf, "call": "gradient", "wrt": wk, "direction": dk_, "x": x.tolist(), "d": d.tolist()}
        key = f"gradient:{dom}:wrt-{wk}:dir-{dk_}:{tags}"
        samples_in = wk == "samples" or dk_ == "samples"
        needs_f2p = wk.startswith(("nd-fun", "arr-fun"))
        if not formable or samples_in or (needs_f2p and not D.has_f2p):
            if c[0] != "err":
                ctx.fail(key + ":refusal", desc, "an exception (the gradient cannot be formed correctly here)", short(c),
                         "gradient returned a value where it must be refused")
            else:
                verdicts["gradient:refused"] = verdicts.get("gradient:refused", 0) + 1
            continue
        if ref is None:
            continue
        if c[0] == "err":
            sfx = ":geometry-eq-raises" if (conf.get("geometry_eq_raises") and c[1] in ("IndexError", "KeyError")) else ""
            ctx.fail(key + ":raised" + sfx, desc, ref.tolist(), c[1], "gradient raised although every ingredient is available")
            continue
        data = c[1] if c[0] == "nd" else c[3]
        # finite-difference noise: the Richardson scheme is exact (up to rounding) for the polynomial kinds; for the rational Poisson
        # model its truncation error reaches 7.5e-7 relative (thorough tier), hence 1e-4 there (a wrong gradient is off by O(1))
        gtol = (1e-5 if M.exact else 1e-4) * scale * (1 + np.abs(x).max()) ** 2
        if data.shape == ref.shape and not np.isnan(data).any():
            note_margin(f"gradient-oracle({'1e-5' if M.exact else '1e-4'}*scale):{conf['model'].split('-')[0]}", np.abs(data - ref).max() if data.size else 0.0, gtol)
        if data.shape != ref.shape or np.isnan(data).any() or np.abs(data - ref).max() > gtol:
            ctx.fail(key + ":value", desc, np.round(ref, 6).tolist(), short(c),
                     "gradient is not the transposed Jacobian of x -> forward(x) applied to the direction")
            verdicts["gradient:wrong"] = verdicts.get("gradient:wrong", 0) + 1
        else:
            verdicts["gradient:equal"] = verdicts.get("gradient:equal", 0) + 1
