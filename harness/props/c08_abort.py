"""C08, session-3 extension — interrupted transitions (Model/C08_abort.lean, Props/C08_abort.lean).

History class: the target raises at its k-th evaluation of a transition (solver failure, interrupt), the caller catches the
exception and keeps using the sampler object.  The property says the cached log-density and gradient ALWAYS belong to the
current point, and quantifies over histories; the next transition of the resumed sampler starts from that state.

* tie: the state the experimental sampler is left in (point, cached log-density, cached gradient) against the model's
  `nutsAbort` (the loop state at the head of the interrupted doubling), then the NEXT transition of the resumed sampler
  against the model's transition from the model's abort state; legacy: the sampler object must be unaffected (same
  transition as a fresh one from x0).
* oracle (implementation only): after the interruption `current_target_logd == logd(current_point)` and
  `current_target_grad == gradient(current_point)`; on a broken tie of the resumed transition a fresh sampler started at
  the implementation's own state with the same draws must agree (a transition is a function of state and draws only).

The model's doubling profile (leaves evaluated and acceptance flag per doubling) is used to aim most faults at a doubling that
follows an accepted one (where a state written piecemeal would show).
"""
import numpy as np
from fractions import Fraction
from harness.core import quiet, q, qv, qm, pv, close, vclose

WALLVAL = {"nan": float("nan"), "inf": float("inf"), "-inf": float("-inf")}


class _Interrupt(Exception):
    pass


def make_fused_target(cuqi, case, fuse):
    P = np.array(case["P"], float); b = np.array(case["b"], float)
    wall, kind = case["wall"], case.get("wall_kind", "nan")

    def tick(site, x):
        # the k-th call (periodic leapfrog orbits revisit points exactly, so calls cannot be de-duplicated by value)
        if fuse.get("armed") and fuse["site"] == site:
            fuse["count"] += 1
            if fuse["count"] == fuse["k"]:
                fuse["armed"] = False; fuse["fired"] = True
                raise _Interrupt("target evaluation failed")

    def logpdf(x):
        x = np.asarray(x, dtype=float).ravel()
        tick("logd", x)
        if wall is not None and x[0] > wall:
            return WALLVAL[kind]
        return float(b @ x - 0.5 * x @ (P @ x))

    def grad(x):
        x = np.asarray(x, dtype=float).ravel()
        tick("grad", x)
        return b - P @ x

    return cuqi.distribution.UserDefinedDistribution(dim=len(b), logpdf_func=logpdf, gradient_func=grad), logpdf, grad


def interrupt_stream(ctx, cuqi, rng, n):
    from harness.props.c08 import gen_case, gen_tight, Script, scripted, line_of
    jobs = []
    for i in range(n):
        c = gen_tight(rng, False) if i % 3 == 2 else gen_case(rng, False)
        c["int_x0"] = False
        c["md"] = rng.choice([2, 3, 3, 4, 4, 5])
        if c["eps"] > 1.0:
            c["eps"] = rng.choice([1 / 8, 1 / 4, 1 / 2, 3 / 4])
        c["us"] = [rng.randint(1, 1023) / 1024 for _ in range(3 * (2 ** (c["md"] + 1)) + 8)]
        iface = "legacy" if i % 5 == 4 else "exp"
        if iface == "legacy" and c["eps"] == 1.0:
            c["eps"] = 0.5
        jobs.append((c, iface))
    o1 = ctx.lean.drive([ln for c, _ in jobs for ln in ("abortprofile" + line_of(c, 1)[4:], line_of(c, 1))])
    stage2 = []
    for idx, (c, iface) in enumerate(jobs):
        prof, full = o1[2 * idx], o1[2 * idx + 1]
        if prof in ("_", "bad-op", "err-nonfinite-start") or full in ("bad-op", "err-nonfinite-start"):
            continue
        ff = [t.strip() for t in full.split("|")]
        ents = [(int(a), int(b_)) for a, b_ in (e.split(":") for e in prof.split(","))]
        total = sum(a for a, _ in ents)
        # doublings that follow an accepted one: leaves with index > cumulative count at the first acceptance
        cum = 0; after = None
        for a, acc in ents[:-1]:
            cum += a
            if acc:
                after = cum; break
        if after is not None and after < total and rng.random() < 0.75:
            k = rng.randint(after + 1, total)
        else:
            k = rng.randint(1, total)
        site = rng.choice(["logd", "grad"])
        stage2.append((c, iface, k, site, ents, ff))
    stage3 = []
    lines2 = []
    for (c, iface, k, site, ents, ff) in stage2:
        r2 = [rng.randint(-12, 12) / 8 for _ in range(c["d"])]; e2 = rng.randint(1, 40) / 16
        us2 = [rng.randint(1, 1023) / 1024 for _ in range(len(c["us"]))]
        lines2.append("abortresume" + line_of(c, 1)[4:] + " %d %s %s %s" % (k, qv(r2), q(e2), qv(us2)))
        stage3.append((c, iface, k, site, ents, ff, r2, e2, us2))
    o2 = ctx.lean.drive(lines2)
    todo = []
    for (c, iface, k, site, ents, ff, r2, e2, us2), mo in zip(stage3, o2):
        if mo in ("done", "bad-op", "err-nonfinite-start") or "::" not in mo:
            continue
        ab, mo3 = [t.strip() for t in mo.split("::")]
        f = [t.strip() for t in ab.split("|")]
        todo.append((c, iface, k, site, ents, ff, f, r2, e2, us2, None, mo3))
    hist = {"exp": 0, "legacy": 0, "fault_after_acceptance": 0, "fault_in_first_doubling": 0, "site": {"logd": 0, "grad": 0},
            "interrupted_doubling": {}, "skipped_margin": 0, "resumed_compared": 0}
    for (c, iface, k, site, ents, ff, f, r2, e2, us2, _, mo3) in todo:
        desc = {kk: c[kk] for kk in ("d", "P", "b", "eps", "md", "x", "r", "e", "wall", "wall_kind")}
        desc.update({"iface": iface, "target_raises_at_evaluation": k, "raising_function": site, "us_head": c["us"][:8],
                     "resume": {"r": r2, "e": e2, "us_head": us2[:8]}})
        key = f"NUTS:{iface}:interrupt"
        if float(Fraction(ff[7])) < 1e-7:
            hist["skipped_margin"] += 1; continue
        fuse = {"armed": False, "site": site, "count": 0, "k": k, "fired": False}
        target, logpdf, grad = make_fused_target(cuqi, c, fuse)
        x0 = np.array(c["x"], float)
        m_x = [float(v) for v in pv(f[0])]; m_g = [float(v) for v in pv(f[2])]
        m_l = float(Fraction(f[1])) if f[1] not in WALLVAL else WALLVAL[f[1]]
        dbl = int(f[4])
        sc = Script([c["r"]], [c["e"]], c["us"])
        try:
            with quiet(), np.errstate(all="ignore"):
                if iface == "exp":
                    from cuqi.experimental.mcmc import NUTS
                    s = NUTS(target, initial_point=x0.copy(), max_depth=c["md"], step_size=c["eps"])
                    s._ensure_initialized()
                else:
                    from cuqi.sampler import NUTS
                    s = NUTS(target, x0=x0.copy(), max_depth=c["md"], adapt_step_size=c["eps"])
                fuse["armed"] = True
                with scripted(sc):
                    try:
                        s.sample(1) if iface == "exp" else s.sample(2, 0)
                    except _Interrupt:
                        pass
                    except NameError:
                        fuse["armed"] = False
                        continue          # 'NaN potential func' — judged by the transition stream
                fuse["armed"] = False
        except Exception as ex:
            fuse["armed"] = False
            ctx.disagree(key + ":crash", desc, mo3[:60], repr(ex)[:200], "implementation raised something else than the injected fault"); continue
        ctx.case(f"interrupt-{iface}", desc)
        hist[iface] += 1; hist["site"][site] += 1
        hist["interrupted_doubling"][str(dbl)] = hist["interrupted_doubling"].get(str(dbl), 0) + 1
        hist["fault_after_acceptance"] += f[3] == "1"; hist["fault_in_first_doubling"] += dbl == 0
        if not fuse["fired"]:
            ctx.disagree(key, desc, {"target evaluations in the transition": ">= %d" % k}, {"target evaluations": fuse["count"]},
                         "the transition evaluated fewer leaves than the model")
            continue
        bad = False
        if iface == "exp":
            xs = np.asarray(s.current_point, float).ravel(); ls = float(s.current_target_logd); gs = np.asarray(s.current_target_grad, float).ravel()
            # ---- oracle: caches belong to the current point (property text: "always") ------------------------------------------------
            with np.errstate(all="ignore"):
                l_true = float(logpdf(xs)); g_true = np.asarray(grad(xs), float).ravel()
            if not close(ls, l_true, 1e-9) or not vclose(gs, g_true, 1e-9):
                ctx.fail(key + ":cache", desc, {"point": xs.tolist(), "logd": l_true, "grad": g_true.tolist()}, {"logd": ls, "grad": gs.tolist()},
                         "after an interrupted transition the cached log-density/gradient do not belong to the current point")
                bad = True
            # ---- tie: the state left behind ----------------------------------------------------------------------------------------
            if not (vclose(xs, m_x, 1e-7) and close(ls, m_l, 1e-7) and vclose(gs, m_g, 1e-7)):
                ctx.disagree(key + ":cache" if bad else key, desc, {"point": m_x, "logd": m_l, "grad": m_g}, {"point": xs.tolist(), "logd": ls, "grad": gs.tolist()},
                             "sampler state after the interrupted transition differs from the model (state at the head of the interrupted doubling)")
                if not bad:
                    # which completed doubling's acceptance got lost / which partial result leaked: the state must be the start or a
                    # candidate accepted by a COMPLETED doubling, i.e. identical to a run whose target fails one evaluation later/earlier
                    # inside the same doubling — demanded by nothing in the property text, so only the tie is reported
                    pass
                continue
        else:
            if not np.array_equal(np.asarray(s.x0, float).ravel(), x0):
                ctx.fail(key + ":modifies-start", desc, x0.tolist(), np.asarray(s.x0, float).ravel().tolist(), "an interrupted legacy run modified the start point"); bad = True
        # ---- the resumed sampler: next transition vs the model's transition from the abort state ---------------------------------------
        if mo3 in ("bad-op", "err-nonfinite-start"):
            continue
        f3 = [t.strip() for t in mo3.split("|")]
        if float(Fraction(f3[7])) < 1e-7:
            continue
        if iface == "exp":
            sc2 = Script([r2], [e2], us2); want = [float(v) for v in pv(f3[1])]; cons = int(f3[3])
        else:
            sc2 = Script([c["r"]], [c["e"]], c["us"]); want = [float(v) for v in pv(ff[1])]; cons = int(ff[3])
        try:
            with quiet(), np.errstate(all="ignore"), scripted(sc2):
                if iface == "exp":
                    mid = xs.copy()
                    s.sample(1); xe = np.asarray(s.current_point, float).ravel()
                else:
                    xe = np.asarray(s.sample(2, 0).samples[:, 1], float).ravel()
        except NameError:
            continue
        except Exception as ex:
            ctx.disagree(key + ":crash", desc, mo3[:60], repr(ex)[:200], "resumed sampler raised"); continue
        hist["resumed_compared"] += 1
        if not vclose(xe, want, 1e-7) or sc2.n_rand != cons:
            ctx.disagree(key, desc, {"state after the resumed transition": want, "draws": cons}, {"state after the resumed transition": xe.tolist(), "draws": sc2.n_rand},
                         "the transition of the resumed sampler differs from the model's transition from the state left behind")
            if not bad:
                fuse2 = {"armed": False}
                t2, _, _ = make_fused_target(cuqi, c, fuse2)
                sc3 = Script([r2], [e2], us2) if iface == "exp" else Script([c["r"]], [c["e"]], c["us"])
                try:
                    with quiet(), np.errstate(all="ignore"), scripted(sc3):
                        if iface == "exp":
                            from cuqi.experimental.mcmc import NUTS
                            fr = NUTS(t2, initial_point=mid.copy(), max_depth=c["md"], step_size=c["eps"]); fr._ensure_initialized()
                            fr.sample(1); xf = np.asarray(fr.current_point, float).ravel()
                        else:
                            from cuqi.sampler import NUTS
                            fr = NUTS(t2, x0=x0.copy(), max_depth=c["md"], adapt_step_size=c["eps"])
                            xf = np.asarray(fr.sample(2, 0).samples[:, 1], float).ravel()
                    if not vclose(xf, xe, 1e-9):
                        ctx.fail(key, desc, {"fresh sampler from the same state and draws": xf.tolist()}, xe.tolist(),
                                 "after an interrupted transition the next transition depends on more than the current point and the draws (stale cache / leftover state)")
                except Exception:
                    pass
    ctx.extra_cov["c08_interrupt"] = hist
