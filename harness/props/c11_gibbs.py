"""C11 helper — the conditioning call stream the REAL Gibbs samplers issue, tied to the model's `streamOps`
(`lean/CuqiVerif/Model/C11_gibbs.lean`, driver op `S:<obj>:<L|H>:<Nb>:<Ns>`).

`JointDistribution._condition` is wrapped (class level, restored afterwards) while `cuqi.sampler.Gibbs` and
`cuqi.experimental.mcmc.HybridGibbs` are constructed and run on small hierarchical posteriors.  Compared with the model:
  * the constructor conditions the object it was GIVEN exactly once, with no arguments, and stores the result — a new object;
  * every further conditioning call has the STORED target as receiver; number of calls; per call the block being updated
    (the one parameter not passed), the ordered keyword names, and for every value passed its index in the stored chain
    (0 = initial point, j = draw of sweep j): the Gauss-Seidel pattern `versionLegacy` / `versionHybrid`;
  * parameter names of the stored target, its class.
Oracle (implementation only): the stored target (snapshot taken right after construction) and every original (joint,
posterior, the distributions, the model) are structurally identical — arrays byte for byte — after warm-up + sampling.
"""
import numpy as np
from harness.core import quiet


def _worlds(rs):
    from cuqi.distribution import Gaussian, Gamma, GMRF, JointDistribution
    from cuqi.model import LinearModel
    n, m = 5, 7
    Amat = rs.randint(-2, 3, size=(m, n)).astype(float)
    yobs = rs.randint(-3, 4, size=m).astype(float)

    def w3(order, init=None):
        A = LinearModel(Amat)
        d = Gamma(1, 1e-2, name="d"); s = Gamma(1, 1e-2, name="s")
        x = GMRF(np.zeros(n), lambda d: d, name="x")
        y = Gaussian(A, lambda s: 1 / s, name="y")
        byname = {"d": d, "s": s, "x": x, "y": y}
        for k, v in (init or {}).items():
            byname[k].init_point = v          # user-chosen starting point stored on the ORIGINAL density (read by legacy Gibbs)
        J = JointDistribution(*[byname[k] for k in order])
        return J, J(y=yobs), byname, {"x": "LinearRTO", "d": "Conjugate", "s": "Conjugate"}

    def w2(order, init=None):
        A = LinearModel(Amat)
        d = Gamma(1, 1e-2, name="d")
        x = Gaussian(np.zeros(n), prec=lambda d: d, name="x")
        y = Gaussian(A, 0.5, name="y")
        byname = {"d": d, "x": x, "y": y}
        for k, v in (init or {}).items():
            byname[k].init_point = v
        J = JointDistribution(*[byname[k] for k in order])
        return J, J(y=yobs), byname, {"x": "LinearRTO", "d": "Conjugate"}
    yield "hier3:d,s,x,y", ["d", "s", "x", "y"], w3
    yield "hier3:x,y,s,d", ["x", "y", "s", "d"], w3
    yield "hier2:d,x,y", ["d", "x", "y"], w2
    yield "hier2:y,x,d", ["y", "x", "d"], w2


def _heap_text(order, name_id):
    """the originals in the `prog` encoding of Driver/C11.lean: per distribution a geometry and the distribution, then the joint"""
    slots = {"d": ("n1", "n2"), "s": ("n1", "n2"), "x": ("n0", f"f1/{name_id('d')}"),
             "y": (f"f2/{name_id('x')}", (f"f3/{name_id('s')}" if "s" in order else "n3"))}
    objs, addr = [], {}
    for k in order:
        g = len(objs); objs.append("g:")
        addr[k] = len(objs)
        objs.append(f"d:fam=n0,name=n{name_id(k)},geom=r{g},s0={slots[k][0]},s1={slots[k][1]}")
    addr["J"] = len(objs)
    objs.append("J:dens=R" + ".".join(str(addr[k]) for k in order))
    return ";".join(objs), addr


def gibbs_streams(ctx, cuqi, thorough):
    import cuqi.sampler as LS
    import cuqi.experimental.mcmc as XS
    from cuqi.distribution import JointDistribution
    from harness.props import c11
    name_id = c11.name_id
    rs = np.random.RandomState(ctx.seed + 41)
    phases = [(2, 3), (0, 4)] if not thorough else [(2, 3), (0, 4), (5, 20), (1, 1)]
    runs, lines = [], []
    run_no = 0
    for wname, order, mk in _worlds(rs):
        for kind in ("L", "H"):
            for (Nb, Ns) in phases:
                run_no += 1
                # every second run: user-supplied starting points (arrays owned by the caller) — on the original densities
                # (`init_point`, read by legacy Gibbs) resp. on the sampler objects (`initial_point`, HybridGibbs); every
                # third run an MH block for the hyper-parameter d
                userinit = (run_no % 2 == 0)
                mh = (run_no % 3 == 0)
                user = {"x": np.full(5, 0.25), "d": np.array([7.0])} if userinit else {}
                user0 = {k: v.copy() for k, v in user.items()}

                def build():
                    with quiet():
                        J, post, byname, strat = mk(order, init=(user if kind == "L" else None))
                    strat = dict(strat)
                    if mh:
                        strat["d"] = "MH"
                    return J, post, byname, strat

                def make_sampler(post, strat):
                    if kind == "L":
                        return LS.Gibbs(post, {k: (getattr(LS, v) if v != "MH" else (lambda t_: LS.MH(t_, scale=0.2))) for k, v in strat.items()})
                    mkx = {"LinearRTO": lambda k: XS.LinearRTO(maxit=8, **({"initial_point": user[k]} if k in user else {})),
                           "Conjugate": lambda k: XS.Conjugate(**({"initial_point": user[k]} if k in user else {})),
                           "MH": lambda k: XS.MH(scale=0.2, initial_point=(user[k] if k in user else np.array([1.0])))}
                    return XS.HybridGibbs(post, {k: mkx[v](k) for k, v in strat.items()})
                J, post, byname, strat = build()
                originals = [("joint", J), ("posterior", post)] + list(byname.items())
                s0 = {lab: c11.snapshot(o) for lab, o in originals}
                calls = []
                orig_cond = JointDistribution._condition

                def rec(self_, *a, **kw):
                    calls.append((self_, len(a), list(kw.keys()), {k: np.array(v, dtype=float).reshape(-1).copy() for k, v in kw.items()}))
                    return orig_cond(self_, *a, **kw)

                def chain_of(smp_):
                    out = {}
                    for q in smp_.par_names:
                        if kind == "L":
                            out[q] = np.hstack([smp_.samples_warmup[q], smp_.samples[q]]).copy()
                        else:
                            out[q] = np.array([np.asarray(v, dtype=float).reshape(-1) for v in smp_.samples[q]]).T.copy()
                    return out
                st = np.random.get_state()
                np.random.seed(ctx.seed + 3)
                JointDistribution._condition = rec
                err = None
                try:
                    with quiet():
                        smp = make_sampler(post, strat)
                        target = smp.target
                        n_ctor = len(calls)
                        JointDistribution._condition = orig_cond
                        snap_t = c11.snapshot(target)
                        JointDistribution._condition = rec
                        if kind == "L":
                            smp.sample(Ns, Nb)
                        else:
                            if Nb:
                                smp.warmup(Nb)
                            smp.sample(Ns)
                except Exception as e:  # noqa
                    err = e
                finally:
                    JointDistribution._condition = orig_cond
                    np.random.set_state(st)
                desc = {"world": wname, "sampler": "cuqi.sampler.Gibbs" if kind == "L" else "cuqi.experimental.mcmc.HybridGibbs", "Nb": Nb, "Ns": Ns,
                        "strategy": strat, "user_starting_points": {k: v.tolist() for k, v in user0.items()},
                        "where": ("density.init_point" if kind == "L" else "sampler.initial_point") if user0 else None}
                ctx.case("gibbs-stream:" + ("legacy" if kind == "L" else "hybrid"), desc)
                if err is not None:
                    ctx.note(f"gibbs stream {wname} {kind}: sampler refused: {type(err).__name__}: {str(err)[:80]}")
                    continue
                # ---- oracle: stored target and originals untouched
                key = f"sampler-stream:{'legacy-Gibbs' if kind == 'L' else 'HybridGibbs'}:{wname.split(':')[0]}"
                dt = c11.snap_equal(snap_t, c11.snapshot(target))
                if dt:
                    ctx.fail(key + ":stored-target", desc, "the target stored by the sampler is what it was right after construction", dt[:3],
                             "warm-up / sampling altered the joint the sampler re-conditions in every block update")
                for lab, o in originals:
                    d = c11.snap_equal(s0[lab], c11.snapshot(o))
                    if d:
                        ctx.fail(key + ":original", {**desc, "original": lab}, "original unchanged", d[:3], f"running the sampler altered the original '{lab}'")
                        break
                # caller-owned starting-point arrays are not written to
                for k_, v_ in user.items():
                    if not np.array_equal(v_, user0[k_]):
                        ctx.fail(key + ":user-initial-point", {**desc, "array": k_}, user0[k_].tolist(), v_.tolist(),
                                 f"the sampler run overwrote the starting-point array the user supplied for '{k_}'")
                        break
                # a second run from the SAME originals (same seed, a new sampler object) gives the same chain
                if userinit or mh:
                    try:
                        ch1 = chain_of(smp)
                        st = np.random.get_state()
                        np.random.seed(ctx.seed + 3)
                        try:
                            with quiet():
                                smp2 = make_sampler(post, strat)
                                if kind == "L":
                                    smp2.sample(Ns, Nb)
                                else:
                                    if Nb:
                                        smp2.warmup(Nb)
                                    smp2.sample(Ns)
                        finally:
                            np.random.set_state(st)
                        ch2 = chain_of(smp2)
                        badq = [q for q in ch1 if ch1[q].shape != ch2[q].shape or not np.array_equal(ch1[q], ch2[q])]
                        if badq:
                            ctx.fail(key + ":second-run", {**desc, "parameters": badq}, "same chain as the first run (same originals, same seed)",
                                     {q: [ch1[q][:, 0].tolist()[:3], ch2[q][:, 0].tolist()[:3]] for q in badq[:2]},
                                     "a second sampler run started from the same original objects differs from the first: the first run left a trace in them")
                    except Exception as e:  # noqa
                        ctx.note(f"gibbs stream {wname} {kind}: second run refused: {type(e).__name__}: {str(e)[:80]}")
                # ---- implementation record
                pars = list(target.get_parameter_names())
                ctor = [(c[0] is post, c[1], c[2]) for c in calls[:n_ctor] if c[0] is post]
                stream = [c for c in calls if c[0] is target]
                foreign = [c for c in calls if c[0] is not target and c[0] is not post]
                chain = {}
                for q in pars:
                    if kind == "L":
                        cols = [smp.samples_warmup[q][:, i] for i in range(Nb)] + [smp.samples[q][:, i] for i in range(Ns)]
                    else:
                        cols = [np.asarray(v, dtype=float).reshape(-1) for v in smp.samples[q]]
                    chain[q] = cols
                first = {}
                txt = []
                for c in stream:
                    block = [p for p in pars if p not in c[2]]
                    items = []
                    for q in c[2]:
                        v = c[3][q]
                        if q not in first:
                            first[q] = v
                        vers = ([0] if (v.shape == first[q].shape and np.array_equal(v, first[q])) else []) + \
                               [j + 1 for j, col in enumerate(chain[q]) if np.asarray(col).reshape(-1).shape == v.shape and np.array_equal(np.asarray(col, dtype=float).reshape(-1), v)]
                        items.append((q, vers))
                    txt.append((block, items))
                runs.append({"desc": desc, "kind": kind, "pars": pars, "ctor": ctor, "n_ctor": n_ctor, "stream": txt, "foreign": len(foreign),
                             "fresh": target is not post, "cls": c11.letter(cuqi, target), "key": key, "positional": sum(c[1] for c in stream)})
                heap, addr = _heap_text(order, name_id)
                lines.append(f"prog {heap} c:@{addr['J']}:{name_id('y')}=1;S:$0:{kind}:{Nb}:{Ns}")
    outs = ctx.lean.drive(lines)
    hist = {"runs": 0, "calls": 0, "blocks": {}, "ambiguous_versions": 0}
    for r, out in zip(runs, outs):
        desc, key = r["desc"], r["key"]
        hist["runs"] += 1
        diffs = []
        try:
            f = out.split("|")[0].split(";")[1].split(":")
        except Exception:  # noqa
            f = []
        if len(f) < 8 or f[0] != "S":
            ctx.disagree("tie:gibbs-stream:driver", desc, out[:200], "sampler ran", "model could not run the sampler op"); continue
        mpars = [] if f[1] == "-" else [int(x) for x in f[1].split(".")]
        if mpars != [name_id(p) for p in r["pars"]]:
            diffs.append(f"parameter names of the stored target {mpars} vs {r['pars']}")
        if r["ctor"] != [(True, 0, [])] or r["n_ctor"] != (1 if r["kind"] == "L" else 1 + len(r["pars"])):
            diffs.append(f"constructor: conditioning calls {r['n_ctor']}, on the given object {r['ctor']} (model: exactly one `target()`"
                         + ("" if r["kind"] == "L" else " + one `_set_targets` sweep") + ")")
        if f[3] != "1" or not r["fresh"]:
            diffs.append(f"stored target fresh: model {f[3]} vs impl {r['fresh']}")
        if f[4] != r["cls"]:
            diffs.append(f"class of the stored target {f[4]} vs {r['cls']}")
        if int(f[2]) != len(r["stream"]):
            diffs.append(f"number of re-conditionings of the stored target {f[2]} vs {len(r['stream'])}")
        if r["foreign"] or r["positional"]:
            diffs.append(f"{r['foreign']} conditioning calls on joints other than the stored target, {r['positional']} positional arguments")
        if f[5] != "-" or f[6] != "11":
            diffs.append(f"model: escaping writes {f[5]}, fingerprints {f[6]}")
        mcalls = f[7].split(",") if f[7] else []
        for k, (mc, (block, items)) in enumerate(zip(mcalls, r["stream"])):
            hist["calls"] += 1
            mb, mkw = mc.split(">")
            mkw = [] if mkw == "" else [(int(a.split("=")[0]), int(a.split("=")[1])) for a in mkw.split(".")]
            hist["blocks"][",".join(block)] = hist["blocks"].get(",".join(block), 0) + 1
            if [name_id(b) for b in block] != [int(mb)]:
                diffs.append(f"call #{k}: block updated {mb} vs {block}"); break
            if [q for q, _ in mkw] != [name_id(q) for q, _ in items]:
                diffs.append(f"call #{k}: keyword names {mkw} vs {[q for q, _ in items]}"); break
            for (mq, mv), (q, vers) in zip(mkw, items):
                hist["ambiguous_versions"] += int(len(vers) > 1)
                if mv not in vers:
                    diffs.append(f"call #{k} (block {block}): value passed for '{q}' is chain entry {vers or 'NOT IN THE CHAIN'}, model (Gauss-Seidel): {mv}")
                    break
            if diffs:
                break
        if diffs:
            ctx.disagree(f"tie:gibbs-stream:{'legacy' if r['kind'] == 'L' else 'hybrid'}", desc, f[:7], {"pars": r["pars"], "n": len(r["stream"])}, "; ".join(diffs[:3]))
    ctx.extra_cov["gibbs_streams"] = hist
