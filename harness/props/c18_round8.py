"""C18, round 8 — two input classes.

A. What a user `linalg_solve` may hand back (`LinearPDE._solve_linear_system`): the bare solution as an ndarray, a python
   LIST, a `(1,n)` np.matrix; a tuple `(x, info…)` whose `x` is an ndarray or a list — for the steady class and for backward
   Euler.  Oracle (implementation only): the returned solution / every stored level satisfies the discrete equations, `info`
   is `None` for a bare solution and the tuple tail otherwise.  Tie: driver ops `steady` / `time` (kinds plain / t1 / t2 / t3).

B. PDE forms that hand back STORED, re-used operator / right-hand-side arrays (C order, Fortran order as a transposed view or
   `np.asfortranarray`, np.matrix, read-only) with the default solver in every spelling, under repeated solves
   (`assemble(p1); solve(); assemble(p2); solve(); solve()`, then `PDEModel.forward` twice): residual oracle against a pristine
   copy of the operator on EVERY solve, `pde.diff_op` still the assembled operator, the caller's stored arrays byte-identical.
"""
import numpy as np
import scipy.linalg
from harness.core import quiet, q, qv, qm, pv, pm


def _steady_out(tok):
    """driver `ok <u> <info>` -> (u, info token) | None"""
    if not tok.startswith("ok "):
        return None
    _, u, info = tok.split(" ")
    return np.array([float(x) for x in pv(u)], dtype=float), info


def check_round8(ctx, cuqi, rng):
    from harness.props import c18 as base
    from cuqi.pde import SteadyStateLinearPDE, TimeDependentLinearPDE
    from cuqi.model import PDEModel
    from cuqi.geometry import Continuous1D
    cov = {"solver_return": {}, "stored_operator": {}, "solves_checked": 0}
    ctx.extra_cov["c18_round8"] = cov

    def bump(h, k):
        cov[h][k] = cov[h].get(k, 0) + 1

    def np_solve(A, b):
        A = np.asarray(A, dtype=float)
        return np.linalg.solve(A, np.asarray(b, dtype=float).reshape(-1))

    RET = {
        "ndarray": (lambda A, b: np_solve(A, b), "plain"),
        "list": (lambda A, b: np_solve(A, b).tolist(), "plain"),
        "matrix-row": (lambda A, b: np.asmatrix(np_solve(A, b)), "plain"),
        "tuple1-ndarray": (lambda A, b: (np_solve(A, b),), "t1"),
        "tuple1-list": (lambda A, b: (np_solve(A, b).tolist(),), "t1"),
        "tuple2-ndarray": (lambda A, b: (np_solve(A, b), float(np.asarray(b).reshape(-1)[0])), "t2"),
        "tuple2-list": (lambda A, b: (np_solve(A, b).tolist(), float(np.asarray(b).reshape(-1)[0])), "t2"),
        "tuple3-list": (lambda A, b: (np_solve(A, b).tolist(), float(np.asarray(b).reshape(-1)[0]), float(np.asarray(A)[0, 0])), "t3"),
    }
    # ------------------------------------------------------------------------------------------------ A
    cases, lines = [], []
    for kind, (solver, dk) in RET.items():
        for n in (1, 2, 3, 5):
            for cls in ("steady", "backward"):
                if cls == "steady":
                    npar = n + 1
                    F = {"n": n, "D": base.fd(n, rng.choice([1.0, 0.5])), "E": np.eye(n + 1), "b0": base.dyv(rng, n) + 3.0}     # first entry of the solution != others
                    p = np.array([base.dy(rng, 0.5, 3, 4) for _ in range(npar)])
                    lines.append(f"steady {n} {dk} {base.fam_tokens(F)} {npar} a:{qv(p)}|s")
                    cases.append(dict(cls=cls, kind=kind, n=n, F=F, p=p, solver=solver))
                else:
                    F, npar = base.gen_time_family(rng, n, rng.choice(["heat-ic", "heat-source", "op-t"]))
                    F["A0"] = base.laplace(n)
                    p = base.dyv(rng, npar) + np.arange(npar)
                    ts = np.cumsum([0.0] + [rng.choice([0.25, 0.5, 0.125]) for _ in range(rng.choice([1, 2, 3]))])
                    lines.append(f"time {n} backward_euler {dk} {qv(ts)} {base.fam_tokens(F)} {qv(p)}")
                    cases.append(dict(cls=cls, kind=kind, n=n, F=F, p=p, ts=ts, solver=solver))
    outs = yield lines
    for cs, out, line in zip(cases, outs, lines):
        if out == "bad-op":
            raise RuntimeError("C18 round-8 driver line not understood: " + line[:200])
        n, F, p, kind = cs["n"], cs["F"], cs["p"], cs["kind"]
        desc = {"class": cs["cls"], "solver_returns": kind, "n": n, "p": p.tolist(), "time_steps": cs.get("ts", np.zeros(0)).tolist()}
        ctx.case("solver-return-type", desc)
        bump("solver_return", f"{cs['cls']}:{kind}")
        key = f"LinearPDE._solve_linear_system:returns-{kind}:{cs['cls']}"
        want_info_none = not kind.startswith("tuple")
        impl_err, sol, info = None, None, None
        try:
            with quiet():
                if cs["cls"] == "steady":
                    P = SteadyStateLinearPDE(lambda par, F=F: base.fam_eval(F, par, 0.0)[:2], linalg_solve=cs["solver"])
                else:
                    P = TimeDependentLinearPDE(lambda par, t, F=F: base.fam_eval(F, par, t), cs["ts"].copy(), method="backward_euler", linalg_solve=cs["solver"])
                P.assemble(p.copy())
                sol, info = P.solve()
        except Exception as e:  # noqa
            impl_err = base.errname(e)
        # ---- oracle
        if impl_err is not None:
            ctx.fail(key, desc, "a solution", impl_err, "solve raises with a solver that returns its solution in a documented container")
        else:
            cov["solves_checked"] += 1
            if cs["cls"] == "steady":
                A, b, _ = base.fam_eval(F, p, 0.0)
                try:
                    u = np.asarray(sol, dtype=float).reshape(-1)
                except Exception:
                    u = np.zeros(0)
                res = np.inf if u.shape != (n,) else np.abs(A @ u - b).max() / (1.0 + np.abs(b).max() + np.abs(A).sum(axis=1).max() * np.abs(u).max())
            else:
                u = np.asarray(sol, dtype=float)
                res, _ = base.time_residual(F, p, cs["ts"], "backward_euler", u)
            if not res <= base.TOL:
                ctx.fail(key, desc, "the returned solution satisfies the discrete equations (it is what the solver returned as solution)",
                         f"shape {np.shape(sol)}, scaled residual {res:.3e}", "the solver's return value is mis-parsed")
            if want_info_none and info is not None:
                ctx.fail(key, desc, "info = None for a solver returning only the solution", repr(info)[:80], "a bare solution is split into solution and info")
            if not want_info_none and not isinstance(info, tuple):
                ctx.fail(key, desc, "info = tuple of the extra return values", repr(info)[:80], "extra return values lost")
        # ---- tie
        if out.startswith("err:") != (impl_err is not None):
            ctx.disagree(key, desc, out[:100], impl_err or "returns", "model and implementation differ in refusing")
            continue
        if impl_err is not None:
            continue
        if cs["cls"] == "steady":
            mu, minfo = _steady_out(out)
            same = np.shape(np.asarray(sol, dtype=float).reshape(-1)) == mu.shape and base.arr_same(mu, np.asarray(sol, dtype=float).reshape(-1))
        else:
            _, mlev, minfo, _ = out.split(" ")
            mu = np.array([[float(x) for x in r] for r in pm(mlev)], dtype=float).T
            same = base.arr_same(mu, np.asarray(sol, dtype=float))
        if not same:
            ctx.disagree(key, desc, base.short(mu), base.short(np.asarray(sol, dtype=float)), "solution differs from the model")
        if not base.info_matches(minfo, info):
            ctx.disagree(key, desc, minfo, repr(info)[:80], "info differs from the model")

    # ------------------------------------------------------------------------------------------------ B
    ORDERS = ["C", "F-view", "F-copy", "matrix", "readonly-F", "F-param-scaled"]
    SPELL = ["default", "default", "default-empty-kwargs", "default-gen", "scipy-explicit", "plain"]
    cases, lines = [], []
    for oi, order in enumerate(ORDERS):
        for n in (2, 4, 7):
            for si in range(2):
                spell = SPELL[(oi + si * 3 + n) % len(SPELL)] if si else "default"
                npar = rng.randint(1, 3)
                K = base.dym(rng, n, n, -2, 2, 2) + 5.0 * np.eye(n)            # non-symmetric, well conditioned
                if np.linalg.cond(K) > 1e3:
                    K = 8.0 * np.eye(n) + np.triu(K, 1)
                B = base.dym(rng, n, npar); b0 = base.dyv(rng, n)
                ps = [base.dyv(rng, npar) + 1.0, base.dyv(rng, npar) - 1.0]
                F = {"n": n, "A0": K.copy(), "b0": b0.copy(), "B": B.copy()}
                ops = f"a:{qv(ps[0])}|s|a:{qv(ps[1])}|s|s|a:{qv(ps[0])}|s|a:{qv(ps[1])}|s"
                lines.append(f"steady {n} plain {base.fam_tokens(F)} {npar} {ops}")
                cases.append(dict(order=order, n=n, spell=spell, K=K, B=B, b0=b0, ps=ps, F=F, npar=npar))
    outs = yield lines
    for cs, out, line in zip(cases, outs, lines):
        if out == "bad-op":
            raise RuntimeError("C18 round-8 driver line not understood: " + line[:200])
        n, K, order = cs["n"], cs["K"], cs["order"]
        desc = {"operator_storage": order, "solver": cs["spell"], "n": n, "K": K.tolist(), "parameters": [p.tolist() for p in cs["ps"]]}
        ctx.case("stored-operator", desc)
        bump("stored_operator", f"{order}:{cs['spell']}")
        key = f"SteadyStateLinearPDE.solve:stored-operator:{order}:{cs['spell']}"
        if order == "C":
            A_st = np.ascontiguousarray(K.copy())
        elif order in ("F-view", "F-param-scaled"):
            A_st = np.ascontiguousarray(K.T.copy()).T          # equals K, a Fortran-ordered transposed view
        elif order in ("F-copy", "readonly-F"):
            A_st = np.asfortranarray(K.copy())
        else:
            A_st = np.asmatrix(K.copy())
        if order == "readonly-F":
            A_st.setflags(write=False)
        rhs_buf = np.zeros(n)
        pristine = np.array(A_st, dtype=float, copy=True)

        def form(par, cs=cs, A_st=A_st, rhs_buf=rhs_buf):
            rhs_buf[:] = cs["b0"] + cs["B"] @ np.asarray(par, dtype=float)      # stored, re-used right-hand side
            return A_st, rhs_buf
        solver, kwargs, _ = base.make_solver(cs["spell"])
        mouts = out.split("|")
        try:
            with quiet():
                pde = SteadyStateLinearPDE(form, linalg_solve=solver, linalg_solve_kwargs=kwargs)
                model = PDEModel(pde, Continuous1D(n), Continuous1D(cs["npar"]))
        except Exception as e:  # noqa
            ctx.fail(key, desc, "a PDE object", repr(e)[:100], "constructor raises")
            continue
        seq = [("a", cs["ps"][0]), ("s", None), ("a", cs["ps"][1]), ("s", None), ("s", None), ("f", cs["ps"][0]), ("f", cs["ps"][1])]
        cur, mi = None, 0
        for step, (opk, v) in enumerate(seq):
            d2 = dict(desc, failing_step=step, op=opk)
            sol, err = None, None
            try:
                with quiet():
                    if opk == "a":
                        pde.assemble(v.copy()); cur = v
                        continue
                    if opk == "s":
                        sol, _ = pde.solve()
                    else:
                        cur = v
                        sol = model.forward(v.copy())
            except Exception as e:  # noqa
                err = base.errname(e)
            mo = mouts[mi]; mi += 1
            bexp = cs["b0"] + cs["B"] @ cur
            if err is not None:
                if order == "readonly-F" or not mo.startswith("err:"):
                    ctx.fail(key, d2, "a solution", err, "solve raises on a stored operator")
                    if not mo.startswith("err:"):
                        ctx.disagree(key, d2, mo[:80], err, "implementation refuses, model returns")
                break
            cov["solves_checked"] += 1
            u = np.asarray(sol, dtype=float).reshape(-1)
            res = np.inf if u.shape != (n,) else np.abs(pristine @ u - bexp).max() / (1.0 + np.abs(bexp).max() + np.abs(pristine).sum(axis=1).max() * np.abs(u).max())
            bad = False
            if not res <= base.TOL:
                bad = True
                ctx.fail(key, d2, "A u = b(p) for the operator the form supplies and the parameter assembled last", f"scaled residual {res:.3e}",
                         "solution on a stored operator violates the assembled system (repeated solve)")
            if not np.array_equal(np.asarray(A_st, dtype=float), pristine):
                bad = True
                ctx.fail(key, d2, "the operator array owned by the PDE form unchanged by solve()", "modified in place",
                         "solve() overwrites the operator returned by PDE_form")
            if not np.array_equal(np.asarray(pde.diff_op, dtype=float), pristine):
                bad = True
                ctx.fail(key, d2, "pde.diff_op is the assembled operator after solve()", "differs", "assembled operator modified by solve()")
            mu = _steady_out(mo)
            if mu is None or not base.arr_same(mu[0], u):
                ctx.disagree(key, d2, mo[:80], base.short(u), "solution differs from the model")
            if bad:
                break
