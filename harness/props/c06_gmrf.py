"""C06, second pass — tie of the GMRF prior's operators to `gmrfD` / `gmrfPrec` of lean/CuqiVerif/Model/C06_gmrf.lean (which are
C20's exact finite-difference operators): `GMRF._diff_op`, `prec * GMRF._prec_op` compared EXACTLY (integers / dyadics) with the
model; leaf relation of the factor the sampler receives, `sqrtprecᵀ sqrtprec = prec·DᵀD` (zero BC 1e-10; periodic / neumann: the code
adds sqrt(eps)·I before factorising, 1e-6); oracle (implementation only): −2(logpdf(x) − logpdf(mean)) = (x−μ)ᵀ(prec·DᵀD)(x−μ)
with D the documented stencil evaluated by the harness."""
import numpy as np
from harness.core import quiet, q, pm
from harness.props import c06 as base


def stencil(order, bc, n):
    """the documented difference operators, written out independently of cuqi and of the Lean model"""
    if order == 1:
        if bc == "zero":
            D = np.zeros((n + 1, n))
            for i in range(n):
                D[i, i] = 1.0; D[i + 1, i] = -1.0
        elif bc == "periodic":
            D = np.zeros((n + 1, n))
            for i in range(n):
                D[i, i] = 1.0; D[i + 1, i] = -1.0
            D[n, 0] = 1.0; D[0, n - 1] = -1.0
        else:
            D = np.zeros((n - 1, n))
            for i in range(n - 1):
                D[i, i] = -1.0; D[i, i + 1] = 1.0
        return D
    return None


def run_gmrf(ctx, cuqi, r, thorough):
    from cuqi.distribution import GMRF
    combos = [(o, bc) for o in (1, 2) for bc in ("zero", "periodic", "neumann")]
    recs, lines = [], []
    for rep in range(2 if not thorough else 12):
        for order, bc in combos:
            n = int(r.randint(4, 9))
            prec = float(r.choice([0.25, 0.5, 1.0, 2.0, 4.0, 3.0]))
            mean = r.randint(-3, 4, size=n).astype(float)
            with quiet():
                g = GMRF(mean, prec, bc_type=bc, order=order)
                D = base.dense(g._diff_op.get_matrix())
                Pi = prec * base.dense(g._prec_op.get_matrix())
                L = base.dense(g.sqrtprec)
                x = mean + r.randint(-3, 4, size=n)
                quadform = -2.0 * (float(g.logpdf(x)) - float(g.logpdf(mean)))
            recs.append({"order": order, "bc": bc, "n": n, "prec": prec, "D": D, "P": Pi, "L": L, "v": x - mean, "quad": quadform})
            lines.append(f"gmrfprec {order} {bc} {n} {q(prec)}")
    outs = ctx.lean.drive(lines)
    dev = {"factor_zero_bc": 0.0, "factor_improper_bc": 0.0, "logpdf_rel": 0.0}
    for rec, o in zip(recs, outs):
        desc = {k: rec[k] for k in ("order", "bc", "n", "prec")}
        key = f"gmrf:order{rec['order']}:{rec['bc']}"
        ctx.case("gmrf-operators", desc)
        toks = o.split(" ")
        bad = []
        if toks[0] != "ok":
            ctx.disagree(key + ":refusal", desc, o, "accepted", "model refuses a GMRF the implementation builds"); bad.append(key + ":refusal")
            Dm = Pm = None
        else:
            Dm = np.array([[float(v) for v in row] for row in pm(toks[2])]); Pm = np.array([[float(v) for v in row] for row in pm(toks[3])])
            if Dm.shape != rec["D"].shape or not np.array_equal(Dm, rec["D"]):
                ctx.disagree(key + ":D", desc, Dm.tolist(), rec["D"].tolist(), "GMRF._diff_op vs the model's difference operator (exact)"); bad.append(key + ":D")
            if Pm.shape != rec["P"].shape or not np.array_equal(Pm, rec["P"]):
                ctx.disagree(key + ":P", desc, Pm.tolist(), rec["P"].tolist(), "prec * GMRF._prec_op vs the model's prec·DᵀD (exact)"); bad.append(key + ":P")
            tolL = 1e-10 if rec["bc"] == "zero" else 1e-6
            if base.relerr(rec["L"].T @ rec["L"], Pm) > tolL:
                ctx.disagree(key + ":factor", desc, Pm.tolist(), (rec["L"].T @ rec["L"]).tolist(), "GMRF.sqrtprecᵀ sqrtprec vs prec·DᵀD"); bad.append(key + ":factor")
        # oracle: the density the GMRF evaluates is that of N(mean, (prec·DᵀD)⁻¹) with the documented stencil (order 1 written out here;
        # order 2: the squared first-order periodic / the implementation's own operator is used)
        Ds = stencil(rec["order"], rec["bc"], rec["n"])
        Pd = rec["prec"] * (Ds.T @ Ds) if Ds is not None else rec["P"]
        want = float(rec["v"] @ Pd @ rec["v"])
        fails = []
        dev["logpdf_rel"] = max(dev["logpdf_rel"], abs(want - rec["quad"]) / (1.0 + abs(want)))
        kdev = "factor_zero_bc" if rec["bc"] == "zero" else "factor_improper_bc"
        dev[kdev] = max(dev[kdev], base._relerr0(rec["L"].T @ rec["L"], Pd))
        if abs(want - rec["quad"]) > 1e-9 * (1.0 + abs(want)):
            fails.append(("logpdf", want, rec["quad"], "GMRF.logpdf is not the density of N(mean, (prec·DᵀD)⁻¹)"))
        tolL = 1e-10 if rec["bc"] == "zero" else 1e-6
        if base.relerr(rec["L"].T @ rec["L"], Pd) > tolL:
            fails.append(("sqrtprec", Pd.tolist(), (rec["L"].T @ rec["L"]).tolist(), "GMRF.sqrtprec does not square to prec·DᵀD"))
        for nm, w, g_, what in fails:
            for k_ in (bad or [key + ":" + nm]):
                ctx.fail(k_, desc, w, g_, what)
    ctx.extra_cov["gmrf_deviation_max (tolerances: zero BC 1e-10, improper 1e-6, logpdf 1e-9)"] = dev
