"""C08, session-3 second pass — argument validation and the legacy `adapt_step_size` dispatch (Model/C08_config.lean).

tie: every value of a pool of Python values (None, bools, ints, numpy ints, floats incl. 0 / negative / nan / +-inf, numpy
floats, complex, str) is passed to the three setters of the experimental NUTS and, as `adapt_step_size`, to a short legacy run;
the outcome (stored value / TypeError / ValueError; adaptive / find-only / fixed step size / ValueError) is compared exactly.
oracle (implementation only, what the property needs from this glue): an accepted `max_depth` is >= 0 (so a transition performs
at least one doubling), an accepted finite `step_size` is > 0, an accepted finite `opt_acc_rate` lies in (0,1); a legacy run
with a numeric `adapt_step_size` other than 0/1 uses exactly that step size in every transition.
"""
import math
import numpy as np
from fractions import Fraction
from harness.core import quiet, q


def pool(rng):
    ints = [0, 1, 2, 3, 15, -1, -3]
    floats = [0.0, 1.0, 0.5, 0.25, 0.6, 0.999, 1.5, 2.0, -0.5, -0.0, 1e-3]
    vals = [("none", None), ("T", True), ("F", False), ("nan", float("nan")), ("inf", float("inf")), ("-inf", float("-inf")),
            ("cx", 2j), ("str", "0.5"), ("str", [0.5])]
    vals += [("i:%d" % n, n) for n in ints]
    vals += [("n:%d" % n, np.int64(n)) for n in ints]
    vals += [("f:" + q(f), f) for f in floats] + [("f:" + q(f), np.float64(f)) for f in floats[:6]]
    vals += [("nan", np.float64("nan")), ("inf", np.float64("inf"))]
    for _ in range(6):
        f = rng.randint(-8, 24) / 16
        vals.append(("f:" + q(f), f))
    return vals


def outcome_setter(fn, v):
    try:
        with quiet():
            r = fn(v)
        return ("ok", r)
    except TypeError:
        return ("TypeError", None)
    except ValueError:
        return ("ValueError", None)


def enc(v):
    """encode a stored python value in the driver's notation"""
    if v is None: return "none"
    if isinstance(v, (bool, np.bool_)): return "T" if v else "F"
    if isinstance(v, complex): return "cx"
    if isinstance(v, (int,)): return "i:%d" % v
    if isinstance(v, np.integer): return "n:%d" % int(v)
    if isinstance(v, (float, np.floating)):
        if v != v: return "nan"
        if v in (float("inf"), float("-inf")): return "inf" if v > 0 else "-inf"
        return "f:" + q(float(v))
    return "str"


def config_stream(ctx, cuqi, rng):
    from cuqi.experimental.mcmc import NUTS as ENUTS
    from cuqi.sampler import NUTS as LNUTS
    from harness.props.c08 import make_target, Script, scripted
    vals = pool(rng)
    target, _ = make_target(cuqi, [[2.0]], [0.0], None)
    lines = []
    for tag, v in vals:
        lines += ["config maxdepth " + tag, "config stepsize " + tag, "config optacc " + tag]
    leg = [(tag, v, nb) for tag, v in vals for nb in (0, 2) if tag != "str" or nb == 2]
    lines += ["config legacy %s %d" % (tag, nb) for tag, v, nb in leg]
    outs = ctx.lean.drive(lines)
    hist = {"values": len(vals), "setter_ok": 0, "setter_TypeError": 0, "setter_ValueError": 0, "legacy": {}}
    with quiet():
        s = ENUTS(target, initial_point=np.array([0.5]), max_depth=2, step_size=0.25)

    def set_md(v): s.max_depth = v; return s.max_depth
    def set_ss(v): s.step_size = v; return s.step_size
    def set_oa(v): s.opt_acc_rate = v; return s.opt_acc_rate
    k = 0
    for tag, v in vals:
        for name, fn in (("max_depth", set_md), ("step_size", set_ss), ("opt_acc_rate", set_oa)):
            mo = outs[k]; k += 1
            desc = {"setter": name, "value": repr(v), "type": type(v).__name__}
            key = f"NUTS:exp:config:{name}"
            kind, stored = outcome_setter(fn, v)
            ctx.case("config-setter", desc)
            hist["setter_" + kind if kind != "ok" else "setter_ok"] += 1
            got = kind if kind != "ok" else "ok " + (str(int(stored)) if name == "max_depth" else enc(stored))
            bad = False
            # ---- oracle: what the transition needs from an accepted value ----------------------------------------------------------
            if kind == "ok":
                if name == "max_depth" and not (isinstance(stored, (int, np.integer)) and stored >= 0):
                    ctx.fail(key, desc, "an accepted max_depth is an integer >= 0", repr(stored), "a negative / non-integer depth bound was accepted"); bad = True
                if name == "step_size" and stored is not None and isinstance(stored, (int, float, np.number)) and not isinstance(stored, (bool, np.bool_)) \
                        and math.isfinite(float(stored)) and not float(stored) > 0:
                    ctx.fail(key, desc, "an accepted finite step_size is > 0", repr(stored), "a non-positive step size was accepted"); bad = True
                if name == "opt_acc_rate" and isinstance(stored, (int, float, np.number)) and math.isfinite(float(stored)) and not (0 < float(stored) < 1):
                    ctx.fail(key, desc, "an accepted finite opt_acc_rate lies in (0,1)", repr(stored), "a target acceptance rate outside (0,1) was accepted"); bad = True
            if got != mo:
                ctx.disagree(key, desc, mo, got, f"outcome of the {name} setter differs from the model")
                if not bad:
                    # a changed error class / default is glue the property does not speak about: only an accepted value the
                    # transition cannot use is a failing input (handled above); report the tie as broken with this input
                    ctx.fail(key, desc, mo, got, f"the {name} setter no longer validates as transcribed (model: {mo})") if (kind == "ok") != mo.startswith("ok") else None
    # restore usable settings
    for tag, v, nb in leg:
        mo = outs[k]; k += 1
        desc = {"adapt_step_size": repr(v), "type": type(v).__name__, "Nb": nb}
        key = "NUTS:legacy:config:adapt_step_size"
        nsteps = 3 + nb
        sc = Script([[0.5]] * (nsteps + 2), [0.5] * (nsteps + 2), [0.5] * (40 * (nsteps + 2)))
        got = None; eps_list = None
        try:
            with quiet(), np.errstate(all="ignore"), scripted(sc):
                ls = LNUTS(target, x0=np.array([0.5]), max_depth=1, adapt_step_size=v)
                ls.sample(3, nb)
            eps_list = list(ls.epsilon_list); bars = list(ls.epsilon_bar_list)
            if all(b is not None for b in bars):
                got = "adaptive"
            elif (isinstance(v, (int, float, np.number)) and not isinstance(v, (bool, np.bool_))
                  and all((e == v) or (e != e and v != v) for e in eps_list)):
                got = "fixed " + enc(v)
            else:
                got = "findonly"
        except ValueError:
            got = "ValueError"
        except Exception as ex:           # e.g. complex / str step size crashing inside the integrator
            got = "crash:" + type(ex).__name__
        ctx.case("config-legacy", desc)
        hist["legacy"][got.split(" ")[0].split(":")[0]] = hist["legacy"].get(got.split(" ")[0].split(":")[0], 0) + 1
        if mo.startswith("fixed") and (mo in ("fixed cx", "fixed str", "fixed none") or got.startswith("crash")):
            continue                      # an unusable object taken as step size: the run crashes or misbehaves — nothing to compare
        if mo == "findonly" and got.startswith("fixed") :
            pass
        if got != mo:
            ctx.disagree(key, desc, mo, got, "the legacy dispatch on adapt_step_size differs from the model")
            if mo.startswith("fixed") and eps_list is not None:
                ctx.fail(key, desc, {"every transition uses": repr(v)}, eps_list, "a numeric adapt_step_size is not used as the fixed step size")
            elif mo in ("adaptive", "findonly", "ValueError"):
                ctx.fail(key, desc, mo, got, "adapt_step_size True/False/0/1 is not dispatched as transcribed (adaptation switched on/off differently)")
    ctx.extra_cov["c08_config"] = hist
