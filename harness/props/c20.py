"""C20 — difference operators and the priors built on them (correspondence + oracle)."""
import math
import numpy as np
from fractions import Fraction
from harness.core import import_cuqi, quiet, pm, pv, q, qv, close, vclose, mclose

BCS = ["zero", "periodic", "neumann", "backward", "none"]


def dense(M):
    return np.asarray(M.todense()) if hasattr(M, "todense") else np.asarray(M)


def run(ctx):
    cuqi = import_cuqi()
    from cuqi.operator import FirstOrderFiniteDifference, SecondOrderFiniteDifference, PrecisionFiniteDifference
    from harness.props.c20_eval import MARGINS, _mg, _ratio
    MARGINS.clear()
    thorough = ctx.tier == "thorough"
    n1 = range(1, 41) if thorough else range(1, 15)
    n2 = range(2, 11) if thorough else range(2, 8)   # thorough 2-D up to 10x10 (11, 12 cost ~10 min of exact Gram evaluation in the interpreted driver)
    ctx.trusted += ["numpy.linalg.matrix_rank / eigvalsh (oracle for rank and pseudo-determinant)", "scipy.sparse (densification)"]
    ctx.assumptions += ["comparison of stencil matrices is exact (integers / exact rationals of the float spacing)",
                        "GMRF sqrtprec for periodic/neumann carries the code's sqrt(eps) regularisation: compared to 1e-6"]

    # ------------------------------------------------------------------ operators: implementation side
    lines, meta = [], []
    dxs = [None, 0.5, 0.7, 4.0] if not thorough else [None, 0.5, 0.7, 4.0, 0.1, 3.0]
    for order in (0, 1, 2):
        for bc in BCS:
            for n in n1:
                lines.append(f"diff1 {order} {bc} {n}"); meta.append(("diff1", order, bc, n))
                lines.append(f"prec1 {order} {bc} {n}"); meta.append(("prec1", order, bc, n))
            for n in n2:
                lines.append(f"diff2 {order} {bc} {n}"); meta.append(("diff2", order, bc, n))
                lines.append(f"prec2 {order} {bc} {n}"); meta.append(("prec2", order, bc, n))
    outs = ctx.lean.drive(lines)

    def impl_op(kind, order, bc, n, dx=None):
        nn = n if kind.endswith("1") else (n, n)
        with quiet():
            if kind.startswith("diff"):
                if order == 0:
                    op = FirstOrderFiniteDifference(nn, "none", dx=dx)
                elif order == 1:
                    op = FirstOrderFiniteDifference(nn, bc, dx=dx)
                else:
                    op = SecondOrderFiniteDifference(nn, bc, dx=dx)
            else:
                op = PrecisionFiniteDifference(nn, bc_type=bc, order=order)
        return dense(op.get_matrix())

    for (kind, order, bc, n), out in zip(meta, outs):
        desc = {"op": kind, "order": order, "bc": bc, "n": n}
        ctx.case(kind, desc, nontrivial=(n >= 2))
        try:
            A = impl_op(kind, order, bc, n)
            impl = "ok"
        except Exception as e:  # constructor refuses
            impl = "err"
            A = None
        key = f"{'operator' if kind.startswith('diff') else 'precision'}:{kind[-1]}D:order{order}:{bc}"
        if out == "err" or impl == "err":
            if out != impl:
                ctx.disagree(key, desc, out[:60], impl, "refusal differs")
            continue
        M = np.array([[float(v) for v in r] for r in pm(out)]) if out != "_" else np.zeros((0, n))
        if M.size == 0 and A.size == 0:
            continue
        if M.shape != A.shape or not np.array_equal(M, A):
            ctx.disagree(key, desc, out[:200], str(A.tolist())[:200], "matrix entries differ")
            # oracle on the implementation alone: documented structure
            oracle_operator(ctx, key, desc, kind, order, bc, n, A)
        # precision oracle on the implementation: P == D^T D, symmetric, PSD (always run: cheap)
        if kind.startswith("prec"):
            D = impl_op("diff" + kind[-1], order, bc, n)
            if not np.array_equal(A, D.T @ D):
                ctx.fail(key + ":DtD", desc, "precision == D^T D", "differs", "precision is not the operator's transpose times the operator")
            if not np.array_equal(A, A.T):
                ctx.fail(key + ":symmetric", desc, "symmetric", "not symmetric")
            if A.size and np.linalg.eigvalsh(A).min() < -1e-9:
                ctx.fail(key + ":psd", desc, "psd", float(np.linalg.eigvalsh(A).min()))
        # spacing (1-D only)
        if kind == "diff1" and order in (1, 2):
            for dx in dxs[1:]:
                ctx.case("diff1-dx", {**desc, "dx": dx})
                Adx = impl_op(kind, order, bc, n, dx=dx)
                ref = M / (dx if order == 1 else dx ** 2)
                _mg("operator with dx vs stencil/dx^order (tol 1e-13)", _ratio(Adx, ref, 1e-13))
                if not mclose(Adx, ref, 1e-13):
                    ctx.disagree(key + ":dx", {**desc, "dx": dx}, "stencil/dx^order", "differs")
                    ctx.fail(key + ":dx", {**desc, "dx": dx}, "stencil divided by dx^order", str(Adx.tolist())[:200])

    # ------------------------------------------------------------------ GMRF / LMRF / CMRF
    from cuqi.distribution import GMRF, LMRF, CMRF
    from cuqi.geometry import Image2D
    rlines, rmeta = [], []
    g1 = range(2, 25) if thorough else range(2, 13)
    g2 = range(2, 8) if thorough else range(2, 5)
    for order in (0, 1, 2):
        for bc in ["zero", "periodic", "neumann"]:
            for n in g1:
                rlines.append(f"rank1 {order} {bc} {n}"); rmeta.append((1, order, bc, n))
                rlines.append(f"prec1 {order} {bc} {n}"); rmeta.append(("P1", order, bc, n))
            for n in g2:
                rlines.append(f"rank2 {order} {bc} {n}"); rmeta.append((2, order, bc, n))
                rlines.append(f"prec2 {order} {bc} {n}"); rmeta.append(("P2", order, bc, n))
    routs = ctx.lean.drive(rlines)
    Pmodel = {}
    for m, o in zip(rmeta, routs):
        if isinstance(m[0], str):
            Pmodel[(int(m[0][1]), m[1], m[2], m[3])] = o
    rng = np.random.RandomState(ctx.seed + 20)
    for (pd, order, bc, n), out in zip(rmeta, routs):
        if isinstance(pd, str):
            continue
        desc = {"gmrf": f"{pd}D", "order": order, "bc": bc, "n": n}
        ctx.case(f"gmrf{pd}", desc)
        dim = n if pd == 1 else n * n
        mean = rng.randint(-3, 4, size=dim).astype(float)
        prec = float(rng.choice([0.5, 1.0, 2.0, 4.0]))
        try:
            with quiet():
                if pd == 1:
                    G = GMRF(mean, prec, bc_type=bc, order=order)
                else:
                    G = GMRF(mean, prec, bc_type=bc, order=order, geometry=Image2D((n, n)))
            impl_ok = True
        except Exception as e:
            impl_ok = False
            err = repr(e)[:120]
        key = f"GMRF:{pd}D:order{order}:{bc}" + (":n<3" if n < 3 else "")
        if out == "err" or not impl_ok:
            if (out == "err") != (not impl_ok):
                # e.g. sparse_cholesky refusing a singular-looking matrix for tiny n is a refusal, not a wrong value
                ctx.note(f"GMRF refusal differs at {desc}: model={out[:20]} impl={'ok' if impl_ok else err}")
            continue
        toks = out.split()
        declared, true_rank = int(toks[0]), int(toks[1])
        P = np.array([[float(v) for v in r] for r in pm(Pmodel[(pd, order, bc, n)])])
        # correspondence: declared rank and the precision the field actually uses
        if G._rank != declared:
            ctx.disagree(key + ":declared-rank", desc, declared, int(G._rank))
        Pimpl = dense(G._prec_op.get_matrix())
        if not np.array_equal(Pimpl, P):
            ctx.disagree(key + ":precision", desc, "model D^T D", "differs")
        # oracle (implementation only): reported rank / logdet are those of its own precision
        ev = np.linalg.eigvalsh(Pimpl)
        r_true = int(np.sum(ev > 1e-9 * max(1.0, ev.max())))
        if r_true != true_rank:
            ctx.note(f"numerical rank {r_true} vs exact rank {true_rank} at {desc}")
        if int(G._rank) != true_rank:
            ctx.fail(key + ":rank", desc, f"rank of precision = {true_rank}", int(G._rank),
                     "GMRF reports a rank that is not the rank of its precision")
        logdet_true = float(np.sum(np.log(ev[ev > 1e-9 * max(1.0, ev.max())])))
        if int(G._rank) == true_rank:
            _mg("GMRF._logdet vs eigvalsh pseudo-log-determinant (tol 1e-6)", _ratio(float(G._logdet), logdet_true, 1e-6))
        if int(G._rank) == true_rank and not close(G._logdet, logdet_true, 1e-6):
            ctx.fail(key + ":logdet", desc, logdet_true, float(G._logdet),
                     "GMRF log-determinant is not the (pseudo) log-determinant of its precision")
        # sqrtprec^T sqrtprec = prec * P
        S = dense(G.sqrtprec)
        _mg("sqrtprec^T sqrtprec vs prec*P (tol 1e-6; carries the code's sqrt(eps) regularisation)", _ratio(S.T @ S, prec * Pimpl, 1e-6))
        if not mclose(S.T @ S, prec * Pimpl, 1e-6):
            ctx.fail(key + ":sqrtprec", desc, "R^T R = prec*P", "differs", "square-root precision is not a square root of the precision")
        # logpdf evaluates the shifted variable through the operator, with the reported constants
        x = rng.randint(-4, 5, size=dim).astype(float)
        ref = 0.5 * (true_rank * (math.log(prec) - math.log(2 * math.pi)) + logdet_true) - 0.5 * prec * float((x - mean) @ (P @ (x - mean)))
        with quiet():
            got = float(G.logpdf(x))
        if int(G._rank) == true_rank:
            _mg("GMRF.logpdf vs documented density (tol 1e-7)", _ratio(got, ref, 1e-7))
        if int(G._rank) == true_rank and not close(got, ref, 1e-7):
            ctx.fail(key + ":logpdf", desc, ref, got, "GMRF.logpdf is not the documented density of D(x-mean)")
        # quadratic part independently of the constant (catches a missing shift even where the rank is a known finding)
        with quiet():
            q0 = float(G.logpdf(mean))
        quad = got - q0
        if math.isfinite(q0) and math.isfinite(got):
            _mg("GMRF logpdf(x)-logpdf(mean) vs quadratic form (tol 1e-8)", _ratio(quad, -0.5 * prec * float((x - mean) @ (P @ (x - mean))), 1e-8))
        if math.isfinite(q0) and math.isfinite(got) and not close(quad, -0.5 * prec * float((x - mean) @ (P @ (x - mean))), 1e-8):
            ctx.fail(key + ":quadratic", desc, "logpdf(x)-logpdf(mean) = -prec/2 |D(x-mean)|^2", quad,
                     "GMRF does not evaluate the shifted variable through the operator")

    # histories on ONE object: reads after re-assigning prec / mean must be those of the current parameters.
    # Tie: the same history is run on the state-machine model (Model/C20Hist.lean, driver op `gmrfhist`, theorems
    # run_eq_fresh / reads_current); every read is diffed with the model's exact value, and judged by the oracle.
    nseq = 40 if not thorough else 400
    hist_jobs = []
    for _ in range(nseq):
        pd = 1 if rng.rand() < 0.7 else 2
        order = int(rng.randint(0, 3)); bc = ["zero", "periodic", "neumann"][rng.randint(0, 3)]
        n = int(rng.randint(3, 9)) if pd == 1 else int(rng.randint(3, 5))
        if (pd, order, bc, n) not in Pmodel or Pmodel[(pd, order, bc, n)] == "err":
            continue
        dim = n if pd == 1 else n * n
        P = np.array([[float(v) for v in r] for r in pm(Pmodel[(pd, order, bc, n)])])
        mean0 = rng.randint(-3, 4, size=dim).astype(float); prec0 = float(rng.choice([0.5, 1.0, 2.0, 4.0]))
        try:
            with quiet():
                G = GMRF(mean0.copy(), prec0, bc_type=bc, order=order, **({} if pd == 1 else {"geometry": Image2D((n, n))}))
        except Exception:
            continue
        mean, prec = mean0.copy(), prec0
        ops = []; script = []; reads = []
        key = f"GMRF:{pd}D:order{order}:{bc}:history"
        for step in range(int(rng.randint(3, 9))):
            op = ["read_sqrtprec", "set_prec", "set_mean", "read_logpdf_diff", "read_sqrtprecTimesMean", "read_gradient"][rng.randint(0, 6)]
            ops.append(op)
            desc = {"gmrf": f"{pd}D", "order": order, "bc": bc, "n": n, "ops": list(ops)}
            try:
              with quiet():
                if op == "set_prec":
                    prec = float(rng.choice([0.25, 0.5, 1.0, 2.0, 4.0, 8.0])); G.prec = prec; script.append("p=" + q(prec))
                elif op == "set_mean":
                    mean = rng.randint(-3, 4, size=dim).astype(float); G.mean = mean; script.append("m=" + qv(mean))
                elif op == "read_sqrtprec":
                    S = dense(G.sqrtprec); script.append("S"); reads.append(("S", desc, S.T @ S, 1e-6))
                    if not mclose(S.T @ S, prec * P, 1e-6):
                        ctx.fail(key, desc, "sqrtprec^T sqrtprec = current prec * D^T D", "differs", "square-root precision is not that of the current precision after re-assignment")
                elif op == "read_sqrtprecTimesMean":
                    S = dense(G.sqrtprec); v = np.asarray(G.sqrtprecTimesMean).ravel(); script.append("T"); reads.append(("T", desc, S.T @ v, 1e-6))
                    if not vclose(S.T @ v, prec * (P @ mean), 1e-6):
                        ctx.fail(key, desc, "sqrtprecTimesMean = sqrtprec @ current mean", "differs", "sqrtprecTimesMean is stale")
                elif op == "read_gradient":
                    x = rng.randint(-4, 5, size=dim).astype(float)
                    try:
                        g = np.asarray(G.gradient(x), float).ravel()
                    except NotImplementedError:
                        ops.pop(); continue          # gradients are refused on non-identity geometries (2-D): not a read
                    script.append("g=" + qv(x)); reads.append(("g", desc, g, 1e-9))
                    if not vclose(g, -prec * (P @ (x - mean)), 1e-9):
                        ctx.fail(key, desc, "gradient = -prec D^T D (x - mean) for the current parameters", g.tolist(), "gradient uses stale parameters")
                else:
                    x = rng.randint(-4, 5, size=dim).astype(float)
                    a, b0 = float(G.logpdf(x)), float(G.logpdf(mean))
                    if math.isfinite(a) and math.isfinite(b0):
                        script.append("q=" + qv(x)); reads.append(("q", desc, a - b0, 1e-8))
                        if not close(a - b0, -0.5 * prec * float((x - mean) @ (P @ (x - mean))), 1e-8):
                            ctx.fail(key, desc, "logpdf(x)-logpdf(mean) = -prec/2 |D(x-mean)|^2 for the current parameters", a - b0, "logpdf uses stale parameters")
            except Exception as e:
                ctx.disagree(key, desc, "a value", repr(e)[:200], "a read or a setter raised during the history")
                ctx.fail(key, desc, "reads and setters of a constructed GMRF return", repr(e)[:200], "a read or a setter raised during the history")
                break
        ctx.case("gmrf-history", {"gmrf": f"{pd}D", "order": order, "bc": bc, "n": n, "ops": ops})
        if reads:
            hist_jobs.append((key, "gmrfhist %s %s %s %s" % (Pmodel[(pd, order, bc, n)], q(prec0), qv(mean0), "@".join(script)), reads))
    houts = ctx.lean.drive([j[1] for j in hist_jobs])
    for (key, _, reads), out in zip(hist_jobs, houts):
        if out == "bad-op":
            raise RuntimeError("C20 driver could not parse a gmrfhist line (machinery error)")
        if out == "_":
            continue
        vals = [t.strip() for t in out.split("|")]
        if len(vals) != len(reads):
            ctx.disagree(key, reads[-1][1], len(vals), len(reads), "number of reads differs"); continue
        for (kind, desc, got, tol), mv in zip(reads, vals):
            if kind == "q":
                _mg("history read q vs state-machine model (tol 1e-8)", _ratio(got, float(Fraction(mv)), tol))
                ok = close(got, float(Fraction(mv)), tol)
            elif kind == "S":
                ok = mclose(got, np.array([[float(v) for v in r] for r in pm(mv)]), tol)
            else:
                ok = vclose(got, [float(v) for v in pv(mv)], tol)
            if not ok:
                ctx.disagree(key, desc, mv[:200], np.asarray(got).tolist() if kind != "q" else got, f"read {kind} after the history differs from the state-machine model")

    # LMRF / CMRF: D(x - location) with the first-order operator
    dlines, dmeta = [], []
    for bc in BCS:
        for n in g1:
            dlines.append(f"diff1 1 {bc} {n}"); dmeta.append((1, bc, n))
        for n in g2:
            dlines.append(f"diff2 1 {bc} {n}"); dmeta.append((2, bc, n))
    douts = ctx.lean.drive(dlines)
    for (pd, bc, n), out in zip(dmeta, douts):
        dim = n if pd == 1 else n * n
        D = np.array([[float(v) for v in r] for r in pm(out)]) if out != "_" else np.zeros((0, dim))
        if D.shape[0] == 0:
            continue
        # location: vector, or a (non-zero) scalar broadcast over the geometry
        scalar_loc = rng.rand() < 0.4
        if scalar_loc:
            loc_arg = float(rng.choice([-2.0, 1.0, 3.0])); loc = np.full(dim, loc_arg)
        else:
            loc = rng.randint(-3, 4, size=dim).astype(float); loc_arg = loc
        x = rng.randint(-4, 5, size=dim).astype(float)
        scale = float(rng.choice([0.5, 1.0, 2.0]))
        geom = ({"geometry": dim} if scalar_loc else {}) if pd == 1 else {"geometry": Image2D((n, n))}
        desc = {"mrf": f"{pd}D", "bc": bc, "n": n, "scale": scale, "location": "scalar" if scalar_loc else "vector"}
        Dx = D @ (x - loc)
        for fam, cls, ref in (
            ("LMRF", LMRF, len(Dx) * (-(math.log(2) + math.log(scale))) - float(np.abs(Dx).sum()) / scale),
            ("CMRF", CMRF, -len(Dx) * math.log(math.pi) + float(np.sum(math.log(scale) - np.log(Dx ** 2 + scale ** 2)))),
        ):
            ctx.case(f"{fam}{pd}", desc)
            try:
                with quiet():
                    dist = cls(loc_arg, scale, bc_type=bc, **geom)
                    got = float(dist.logpdf(x))
            except Exception as e:
                ctx.note(f"{fam} refused {desc}: {repr(e)[:80]}")
                continue
            _mg(f"{fam}.logpdf vs D(x-location) density (tol 1e-10)", _ratio(got, ref, 1e-10))
            if not close(got, ref, 1e-10):
                ctx.disagree(f"{fam}:{pd}D:{bc}:logpdf", desc, ref, got)
                ctx.fail(f"{fam}:{pd}D:{bc}:logpdf", desc, ref, got, f"{fam}.logpdf is not the documented density of D(x-location)")
            if scalar_loc:
                # a batch of k points as the columns of a (dim, k) array (the code evaluates column-wise): one value per column
                k = int(rng.randint(2, 4))
                X = rng.randint(-4, 5, size=(dim, k)).astype(float); X[:, 0] = x
                try:
                    with quiet():
                        gb = np.asarray(dist.logpdf(X), float).ravel()
                except Exception as e:
                    ctx.note(f"{fam} refused a batch {desc}: {repr(e)[:80]}")
                    continue
                refs = []
                for c in range(k):
                    Dc = D @ (X[:, c] - loc)
                    refs.append(len(Dc) * (-(math.log(2) + math.log(scale))) - float(np.abs(Dc).sum()) / scale if fam == "LMRF"
                                else -len(Dc) * math.log(math.pi) + float(np.sum(math.log(scale) - np.log(Dc ** 2 + scale ** 2))))
                ctx.case(f"{fam}{pd}-batch", {**desc, "k": k})
                if len(gb) != k or not vclose(gb, refs, 1e-10):
                    ctx.disagree(f"{fam}:{pd}D:{bc}:logpdf:batch", {**desc, "k": k}, refs, gb.tolist())
                    ctx.fail(f"{fam}:{pd}D:{bc}:logpdf:batch", {**desc, "k": k, "X": X.tolist()}, refs, gb.tolist(),
                             f"{fam}.logpdf of a batch of columns is not the documented density of each column")

    generic_classes(ctx, cuqi, Pmodel, thorough)
    # session-3 extension: constructor / geometry glue, exact /dx scaling, logpdf forms and gradients (Model/C20_eval.lean)
    # and sparse_cholesky with the factor / log-determinant GMRF keeps (Model/C20_chol.lean)
    from harness.props.c20_eval import run_ext
    run_ext(ctx, cuqi, thorough)

def generic_classes(ctx, cuqi, Pmodel, thorough):
    """Recurrent miss classes (tools/generic_classes.txt) applied to what C20 states: the same NUMBERS handed over with another
    dtype / memory layout give the same field; extreme precisions are judged relatively; caller-owned arrays are not
    modified; every returned array keeps its value (re-verified at the end)."""
    from cuqi.distribution import GMRF, LMRF, CMRF
    from cuqi.geometry import Image2D
    rng = np.random.RandomState(ctx.seed + 2020)
    forms = {
        "int64": lambda v: np.asarray(v).astype(np.int64),
        "int32": lambda v: np.asarray(v).astype(np.int32),
        "float32": lambda v: np.asarray(v).astype(np.float32),
        "list": lambda v: [float(t) for t in v],
        "strided": lambda v: np.repeat(np.asarray(v, float), 2)[::2],
        "reversed-view": lambda v: np.asarray(v, float)[::-1].copy()[::-1],
        "readonly": lambda v: (lambda a: (a.setflags(write=False), a)[1])(np.array(v, float)),
    }
    retained = []
    nconf = 24 if not thorough else 200
    for _ in range(nconf):
        pd = 1 if rng.rand() < 0.7 else 2
        order = int(rng.randint(0, 3)); bc = ["zero", "periodic", "neumann"][rng.randint(0, 3)]
        n = int(rng.randint(3, 9)) if pd == 1 else int(rng.randint(3, 5))
        if Pmodel.get((pd, order, bc, n), "err") == "err":
            continue
        dim = n if pd == 1 else n * n
        P = np.array([[float(v) for v in r] for r in pm(Pmodel[(pd, order, bc, n)])])
        geom = {} if pd == 1 else {"geometry": Image2D((n, n))}
        mean = rng.randint(-3, 4, size=dim).astype(float)
        x = rng.randint(-4, 5, size=dim).astype(float)
        prec = float(rng.choice([1e-12, 1e-6, 1.0, 1e6, 1e12, 2.0 ** -40, 2.0 ** 30]))
        base = f"GMRF:{pd}D:order{order}:{bc}:generic"
        desc0 = {"gmrf": f"{pd}D", "order": order, "bc": bc, "n": n, "prec": prec}
        try:
            with quiet():
                G0 = GMRF(mean.copy(), prec, bc_type=bc, order=order, **geom)
                l0 = float(G0.logpdf(x)); l0m = float(G0.logpdf(mean))
                S0 = dense(G0.sqrtprec)
        except Exception as e:
            ctx.note(f"GMRF refused {desc0}: {repr(e)[:80]}"); continue
        ctx.case("gmrf-generic", desc0)
        # G4: scale.  quadratic form and square root judged relatively to prec
        quad = -0.5 * prec * float((x - mean) @ (P @ (x - mean)))
        canc = 1e-12 * (abs(l0m) + abs(l0))       # the difference of two log-densities carries their rounding, not a defect
        if math.isfinite(l0) and math.isfinite(l0m) and abs((l0 - l0m) - quad) > 1e-8 * abs(quad) + canc:
            ctx.fail(base + ":scale:quadratic", desc0, quad, l0 - l0m, "logpdf(x)-logpdf(mean) is not -prec/2 |D(x-mean)|^2 at this precision scale")
        if not mclose((S0.T @ S0) / prec, P, 1e-6):
            ctx.fail(base + ":scale:sqrtprec", desc0, "R^T R / prec = D^T D", "differs", "square-root precision is not a square root of prec*D^T D at this precision scale")
        # the constant: rank * log(prec) must enter (difference between two precisions, same object kind)
        try:
            with quiet():
                G1 = GMRF(mean.copy(), 4.0 * prec, bc_type=bc, order=order, **geom)
                d = float(G1.logpdf(mean)) - l0m
            evp = np.linalg.eigvalsh(P); rank_ok = int(np.sum(evp > 1e-9 * max(1.0, evp.max()))) == int(G0._rank)
            # where the declared rank is wrong (known findings) the log-determinant is that of a numerically singular matrix: not judged here
            if rank_ok and math.isfinite(d) and not close(d, 0.5 * int(G0._rank) * math.log(4.0), 1e-7):
                ctx.fail(base + ":scale:constant", desc0, 0.5 * int(G0._rank) * math.log(4.0), d, "normalising constant does not scale as (rank/2) log prec")
        except Exception as e:
            ctx.note(f"GMRF(4*prec) refused {desc0}: {repr(e)[:80]}")
        retained.append((base + ":retained", desc0, S0.copy(), G0, "sqrtprec"))
        # G1/G7: same numbers, other dtype / layout, for the mean and for the evaluation point
        for fname, f in forms.items():
            for role in ("mean", "x"):
                desc = {**desc0, "form": fname, "role": role}
                marg = f(mean) if role == "mean" else mean.copy()
                xarg = f(x) if role == "x" else x.copy()
                snap = None if isinstance(marg, list) else np.array(marg, copy=True)
                snapx = None if isinstance(xarg, list) else np.array(xarg, copy=True)
                try:
                    with quiet():
                        G = GMRF(marg, prec, bc_type=bc, order=order, **geom)
                        got = float(G.logpdf(xarg)) - float(G.logpdf(mean.copy()))   # constants are judged elsewhere (rank findings)
                        gr = None
                        if role == "x" or fname in ("int64", "int32"):
                            try:
                                gr = np.asarray(G.gradient(xarg), float).ravel()
                            except Exception:
                                gr = None
                except Exception as e:
                    ctx.note(f"GMRF refused {fname} {role}: {repr(e)[:60]}"); continue
                ctx.case("gmrf-generic-form", {"form": fname, "role": role})
                tol = 1e-4 if fname == "float32" else 1e-8
                if math.isfinite(got) and abs(got - quad) > tol * abs(quad) + canc:
                    ctx.fail(base + f":form:{role}:{fname}", desc, quad, got, "same numbers in another dtype / memory layout give another log-density")
                if gr is not None:
                    gref = -prec * (P @ (x - mean))
                    if not vclose(gr / prec, gref / prec, 1e-4 if fname == "float32" else 1e-8):
                        ctx.fail(base + f":form:{role}:{fname}:gradient", desc, gref.tolist(), gr.tolist(), "gradient for the same numbers in another dtype / layout differs from -prec D^T D (x-mean)")
                # G2: caller-owned arrays untouched
                if snap is not None and not (np.array_equal(np.asarray(marg), snap)):
                    ctx.fail(base + ":modifies:mean", desc, snap.tolist(), np.asarray(marg).tolist(), "GMRF modified the caller's mean array")
                if snapx is not None and not (np.array_equal(np.asarray(xarg), snapx)):
                    ctx.fail(base + ":modifies:x", desc, snapx.tolist(), np.asarray(xarg).tolist(), "GMRF.logpdf/gradient modified the caller's evaluation point")
        # LMRF / CMRF: D(x - location) for other dtypes / layouts / scales
        if order == 1:
            with quiet():
                from cuqi.operator import FirstOrderFiniteDifference
                D = dense((FirstOrderFiniteDifference(n, bc) if pd == 1 else FirstOrderFiniteDifference((n, n), bc)).get_matrix()) if False else None
        scale = float(rng.choice([1e-9, 1e-3, 1.0, 1e3, 1e9]))
        for fam, cls in (("LMRF", LMRF), ("CMRF", CMRF)):
            try:
                with quiet():
                    d0 = cls(mean.copy(), scale, bc_type=bc, **geom)
                    r0 = float(d0.logpdf(x))
            except Exception as e:
                ctx.note(f"{fam} refused: {repr(e)[:60]}"); continue
            for fname, f in forms.items():
                for role in ("location", "x"):
                    larg = f(mean) if role == "location" else mean.copy()
                    xarg = f(x) if role == "x" else x.copy()
                    snap = None if isinstance(larg, list) else np.array(larg, copy=True)
                    desc = {"mrf": fam, "dim": pd, "bc": bc, "n": n, "scale": scale, "form": fname, "role": role}
                    try:
                        with quiet():
                            dd = cls(larg, scale, bc_type=bc, **geom)
                            got = float(dd.logpdf(xarg))
                    except Exception as e:
                        ctx.note(f"{fam} refused {fname} {role}: {repr(e)[:60]}"); continue
                    ctx.case("mrf-generic-form", {"fam": fam, "form": fname, "role": role})
                    if math.isfinite(r0) and not close(got, r0, 1e-4 if fname == "float32" else 1e-9):
                        ctx.fail(f"{fam}:{pd}D:{bc}:generic:form:{role}:{fname}", desc, r0, got, "same numbers in another dtype / memory layout give another log-density")
                    if snap is not None and not np.array_equal(np.asarray(larg), snap):
                        ctx.fail(f"{fam}:{pd}D:{bc}:generic:modifies:location", desc, snap.tolist(), np.asarray(larg).tolist(), "the caller's location array was modified")
    # narrow dtypes (uint8 / int8 / bool / float16): arithmetic in the input's own dtype wraps around or is logical; the same NUMBERS
    # must give the float64 result, for the operators themselves and for the fields built on them
    from cuqi.operator import FirstOrderFiniteDifference, SecondOrderFiniteDifference, PrecisionFiniteDifference
    narrow = {"uint8": np.uint8, "int8": np.int8, "bool": np.bool_, "float16": np.float16}
    for bc in BCS:
        for n in (3, 6):
            v = rng.randint(0, 2, size=n) if True else None
            vv = {"bool": v.astype(bool), "uint8": (v * rng.randint(1, 100, size=n)).astype(np.uint8),
                  "int8": (v * rng.randint(1, 100, size=n)).astype(np.int8), "float16": (v * rng.randint(1, 9, size=n)).astype(np.float16)}
            ops = [("first", lambda: FirstOrderFiniteDifference(n, bc)), ("second", lambda: SecondOrderFiniteDifference(n, bc))]
            for oname, mk in ops:
                try:
                    with quiet():
                        op = mk(); Dd = dense(op.get_matrix())
                except Exception:
                    continue
                for dn, arr in vv.items():
                    desc = {"operator": oname, "bc": bc, "n": n, "dtype": dn, "v": np.asarray(arr, float).tolist()}
                    ctx.case("operator-narrow-dtype", {"operator": oname, "bc": bc, "dtype": dn})
                    try:
                        with quiet():
                            got = np.asarray(op @ arr, float).ravel()
                    except Exception as e:
                        ctx.note(f"operator refused {dn}: {repr(e)[:60]}"); continue
                    ref = Dd @ np.asarray(arr, float)
                    if got.shape != ref.shape or not vclose(got, ref, 1e-3 if dn == "float16" else 1e-12):
                        ctx.fail(f"operator:{oname}:{bc}:narrow-dtype:{dn}", desc, ref.tolist(), got.tolist(),
                                 "applying the difference operator to the same numbers in a narrow dtype gives another result (wrap-around / logical arithmetic)")
            for fam, cls in (("LMRF", LMRF), ("CMRF", CMRF)):
                for dn in ("uint8", "int8", "bool"):
                    xa = vv[dn]; la = np.zeros(n, dtype=narrow[dn]); la[0] = 1
                    try:
                        with quiet():
                            r64 = float(cls(np.asarray(la, float), 0.5, bc_type=bc).logpdf(np.asarray(xa, float)))
                            got = float(cls(la, 0.5, bc_type=bc).logpdf(xa))
                    except Exception as e:
                        ctx.note(f"{fam} refused {dn}: {repr(e)[:60]}"); continue
                    ctx.case("mrf-narrow-dtype", {"fam": fam, "bc": bc, "dtype": dn})
                    if math.isfinite(r64) and not close(got, r64, 1e-9):
                        ctx.fail(f"{fam}:1D:{bc}:generic:form:narrow:{dn}", {"mrf": fam, "bc": bc, "n": n, "dtype": dn, "x": np.asarray(xa, float).tolist(), "location": np.asarray(la, float).tolist()},
                                 r64, got, "same numbers in a narrow dtype give another log-density")
    # sizes past the small grids of the exact tie: normalising constants of large fields (sums of logs, not logs of products)
    big = [(2, 1, "zero", 26), (2, 1, "zero", 30), (2, 2, "zero", 20), (1, 1, "zero", 400), (1, 2, "zero", 300), (1, 0, "zero", 800)]
    if thorough:
        big += [(2, 1, "zero", 40), (2, 0, "zero", 30), (1, 1, "zero", 1500)]
    for pd, order, bc, n in big:
        dim = n if pd == 1 else n * n
        desc = {"gmrf": f"{pd}D", "order": order, "bc": bc, "n": n, "prec": 3.0}
        try:
            with quiet():
                G = GMRF(np.zeros(dim), 3.0, bc_type=bc, order=order, **({} if pd == 1 else {"geometry": Image2D((n, n))}))
                Pd = dense(G._prec_op.get_matrix())
                sign, ld = np.linalg.slogdet(Pd)
                x = rng.randint(-2, 3, size=dim).astype(float)
                got = float(G.logpdf(x))
        except Exception as e:
            ctx.note(f"large GMRF refused {desc}: {repr(e)[:80]}"); continue
        ctx.case("gmrf-large", desc)
        key = f"GMRF:{pd}D:order{order}:{bc}:large"
        if sign <= 0:
            continue
        if int(G._rank) != dim:
            ctx.fail(key + ":rank", desc, dim, int(G._rank), "zero-boundary precision is positive definite: rank must be the dimension")
        if not (math.isfinite(float(G._logdet)) and close(float(G._logdet), float(ld), 1e-8)):
            ctx.fail(key + ":logdet", desc, float(ld), float(G._logdet), "log-determinant of a large field is not the log-determinant of its precision")
        ref = 0.5 * (dim * (math.log(3.0) - math.log(2 * math.pi)) + float(ld)) - 0.5 * 3.0 * float(x @ (Pd @ x))
        if not (math.isfinite(got) and close(got, ref, 1e-8)):
            ctx.fail(key + ":logpdf", desc, ref, got, "GMRF.logpdf of a large field is not the documented density")
    # G8: everything returned earlier still holds its value, and is still what the object reports
    for key, desc, snap, G, what in retained:
        with quiet():
            now = dense(G.sqrtprec)
        if not np.array_equal(now, snap):
            ctx.fail(key, desc, "sqrtprec unchanged by later calls on other objects", "changed", "an earlier GMRF's square-root precision changed after later constructions / evaluations")


def oracle_operator(ctx, key, desc, kind, order, bc, n, A):
    """implementation-only oracle used when the correspondence breaks: documented stencil / Kronecker structure"""
    from cuqi.operator import FirstOrderFiniteDifference, SecondOrderFiniteDifference
    if kind in ("diff2", "prec2"):
        with quiet():
            D1 = dense((FirstOrderFiniteDifference(n, "none") if order == 0 else
                        FirstOrderFiniteDifference(n, bc) if order == 1 else SecondOrderFiniteDifference(n, bc)).get_matrix())
        I = np.eye(n)
        ref = np.vstack([np.kron(I, D1), np.kron(D1, I)])
        if kind == "prec2":
            ref = ref.T @ ref
        if A.shape != ref.shape or not np.array_equal(A, ref):
            ctx.fail(key + ":kron", desc, "vstack(kron(I,D),kron(D,I))", "differs", "2-D operator is not the documented Kronecker stacking of the 1-D one")
        return
    # 1-D: interior rows must carry the documented stencil; null space must be the one the bc implies
    x = np.arange(1, n + 1, dtype=float) ** 2
    if kind == "diff1":
        st = {0: [1.0], 1: [-1.0, 1.0], 2: [-1.0, 2.0, -1.0]}[order]
        rows_ok = True
        for r in A:
            nz = r[np.nonzero(r)]
            if len(nz) == len(st) and not (np.array_equal(nz, st) or np.array_equal(nz, st[::-1]) or np.array_equal(-nz, st)):
                rows_ok = False
        if not rows_ok:
            ctx.fail(key + ":stencil", desc, f"interior stencil {st}", "differs", "difference operator rows do not carry the documented stencil")
        const = np.ones(n)
        if order >= 1 and bc in ("periodic", "neumann") and A.size and np.abs(A @ const).max() > 0:
            ctx.fail(key + ":nullspace", desc, "constants in the null space", "D·1 != 0")
        if bc == "zero" and A.size and np.linalg.matrix_rank(A) < n:
            ctx.fail(key + ":nullspace", desc, "trivial null space for zero bc", "rank deficient")
    else:
        ev = np.linalg.eigvalsh(A) if A.size else np.array([])
        from math import isclose
        null = int(np.sum(np.abs(ev) < 1e-9))
        expect = {(1, "periodic"): 1, (1, "neumann"): 1, (2, "periodic"): 1, (2, "neumann"): 2}.get((order, bc), 0)
        if n >= 3 and null != expect:
            ctx.fail(key + ":nullspace", desc, f"nullity {expect}", null, "precision does not have the null space implied by the boundary condition")
