"""C16, session-3 extension — tie of `Model/C16_glue.lean` (constructors `int(maxit)`, what `solve()` returns,
the PCGLS dispatch on `config.MAX_DIM_INV` / `has_cholmod` and its error branches, start-vector dtype promotion,
the `L_BFGS_B` / `LS` info dictionaries and the call `LS` hands to SciPy, CUQIarray re-wrapping, the non-callable
branch of `LM`) to the real code.

Hard comparisons (a difference is a disagreement, and the property's oracle is run at that input): returned
values / iteration counts, raises-vs-returns, info fields, forwarded arguments.  Soft comparisons (counted in the
evidence, never an alarm — the property does not speak about them): the exception *class*, the exact promoted
dtype beyond "at least double", extra keywords that do not change SciPy's result.
"""
import math
import numpy as np
import scipy.sparse as sp
import scipy.sparse.linalg as sla
import scipy.optimize as sopt
from fractions import Fraction
from harness.core import quiet, q, qv, qm, pv, vclose


def _pynum(v):
    """token of a Python number for the driver + its float value"""
    f = float(v)
    if f != f:
        return "nan"
    if f == math.inf:
        return "inf"
    if f == -math.inf:
        return "-inf"
    fr = Fraction(f)
    return f"{fr.numerator}/{fr.denominator}" if fr.denominator != 1 else str(fr.numerator)


MAXITS = [("2.7", 2.7), ("0.9", 0.9), ("-3.5", -3.5), ("1e1", 1e1), ("True", True), ("False", False), ("np.int64(3)", np.int64(3)),
          ("np.float32(2.5)", np.float32(2.5)), ("1.9999999", 1.9999999), ("-0.0", -0.0), ("4", 4), ("np.float64(1.0)", np.float64(1.0)),
          ("-1", -1), ("np.int8(2)", np.int8(2)), ("0.9999999999999999", 0.9999999999999999),
          ("nan", float("nan")), ("inf", float("inf")), ("-inf", -float("inf")), ("np.float32(inf)", np.float32("inf"))]


def _soft(ctx, name, agree):
    h = ctx.extra_cov.setdefault("glue_soft", {})
    d = h.setdefault(name, {"agree": 0, "differ": 0})
    d["agree" if agree else "differ"] += 1


def _vc(ctx, name, a, b, tol):
    """vclose + record of the largest deviation/tolerance ratio among the comparisons that passed (evidence `glue_margins`)"""
    a = np.asarray(a, dtype=float).ravel(); b = np.asarray(b, dtype=float).ravel()
    if a.shape != b.shape:
        return False
    ok = vclose(a, b, tol)
    if ok and a.size and np.all(np.isfinite(a)) and np.all(np.isfinite(b)):
        ratio = float(np.max(np.abs(a - b) / (tol * (1.0 + np.maximum(np.abs(a), np.abs(b))))))
        m = ctx.extra_cov.setdefault("glue_margins", {}).setdefault(name, {"max_dev_over_tol": 0.0, "comparisons": 0})
        m["max_dev_over_tol"] = max(m["max_dev_over_tol"], round(ratio, 6)); m["comparisons"] += 1
    return ok


def _cgtol(H, B):
    """iterate tolerance of the CG ties: float CG loses conjugacy with the conditioning of the operator"""
    return max(1e-8, 1e-12 * H.eff_cond(B) ** 4)


def _cov(ctx, hist, k):
    h = ctx.extra_cov.setdefault(hist, {})
    h[k] = h.get(k, 0) + 1


def _small_problem(rs, gen_matrix, n=None):
    n = int(rs.randint(1, 4)) if n is None else n
    m = int(rs.randint(n, n + 3))
    A = gen_matrix(rs, m, n, False)
    b = rs.randint(-5, 6, size=m).astype(float)
    x0 = rs.randint(-3, 4, size=n).astype(float)
    return A, b, x0


def _run(f):
    """(result, None) or (None, exception)"""
    try:
        with quiet():
            return f(), None
    except Exception as e:        # noqa: BLE001 — every exception class is an outcome here
        return None, e


def check_glue(ctx, rs, sc, cuqi, S, H):
    """H: the main module (generators, oracles)"""
    from cuqi.solver import CGLS, FISTA, LM, LS, L_BFGS_B, minimize, maximize, ProjectNonnegative, ProximalL1
    from cuqi.solver._solver import PCGLS
    # every stream is a generator: it yields driver lines and receives the model's outputs; all streams share ONE driver call per
    # round (each driver call waits for the shared lake lock)
    _run_batched(ctx, [
        check_ctor_maxit(ctx, rs, sc, H, CGLS, PCGLS, FISTA, LM, ProjectNonnegative, ProximalL1),
        check_pcgls_dispatch(ctx, rs, sc, H, cuqi, S, PCGLS),
        check_dtype(ctx, rs, H, CGLS, PCGLS),
        check_lbfgsb_table(ctx, S, L_BFGS_B),
        check_ls_call(ctx, rs, sc, H, S, LS),
        check_rewrap(ctx, rs, H, cuqi, minimize, maximize, LS, L_BFGS_B),
        check_lm_explicit(ctx, rs, sc, H, LM),
        check_negative_tolerances(ctx, rs, sc, H, CGLS, PCGLS, LM),
        check_lm_damping(ctx, rs, sc, H, LM),
        check_assigned_maxit(ctx, rs, sc, H, CGLS, FISTA, LM, ProjectNonnegative)])
    check_stored_buffer_callables(ctx, rs, sc, H, minimize, maximize, L_BFGS_B, LS, FISTA, ProjectNonnegative)


def _run_batched(ctx, gens):
    pending = {}
    for g in gens:
        try:
            pending[g] = list(next(g))
        except StopIteration:
            pass
    while pending:
        order = list(pending)
        all_lines = [l for g in order for l in pending[g]]
        outs = ctx.lean.drive(all_lines) if all_lines else []
        pos, nxt = 0, {}
        for g in order:
            n = len(pending[g]); sl = outs[pos:pos + n]; pos += n
            try:
                nxt[g] = list(g.send(sl))
            except StopIteration:
                pass
        pending = nxt


# ----------------------------------------------------------------------------- int(maxit)
def check_ctor_maxit(ctx, rs, sc, H, CGLS, PCGLS, FISTA, LM, ProjectNonnegative, ProximalL1):
    lines, meta = [], []
    pre = yield ([f"pyint {_pynum(v)}" for _, v in MAXITS])
    for (name, v), out in zip(MAXITS, pre):
        ctx.case("glue-pyint", {"maxit": name})
        r, e = _run(lambda v=v: int(v))
        if out.startswith("ok:"):
            if e is not None or r != int(out[3:]):
                ctx.disagree("glue:pyint", {"maxit": name}, out, repr(e) if e else r, "Python int() differs from the model's pyInt")
        elif e is None:
            ctx.disagree("glue:pyint", {"maxit": name}, out, r, "Python int() returns where the model raises")
        else:
            _soft(ctx, "pyint-error-class", out == "err:" + type(e).__name__)
    for i in range(len(MAXITS) * (2 if sc > 1 else 1)):
        name, mv = MAXITS[i % len(MAXITS)]
        tok = _pynum(mv)
        A, b, x0 = _small_problem(rs, H.gen_matrix)
        m, n = A.shape
        shift = float(rs.choice([0.0, 0.5]))
        # ---- CGLS, both forms
        for form in ("mat", "fun"):
            opl = f"mat {qm(A)}" if form == "mat" else f"fun {qm(A)} {qm(A.T)}"
            lines.append(f"cglspy {opl} {qv(b)} {qv(x0)} {q(shift)} {q(1e-10)} {tok}")
            op = A if form == "mat" else H.fun_form(A)
            meta.append(("CGLS", form, name, {"A": A.tolist(), "b": b.tolist(), "x0": x0.tolist(), "shift": shift, "tol": 1e-10},
                         lambda op=op, A=A, b=b, x0=x0, shift=shift, mv=mv: CGLS(op, b.copy(), x0.copy(), mv, 1e-10, shift).solve(),
                         ("cg", A, b, x0, shift, lambda k, t, op=op, b=b, x0=x0, shift=shift: CGLS(op, b.copy(), x0.copy(), k, t, shift).solve())))
        # ---- PCGLS (default MAX_DIM_INV = explicit inverse; n >= 2 so the 1x1 quirk stays in its own stream)
        if n >= 2:
            P = H.gen_precond(rs, n, ["diag", "tri", "full"][i % 3])
            lines.append(f"pcsolve mat {qm(A)} {qm(P)} {qv(b)} {qv(x0)} {q(shift)} {q(1e-10)} {tok} 2000 0")
            meta.append(("PCGLS", "mat", name, {"A": A.tolist(), "P": P.tolist(), "b": b.tolist(), "x0": x0.tolist(), "shift": shift, "tol": 1e-10},
                         lambda A=A, b=b, x0=x0, P=P, shift=shift, mv=mv: PCGLS(A, b.copy(), x0.copy(), sp.csc_matrix(P), mv, 1e-10, shift).solve(),
                         ("cg", A, b, x0, 0.0, lambda k, t, A=A, b=b, x0=x0, P=P, shift=shift: PCGLS(A, b.copy(), x0.copy(), sp.csc_matrix(P), k, t, shift).solve())))
        # ---- FISTA / ISTA
        t = 2.0 ** math.floor(math.log2(1.0 / np.linalg.norm(A, 2) ** 2))
        kind = ["nonneg", "l1"][i % 2]
        lam = 0.5
        ptok = "nonneg" if kind == "nonneg" else f"l1:{q(lam)}"
        prox = (lambda x, g: ProjectNonnegative(x)) if kind == "nonneg" else (lambda x, g: ProximalL1(x, lam * g))
        ad = bool(i % 3)
        lines.append(f"fistapy mat {qm(A)} {qv(b)} {qv(x0)} {ptok} {q(t)} {q(1e-12)} {tok} {int(ad)}")
        meta.append(("FISTA" if ad else "ISTA", "mat", name, {"A": A.tolist(), "b": b.tolist(), "x0": x0.tolist(), "prox": ptok, "t": t, "adaptive": ad},
                     lambda A=A, b=b, x0=x0, prox=prox, t=t, ad=ad, mv=mv: FISTA(A, b.copy(), x0.copy(), prox, maxit=mv, stepsize=t, abstol=1e-12, adaptive=ad).solve(),
                     ("fista",)))
        # ---- LM (linear residual: exact rationals stay short)
        res = (lambda x, A=A, b=b: A @ x - b)
        jac = (lambda x, A=A: A)
        nuinit = float(np.linalg.norm(A.T @ res(x0)))
        if nuinit > 0:
            lines.append(f"lmpy {qm(A)} {qm(np.zeros_like(A))} {qv(b)} {qv(x0)} {q(nuinit)} {q(1e-3)} {q(1e-8)} {tok}")
            meta.append(("LM", "dense", name, {"M": A.tolist(), "b": b.tolist(), "x0": x0.tolist(), "nu0": 1e-3, "gradtol": 1e-8},
                         lambda res=res, jac=jac, x0=x0, mv=mv: (lambda r: (r[0], r[1]["nfev"]))(LM(res, x0.copy(), jac, maxit=mv, gradtol=1e-8, nu0=1e-3, sparse=False).solve()),
                         ("lm",)))
    outs = yield (lines)
    for (solver, form, name, d, call, orc), out in zip(meta, outs):
        desc = {"solver": solver, "form": form, "maxit": name, **d}
        ctx.case(f"glue-ctor-{solver.lower()}", desc)
        _cov(ctx, "glue_ctor_outcomes", f"{solver}:{'raises' if out.startswith('err:') else 'k=' + out.split('|')[0]}")
        key = f"{solver}:{form}:ctor-maxit"
        r, e = _run(call)
        if out.startswith("err:"):
            if e is None:
                ctx.disagree(key, desc, out, "returns", "constructor accepts a maxit the model's int() rejects")
            else:
                _soft(ctx, "ctor-error-class", out.split("|")[0] == "err:" + type(e).__name__)
            continue
        if "|" not in out:
            ctx.note(f"glue: model refuses ({out}) at {desc}")
            continue
        km, xm = out.split("|")[:2]
        km = int(km); xm = np.array([float(v) for v in pv(xm)])
        if e is not None:
            ctx.disagree(key, desc, out[:80], repr(e)[:120], "implementation raises, model returns")
            ctx.fail(key, desc, "a result", repr(e)[:120], f"{solver} raises for a finite maxit on a well-posed problem")
            continue
        xi, ki = np.asarray(r[0], dtype=float), int(r[1])
        ctol = _cgtol(H, np.array(d["A"]) @ np.linalg.inv(np.array(d["P"])) if "P" in d else np.array(d["A"])) if orc[0] == "cg" else 1e-8
        if ki != km or not _vc(ctx, f"ctor-{solver}", xi, xm, ctol):
            ctx.disagree(key, desc, [km, xm.tolist()], [ki, xi.tolist()], "result differs from the model (int(maxit) / loop budget)")
            # property oracle at this input: a run to convergence through the same constructor path must satisfy the optimality system
            if orc[0] == "cg":
                _, A, b, x0, shift, solve2 = orc
                H.converged_oracle(ctx, key, {**desc, "tol": 1e-10, "maxit": 200}, A, b, x0, shift, solve2)
            # the budget itself: more passes than int(maxit) allows is a wrong iteration count for the stated maxit
            mvf = dict(MAXITS)[name]
            if math.isfinite(float(mvf)) and ki > max(int(mvf), 1 if solver in ("FISTA", "ISTA") else 0):
                ctx.fail(key, desc, f"at most {max(int(mvf), 0)} iterations", ki, "more iterations than maxit")


# ----------------------------------------------------------------------------- PCGLS dispatch
class _Factor:
    """stand-in for sksparse.cholmod.Factor (same two methods PCGLS calls)"""
    def __init__(self, P):
        self.P = sp.csc_matrix(P)
    def solve_A(self, x, use_LDLt_decomposition=True):
        return sla.spsolve(self.P, x)
    def solve_At(self, x, use_LDLt_decomposition=True):
        return sla.spsolve(self.P.T.tocsc(), x)


def check_pcgls_dispatch(ctx, rs, sc, H, cuqi, S, PCGLS):
    lines, meta = [], []
    for i in range(30 * sc):
        n = [1, 2, 3, 1, 2][i % 5]
        A, b, x0 = _small_problem(rs, H.gen_matrix, n)
        P = H.gen_precond(rs, n, ["diag", "tri", "full"][i % 3])
        mdi = [0, 1, n, n + 1, 2000, 2][i % 6]
        hc = (i % 7 == 3) or (i % 10 == 9) or (i % 11 == 5)
        name, mv = [("0", 0), ("0.5", 0.5), ("1", 1), ("3", 3), ("7.9", 7.9), ("40", 40)][(i // 2) % 6]
        form = "mat" if i % 2 == 0 else "fun"
        opl = f"mat {qm(A)}" if form == "mat" else f"fun {qm(A)} {qm(A.T)}"
        lines.append(f"pcsolve {opl} {qm(P)} {qv(b)} {qv(x0)} 0 {q(1e-10)} {_pynum(mv)} {mdi} {int(hc)}")
        meta.append((A, b, x0, P, mdi, hc, name, mv, form))
    outs = yield (lines)
    old_mdi, old_hc, had_ch = cuqi.config.MAX_DIM_INV, S.has_cholmod, hasattr(S, "cholesky")
    old_ch = getattr(S, "cholesky", None)
    try:
        for (A, b, x0, P, mdi, hc, name, mv, form), out in zip(meta, outs):
            n = A.shape[1]
            desc = {"solver": "PCGLS", "form": form, "A": A.tolist(), "P": P.tolist(), "b": b.tolist(), "x0": x0.tolist(), "maxit": name,
                    "MAX_DIM_INV": mdi, "has_cholmod(stand-in)": hc, "tol": 1e-10}
            ctx.case("glue-pcgls-dispatch", desc)
            branch = out.split("|")[-1]
            _cov(ctx, "glue_pcgls_branch", f"{branch}:dim{'1' if n == 1 else 'N'}:{'raises' if out.startswith('err:') else 'runs'}")
            cuqi.config.MAX_DIM_INV = mdi
            S.has_cholmod = hc
            if hc:
                S.cholesky = lambda P_, ordering_method=None: _Factor(P_)
            op = A if form == "mat" else H.fun_form(A)
            Psp = sp.csc_matrix(P)
            r, e = _run(lambda: PCGLS(op, b.copy(), x0.copy(), Psp, mv, 1e-10).solve())
            key = f"PCGLS:{form}:dispatch:{branch}"
            if out.startswith("err:"):
                what = out.split("|")[0]
                if e is None:
                    ctx.disagree(key, desc, out, [np.asarray(r[0]).tolist(), int(r[1])], "implementation runs where the model's PCGLS raises")
                    continue
                # sizes consistent, P invertible, maxit >= 1 (or the cholmod branch): the property demands a solution
                fk = f"PCGLS:{form}:dim1:raises" if what == "err:inv1x1" else f"PCGLS:{form}:cholmod:raises"
                ctx.fail(fk, desc, "solution of the normal equations", repr(e)[:120], "PCGLS raises on a well-posed problem")
                continue
            if "|" not in out:
                ctx.note(f"glue: model refuses ({out}) at {desc}")
                continue
            km, xm = int(out.split("|")[0]), np.array([float(v) for v in pv(out.split("|")[1])])
            if e is not None:
                ctx.disagree(key, desc, out[:80], repr(e)[:120], "implementation raises, model runs")
                ctx.fail(key, desc, "solution of the normal equations", repr(e)[:120], "PCGLS raises on a well-posed problem")
                continue
            xi, ki = np.asarray(r[0], dtype=float), int(r[1])
            kap = H.eff_cond(A @ np.linalg.inv(P))
            exact_term = ki > km and km >= 1           # exact arithmetic terminated (gamma = 0), floats go on: judged by the oracle below
            if (ki != km and not exact_term) or (ki == km and not _vc(ctx, "pcgls-dispatch", xi, xm, max(1e-8, 1e-12 * kap ** 4))):
                ctx.disagree(key, desc, [km, xm.tolist()], [ki, xi.tolist()], "PCGLS result differs from the model")
                H.converged_oracle(ctx, key, {**desc, "maxit": 200}, A, b, x0, 0.0,
                                   lambda k, t: PCGLS(op, b.copy(), x0.copy(), Psp, k, t).solve())
            if int(mv) >= 40 and np.all(np.isfinite(xi)):
                s = A.T @ (b - A @ xi)
                if np.linalg.norm(s) > 1e-7 * (1 + np.linalg.norm(A.T @ b) + np.linalg.norm(A.T @ (b - A @ x0))):
                    ctx.fail(key + ":normal-equations", desc, "A^T(b - A x) ~ 0", float(np.linalg.norm(s)),
                             "run to convergence, the returned point does not solve the normal equations")
    finally:
        cuqi.config.MAX_DIM_INV, S.has_cholmod = old_mdi, old_hc
        if had_ch:
            S.cholesky = old_ch
        elif hasattr(S, "cholesky"):
            del S.cholesky


# ----------------------------------------------------------------------------- dtype of the iterate
DTYPES = ["bool", "int8", "uint8", "int16", "uint16", "int32", "uint32", "int64", "uint64", "float16", "float32", "float64",
          "longdouble", "complex64", "complex128"]


def check_dtype(ctx, rs, H, CGLS, PCGLS):
    outs = yield ([f"dtype {d}" for d in DTYPES])
    A = np.array([[2.0, 1.0], [1.0, 3.0], [0.0, 1.0]]); b = np.array([1.0, 2.0, 3.0])
    for d, out in zip(DTYPES, outs):
        prom, wide = out.split("|")
        x0 = np.array([1, 0]).astype(np.dtype(d))
        for solver in ("CGLS", "PCGLS"):
            desc = {"solver": solver, "x0_dtype": d, "maxit": 0}
            ctx.case("glue-dtype", desc)
            if solver == "CGLS":
                r, e = _run(lambda: CGLS(A, b, x0, 0).solve())
            else:
                r, e = _run(lambda: PCGLS(A, b, x0, sp.identity(2, format="csc"), 0).solve())
            if e is not None:
                if not d.startswith("complex"):
                    ctx.disagree(f"{solver}:x0-dtype:{d}", desc, prom, repr(e)[:100], "solver raises for a real start vector of this dtype")
                    ctx.fail(f"{solver}:x0-dtype:{d}", desc, "a result", repr(e)[:100], "solver raises for a real start vector")
                continue
            got = np.asarray(r[0]).dtype
            _soft(ctx, "promoted-dtype", got == np.dtype(prom))
            if wide == "1" and not d.startswith("complex") and got.itemsize < 8:
                ctx.disagree(f"{solver}:x0-dtype:{d}", desc, prom, str(got), "iterate narrower than double precision")
                ctx.fail(f"{solver}:x0-dtype:{d}", desc, "iterate in (at least) double precision", str(got),
                         "the start vector's dtype fixes a narrower precision of the iterate")
            if not d.startswith("complex") and not np.array_equal(np.asarray(r[0], dtype=float), np.asarray(x0, dtype=float)):
                ctx.fail(f"{solver}:x0-dtype:{d}", desc, x0.tolist(), np.asarray(r[0]).tolist(), "maxit = 0 does not return the start vector's values")


# ----------------------------------------------------------------------------- L_BFGS_B whole translation
def check_lbfgsb_table(ctx, S, L_BFGS_B):
    wfs = [0, 1, 2, 3, -1, 7]
    outs = yield ([f"lbinfo {wf}" for wf in wfs] + ["lbcall 0 _", "lbcall 1 _", "lbcall 1 m,maxiter,bounds", "lbcall 0 factr,pgtol"])
    orig = S.fmin_l_bfgs_b
    try:
        for wf, out in zip(wfs, outs):
            seen = {}
            def stub(func, x0, fprime=None, approx_grad=None, **kw):
                return (np.array([1.0]), 2.0, {"warnflag": wf, "task": "TASK", "grad": np.array([3.0]), "nit": 4, "funcalls": 5})
            S.fmin_l_bfgs_b = stub
            d = {"wrapper": "L_BFGS_B", "scripted_warnflag": wf, "tagged": True}
            ctx.case("glue-lbfgsb-info", d)
            sol, info = L_BFGS_B(lambda x: 0.0, np.zeros(1)).solve()
            got = (f"x={int(np.asarray(sol)[0])} success={int(info['success'])} func={int(info['func'])} grad={int(np.asarray(info['grad'])[0])} "
                   f"nit={int(info['nit'])} nfev={int(info['nfev'])} msg={info['message']}")
            if got != out or set(info) != {"success", "message", "func", "grad", "nit", "nfev"}:
                ctx.disagree("L_BFGS_B:table", d, out, got, "info translation differs from the model's wrapLbfgsb")
                ctx.fail("L_BFGS_B:table", d, out, got, "wrapper does not pass SciPy's result through unchanged")
        calls = [(False, {}), (True, {}), (True, {"m": 5, "maxiter": 3, "bounds": None}), (False, {"factr": 10.0, "pgtol": 1e-5})]
        for (hg, kw), out in zip(calls, outs[len(wfs):]):
            seen = {}
            def stub(func, x0, fprime=None, approx_grad=None, **k):
                seen.update(fprime=fprime, approx_grad=approx_grad, kw=list(k))
                return (np.array([1.0]), 2.0, {"warnflag": 0, "task": "T", "grad": np.array([3.0]), "nit": 4, "funcalls": 5})
            S.fmin_l_bfgs_b = stub
            d = {"wrapper": "L_BFGS_B", "gradfunc": hg, "kwargs": list(kw)}
            ctx.case("glue-lbfgsb-call", d)
            gf = (lambda x: x) if hg else None
            L_BFGS_B(lambda x: 0.0, np.zeros(1), gradfunc=gf, **kw).solve()
            got = f"fprime={int(seen.get('fprime') is not None)} approx_grad={seen.get('approx_grad')} {','.join(seen.get('kw', [])) or '_'}"
            if got != out or (hg and seen.get("fprime") is not gf):
                ctx.disagree("L_BFGS_B:table", d, out, got, "call handed to fmin_l_bfgs_b differs from the model's lbfgsbCall")
                ctx.fail("L_BFGS_B:table", d, out, got, "wrapper does not forward its arguments to SciPy unchanged")
    finally:
        S.fmin_l_bfgs_b = orig


# ----------------------------------------------------------------------------- LS: call, SciPy's acceptance, info
def check_ls_call(ctx, rs, sc, H, S, LS):
    B = np.array([[2.0, 1.0], [1.0, 3.0], [0.0, 1.0]]); c = np.array([1.0, 2.0, 3.0])
    # nonlinear residual: where SciPy stops depends on xtol / max_nfev / loss, so a wrongly forwarded argument changes the result
    r = lambda x: (B @ x - c) + 0.2 * (B @ x) ** 2
    J = lambda x: (1.0 + 0.4 * (B @ x))[:, None] * B          # fresh array: SciPy scales the Jacobian in place for robust losses
    jacs = [("None", None), ("callable", J), ("str:2-point", "2-point"), ("str:3-point", "3-point"), ("str:cs", "cs"), ("str:bogus", "bogus")]
    cases = []
    for i in range(18 * sc):
        jt, jv = jacs[i % 6]
        method = ["trf", "dogbox", "lm"][(i // 6) % 3]
        loss = "linear" if method == "lm" else ["linear", "soft_l1", "huber"][i % 3]
        tol = [1e-8, 0.25, 0.015625][i % 3]
        mname, mv = [("200", 200), ("3.9", 3.9), ("1e4", 1e4), ("True", True), ("nan", float("nan")), ("inf", float("inf")), ("2", 2)][(i // 2) % 7]
        cases.append((jt, jv, method, loss, tol, mname, mv))
    lines = [f"lscall {jt} {method} {loss} {q(tol)} {_pynum(mv)}" for jt, jv, method, loss, tol, mname, mv in cases] + ["lscall default", "lsinfo"]
    outs = yield (lines)
    orig = S.least_squares
    rec = {}
    def spy(fun, x0, **kw):
        rec.clear(); rec.update(kw)
        return orig(fun, x0, **kw)
    try:
        S.least_squares = spy
        for (jt, jv, method, loss, tol, mname, mv), out in zip(cases + [("None", None, "trf", "linear", 1e-6, "default", 1e4)], outs[:-1]):
            default = (mname == "default")
            d = {"wrapper": "LS", "jacfun": jt, "method": method, "loss": loss, "tol": tol, "maxit": mname}
            ctx.case("glue-ls-call", d)
            rec.clear()
            x0 = np.array([0.5, -1.0])
            if default:
                res, e = _run(lambda: LS(r, x0.copy()).solve())
            else:
                res, e = _run(lambda: LS(r, x0.copy(), jacfun=jv, method=method, loss=loss, tol=tol, maxit=mv).solve())
            _cov(ctx, "glue_ls_outcomes", out.split("|")[-1])
            if out.startswith("err:"):
                if e is None:
                    ctx.disagree("LS:ctor-maxit", d, out, "returns", "constructor accepts a maxit the model's int() rejects")
                else:
                    _soft(ctx, "ctor-error-class", out == "err:" + type(e).__name__)
                continue
            mj, mm, ml, mx, mn, acc = out.split("|")
            if rec:
                gj = "None" if rec.get("jac") is None else ("callable" if callable(rec.get("jac")) else "str:" + str(rec.get("jac")))
                xt = rec.get("xtol")
                got = [gj, rec.get("method"), rec.get("loss"), mx if (isinstance(xt, (int, float)) and float(xt) == float(Fraction(mx))) else repr(xt),
                       str(rec.get("max_nfev"))]
                if got != [mj, mm, ml, mx, mn] or (callable(jv) and rec.get("jac") is not jv):
                    ctx.disagree("LS:call", d, [mj, mm, ml, mx, mn], got, "call handed to scipy.optimize.least_squares differs from the model's lsCall")
                    # oracle: the result must be SciPy's for the arguments the user gave
                    ref, e2 = _run(lambda: sopt.least_squares(r, x0.copy(), jac=jv, method=method, loss=loss, xtol=tol, max_nfev=int(mv)))
                    if (e is None) != (e2 is None) or (e is None and not H.same(res[0], ref["x"])):
                        ctx.fail("LS:call", d, "SciPy's result for the given arguments", repr(e)[:80] if e else np.asarray(res[0]).tolist(),
                                 "LS does not hand its arguments to SciPy unchanged")
                _soft(ctx, "ls-extra-keywords", set(rec) == {"jac", "method", "loss", "xtol", "max_nfev"})
            if acc == "reject":
                if e is None:
                    ctx.disagree("LS:call:jac-accepted", d, "SciPy rejects jac", "returns", "SciPy accepts a `jac` the model says it rejects")
                elif jt == "None":
                    ref, _ = _run(lambda: sopt.least_squares(r, x0.copy(), method=method, loss=loss, xtol=tol, max_nfev=int(mv)))
                    ctx.fail("LS:jacfun-none:raises", d, ref["x"].tolist() if ref is not None else "SciPy's result", repr(e)[:120],
                             "LS with the documented default jacfun=None raises instead of returning SciPy's result")
                continue
            ref, e2 = _run(lambda: sopt.least_squares(r, x0.copy(), jac=jv, method=method, loss=loss, xtol=tol, max_nfev=int(mv)))
            if (e is None) != (e2 is None):
                ctx.disagree("LS:passthrough", d, repr(e2)[:80] if e2 else "returns", repr(e)[:80] if e else "returns", "differs from the direct SciPy call")
                ctx.fail("LS:passthrough", d, repr(e2)[:80] if e2 else "returns", repr(e)[:80] if e else "returns", "wrapper does not return SciPy's result unchanged")
            elif e is None:
                sol, info = res
                ok = H.same(sol, ref["x"]) and H.same(info["func"], ref["fun"]) and H.same(info["jac"], ref["jac"]) and info["nfev"] == ref["nfev"] \
                    and info["success"] == ref["success"] and info["message"] == ref["message"]
                if not ok:
                    ctx.disagree("LS:passthrough", d, ref["x"].tolist(), np.asarray(sol).tolist(), "differs from the direct SciPy call")
                    ctx.fail("LS:passthrough", d, ref["x"].tolist(), np.asarray(sol).tolist(), "wrapper does not return SciPy's result unchanged")
        # ---- info dictionary on tagged fields
        class _R(dict):
            pass
        def stub(fun, x0, **kw):
            return _R(x=np.array([1.0]), fun=np.array([2.0]), jac=np.array([[3.0]]), nfev=4, success=True, message="M")
        S.least_squares = stub
        d = {"wrapper": "LS", "tagged": True}
        ctx.case("glue-ls-info", d)
        sol, info = LS(r, np.zeros(1), jacfun=J).solve()
        got = (f"x={int(np.asarray(sol)[0])} success={int(info['success'])} msg={info['message']} func={int(np.asarray(info['func'])[0])} "
               f"jac={int(np.asarray(info['jac'])[0, 0])} nfev={int(info['nfev'])}")
        if got != outs[-1] or set(info) != {"success", "message", "func", "jac", "nfev"}:
            ctx.disagree("LS:passthrough", d, outs[-1], got, "info translation differs from the model's wrapLS")
            ctx.fail("LS:passthrough", d, outs[-1], got, "wrapper does not return SciPy's result unchanged")
    finally:
        S.least_squares = orig


# ----------------------------------------------------------------------------- CUQIarray re-wrapping
def check_rewrap(ctx, rs, H, cuqi, minimize, maximize, LS, L_BFGS_B):
    from cuqi.array import CUQIarray
    from cuqi.geometry import Continuous1D, Discrete
    B = np.array([[2.0, 1.0], [1.0, 3.0], [0.0, 1.0]]); c = np.array([1.0, 2.0, 3.0])
    f = lambda x: float(0.5 * np.sum((B @ np.asarray(x) - c) ** 2))
    g = lambda x: B.T @ (B @ np.asarray(x) - c)
    r = lambda x: B @ np.asarray(x) - c
    J = lambda x: B
    combos = [(w, cq, gi) for w in ("minimize", "maximize", "LS", "L_BFGS_B") for cq in (0, 1) for gi in (0, 1)]
    outs = yield ([f"rewrap {w} {cq}" for w, cq, gi in combos])
    for (w, cq, gi), out in zip(combos, outs):
        geom = Continuous1D(2) if gi == 0 else Discrete(["a", "b"])
        base = np.array([0.5, -1.0])
        x0 = CUQIarray(base.copy(), geometry=geom) if cq else base.copy()
        d = {"wrapper": w, "x0": "CUQIarray" if cq else "ndarray", "geometry": type(geom).__name__}
        ctx.case("glue-rewrap", d)
        with quiet():
            if w == "minimize":
                sol, info = minimize(f, x0, gradfunc=g).solve(); ref = sopt.minimize(f, base.copy(), jac=g)["x"]
            elif w == "maximize":
                sol, info = maximize(lambda x: -f(x), x0, gradfunc=lambda x: -g(x)).solve(); ref = sopt.minimize(f, base.copy(), jac=g)["x"]
            elif w == "LS":
                sol, info = LS(r, x0, jacfun=J).solve(); ref = sopt.least_squares(r, base.copy(), jac=J, xtol=1e-6, max_nfev=10000)["x"]
            else:
                sol, info = L_BFGS_B(f, x0, gradfunc=g).solve(); ref = sopt.fmin_l_bfgs_b(f, base.copy(), fprime=g)[0]
        if not H.same(np.asarray(sol), ref):
            ctx.disagree(f"{w}:passthrough", d, ref.tolist(), np.asarray(sol).tolist(), "values differ from the direct SciPy call")
            ctx.fail(f"{w}:passthrough", d, ref.tolist(), np.asarray(sol).tolist(), "wrapper does not return SciPy's result unchanged")
        kind = "cuqi" if isinstance(sol, CUQIarray) else "plain"
        if kind == "cuqi" and cq and sol.geometry is not x0.geometry:
            kind = "cuqi-other-geometry"
        if w == "L_BFGS_B":
            _soft(ctx, "lbfgsb-return-type", kind == out)     # `solution[0]` as SciPy returns it: not judged
        elif kind != out:
            ctx.disagree(f"{w}:rewrap", d, out, kind, "type/geometry of the returned solution differs from the model's wrapperSolution")
            if cq and kind != "cuqi":
                ctx.fail(f"{w}:rewrap", d, "CUQIarray with the geometry of x0", kind, "a CUQIarray start vector does not come back as a CUQIarray with its geometry")
            elif not cq:
                ctx.fail(f"{w}:rewrap", d, "SciPy's ndarray", kind, "wrapper does not return SciPy's result unchanged")


# ----------------------------------------------------------------------------- LM with a non-callable A
def check_lm_explicit(ctx, rs, sc, H, LM):
    lines, meta = [], []
    for i in range(20 * sc):
        n = int(rs.randint(1, 4)); m = int(rs.randint(n, n + 3))
        A = H.gen_matrix(rs, m, n, False)
        Jf = A if i % 2 == 0 else H.gen_matrix(rs, m, n, False)
        x0 = np.zeros(n) if i % 7 == 3 else rs.randint(-3, 4, size=n).astype(float)
        gradtol = [1e-8, 2.0, -1.0, 1.0, 0.5][i % 5]
        name, mv = [("5", 5), ("1", 1), ("0", 0), ("2.5", 2.5), ("0.5", 0.5), ("3", 3)][i % 6]
        sparse = bool((i // 2) % 2)
        lines.append(f"lmexp {qm(A)} {qm(Jf)} {qv(x0)} {q(gradtol)} {_pynum(mv)}")
        meta.append((A, Jf, x0, gradtol, name, mv, sparse))
    outs = yield (lines)
    for (A, Jf, x0, gradtol, name, mv, sparse), out in zip(meta, outs):
        d = {"solver": "LM", "A": A.tolist(), "jacfun": Jf.tolist(), "x0": x0.tolist(), "gradtol": gradtol, "maxit": name, "sparse": sparse, "explicitA": True}
        ctx.case("glue-lm-explicit", d)
        _cov(ctx, "glue_lm_explicit", out.split("|")[0])
        r, e = _run(lambda: LM(A, x0.copy(), Jf, maxit=mv, gradtol=gradtol, sparse=sparse).solve())
        if out.startswith("err"):
            # soft: the branch cannot work in the unchanged code; a version in which it works is judged by stationarity only
            _soft(ctx, "lm-explicit-raises", e is not None)
            if e is None:
                x = np.asarray(r[0], dtype=float)
                gr = Jf.T @ (A @ x)
                if not np.all(np.isfinite(x)) or np.linalg.norm(gr) > 1e-6 * (1 + np.linalg.norm(Jf.T @ (A @ x0))):
                    ctx.disagree("LM:explicit:stationary", d, out, x.tolist(), "non-callable branch returns where the model raises")
                    ctx.fail("LM:explicit:stationary", d, "stationary point", float(np.linalg.norm(gr)), "LM (matrix form) returns a non-stationary point")
            continue
        if e is not None:
            _soft(ctx, "lm-explicit-returns", False)
            continue
        _soft(ctx, "lm-explicit-returns", True)
        _, rm, Jm = out.split("|")
        x, info = r
        ok = np.array_equal(np.asarray(x, dtype=float), x0) and _vc(ctx, "lm-explicit-func", np.asarray(info["func"], dtype=float), [float(v) for v in pv(rm)], 1e-12) \
            and _vc(ctx, "lm-explicit-Jac", np.asarray(info["Jac"], dtype=float), [float(v) for v in pv(Jm)], 1e-12) and info["nfev"] == 0
        if not ok:
            ctx.disagree("LM:explicit:no-iteration", d, [x0.tolist(), rm, Jm, 0], [np.asarray(x).tolist(), np.asarray(info["func"]).tolist(), info["nfev"]],
                         "without a loop pass LM must return x0 and info of x0")
            if not np.array_equal(np.asarray(x, dtype=float), x0):
                ctx.fail("LM:explicit:no-iteration", d, x0.tolist(), np.asarray(x).tolist(), "LM changes the start vector without iterating")


# ----------------------------------------------------------------------------- negative tolerances (Props/C16_stops.lean)
def check_negative_tolerances(ctx, rs, sc, H, CGLS, PCGLS, LM):
    """tol < 0 (CGLS/PCGLS): never an early return unless started at a solution; gradtol < 0 (LM): exactly maxit passes"""
    lines, meta = [], []
    for i in range(16 * sc):
        at_solution = (i % 8 == 7)
        A, b, x0 = _small_problem(rs, H.gen_matrix, None if at_solution else int(rs.randint(2, 4)))
        m, n = A.shape
        shift = float(rs.choice([0.0, 0.5]))
        # |tol| of order 1: a stopping rule that looks at |tol| would accept the first iterate
        tol = [-1.0, -0.5, -1e-3, -2.0 ** -20][i % 4]
        if at_solution:
            b = A @ x0; shift = 0.0                     # consistent system, start = solution: s0 = 0 exactly (small integers)
        maxit = n if not at_solution else int(rs.randint(1, n + 1))      # <= n: exact arithmetic has not terminated (gamma = 0) before the last pass
        lines.append(f"cglspy mat {qm(A)} {qv(b)} {qv(x0)} {q(shift)} {q(tol)} {maxit}")
        meta.append(("CGLS", {"A": A.tolist(), "b": b.tolist(), "x0": x0.tolist(), "shift": shift, "tol": tol, "maxit": maxit, "at_solution": at_solution},
                     lambda A=A, b=b, x0=x0, shift=shift, tol=tol, maxit=maxit: CGLS(A, b.copy(), x0.copy(), maxit, tol, shift).solve(), maxit, at_solution))
        if n >= 2:
            P = H.gen_precond(rs, n, ["diag", "tri", "full"][i % 3])
            lines.append(f"pcsolve mat {qm(A)} {qm(P)} {qv(b)} {qv(x0)} 0 {q(tol)} {maxit} 2000 0")
            meta.append(("PCGLS", {"A": A.tolist(), "P": P.tolist(), "b": b.tolist(), "x0": x0.tolist(), "tol": tol, "maxit": maxit, "at_solution": at_solution},
                         lambda A=A, b=b, x0=x0, P=P, tol=tol, maxit=maxit: PCGLS(A, b.copy(), x0.copy(), sp.csc_matrix(P), maxit, tol).solve(), maxit, at_solution))
        res = (lambda x, A=A, b=b: A @ x - b)
        jac = (lambda x, A=A: A)
        nuinit = float(np.linalg.norm(A.T @ res(x0)))
        mi = int(rs.randint(0, 4))
        gt = float(rs.choice([-1.0, -1e-8]))
        lines.append(f"lmpy {qm(A)} {qm(np.zeros_like(A))} {qv(b)} {qv(x0)} {q(nuinit)} {q(1e-3)} {q(gt)} {mi}")
        meta.append(("LM", {"M": A.tolist(), "b": b.tolist(), "x0": x0.tolist(), "gradtol": gt, "maxit": mi, "at_solution": at_solution, "g0": nuinit},
                     lambda res=res, jac=jac, x0=x0, mi=mi, gt=gt: (lambda r: (r[0], r[1]["nfev"]))(LM(res, x0.copy(), jac, maxit=mi, gradtol=gt, sparse=False).solve()),
                     mi, nuinit == 0))
    outs = yield (lines)
    for (solver, d, call, maxit, at_sol), out in zip(meta, outs):
        desc = {"solver": solver, **d}
        ctx.case(f"glue-negtol-{solver.lower()}", desc)
        key = f"{solver}:negative-tolerance"
        if "|" not in out:
            ctx.note(f"glue: model refuses ({out}) at {desc}")
            continue
        km, xm = int(out.split("|")[0]), np.array([float(v) for v in pv(out.split("|")[1])])
        _cov(ctx, "glue_negative_tolerance", f"{solver}:{'at-solution' if at_sol else 'generic'}:k={'maxit' if km == maxit else km}")
        r, e = _run(call)
        if e is not None:
            ctx.disagree(key, desc, out[:80], repr(e)[:100], "implementation raises, model returns")
            ctx.fail(key, desc, "a result", repr(e)[:100], f"{solver} raises on a well-posed problem")
            continue
        xi, ki = np.asarray(r[0], dtype=float), int(r[1])
        Aop = np.array(d.get("A", d.get("M")))
        ntol = _cgtol(H, Aop @ np.linalg.inv(np.array(d["P"])) if "P" in d else Aop) if solver != "LM" else 1e-8
        if ki != km or not _vc(ctx, f"negtol-{solver}", xi, xm, ntol):
            ctx.disagree(key, desc, [km, xm.tolist()], [ki, xi.tolist()], "run with a negative tolerance differs from the model")
            # the property at this input: an early return claims convergence; the optimality system must then hold
            if ki < maxit and not at_sol:
                A = np.array(d.get("A", d.get("M"))); b = np.array(d["b"]); sh = d.get("shift", 0.0)
                s = A.T @ (b - A @ xi) - sh * xi
                if np.linalg.norm(s) > 1e-7 * (1 + np.linalg.norm(A.T @ b)):
                    ctx.fail(key, desc, "optimality system ~ 0 on an early return", float(np.linalg.norm(s)),
                             f"{solver} returns early with a negative tolerance at a point that does not satisfy its optimality system")


# ----------------------------------------------------------------------------- LM damping loop: branches of accept/reject + nu update
def check_lm_damping(ctx, rs, sc, H, LM):
    """branch histogram of the model's damping loop (R rejected; accepted: U nu raised, S kept, H halved, Z set to 0) on problems
    built to reach every branch, and the reject pattern of the real code (x_j == x_{j-1} when re-run with maxit = j) against it"""
    lines, meta = [], []
    for i in range(20 * sc):
        n = int(rs.randint(1, 3)); m = int(rs.randint(n, n + 2))
        M = H.gen_matrix(rs, m, n, False)
        strong = (i % 2 == 0)
        Q = (rs.randint(-2, 3, size=(m, n)) * (rs.rand(m, n) < 0.7)) / (1.0 if strong else 8.0)
        b = rs.randint(-4, 5, size=m).astype(float)
        x0 = rs.randint(-3, 4, size=n) / (1.0 if strong else 2.0)
        res = (lambda x, M=M, Q=Q, b=b: M @ x + Q @ (x * x) - b)
        jac = (lambda x, M=M, Q=Q: M + 2 * Q * x[None, :])
        nuinit = float(np.linalg.norm(jac(x0).T @ res(x0)))
        if nuinit == 0:
            continue
        # nu0 relative to the initial damping |g0|: far below (never floors), at it, above it (floors / Gauss-Newton switch)
        nu0 = [1e-3, 2.0 ** math.floor(math.log2(nuinit)), 2.0 ** (math.floor(math.log2(nuinit)) + 2), 2.0 ** (math.floor(math.log2(nuinit)) - 2)][i % 4]
        maxit = 3 if strong else 4
        sparse = bool((i // 2) % 2)
        lines.append(f"lmtrace {qm(M)} {qm(Q)} {qv(b)} {qv(x0)} {q(nuinit)} {q(nu0)} {q(1e-8)} {maxit}")
        meta.append((M, Q, b, x0, nu0, maxit, sparse, res, jac, nuinit))
    outs = yield lines
    for (M, Q, b, x0, nu0, maxit, sparse, res, jac, nuinit), out in zip(meta, outs):
        desc = {"solver": "LM", "M": M.tolist(), "Q": Q.tolist(), "b": b.tolist(), "x0": x0.tolist(), "nu0": nu0, "gradtol": 1e-8, "maxit": maxit,
                "sparse": sparse, "g0": nuinit}
        ctx.case("glue-lm-damping", desc)
        if "|" not in out:
            ctx.note(f"glue: LM model refuses ({out}) at {desc}")
            continue
        im, codes, mono = out.split("|")
        codes = [] if codes == "_" else codes.split(",")
        for c in codes:
            _cov(ctx, "glue_lm_damping_branches", c)
        _soft(ctx, "lm-model-f-monotone", mono == "1")
        jf = (lambda x: sp.csr_matrix(jac(x))) if sparse else jac
        key = f"LM:{'sparse' if sparse else 'dense'}:damping"
        xs = []
        try:
            with quiet():
                for j in range(int(im) + 1):
                    x, info = LM(res, x0.copy(), jf, maxit=j, gradtol=1e-8, nu0=nu0, sparse=sparse).solve()
                    xs.append(np.asarray(x, dtype=float))
        except Exception as e:      # noqa: BLE001
            ctx.disagree(key, desc, out, repr(e)[:100], "implementation raises")
            ctx.fail(key, desc, "a result", repr(e)[:100], "LM raises on a well-posed problem")
            continue
        got = ["R" if np.array_equal(xs[j], xs[j - 1]) else "A" for j in range(1, len(xs))]
        exp = ["R" if c == "R" else "A" for c in codes]
        fs = [0.5 * float(np.sum(res(x) ** 2)) for x in xs]
        _soft(ctx, "lm-impl-f-monotone", all(fs[j] <= fs[j - 1] * (1 + 1e-12) for j in range(1, len(fs))))
        if got != exp:
            # the accept test looks at the SIGN of f - ftemp: once the iteration has converged to working precision that difference is
            # rounding noise and the decision may legitimately differ from exact arithmetic — tolerated only there (counted)
            j = next(t for t in range(min(len(got), len(exp))) if got[t] != exp[t]) if len(got) == len(exp) else 0
            gj = float(np.linalg.norm(jac(xs[j]).T @ res(xs[j])))
            if len(got) == len(exp) and gj <= 1e-6 * nuinit:
                _soft(ctx, "lm-damping-decision-at-rounding-level", True)
                continue
            ctx.disagree(key, desc, exp, got, "accept/reject pattern of the damping loop differs from the model")
            H.lm_stop_oracle(ctx, key, desc, res, jac, x0, xs[-1], int(im), maxit, 1e-8)
            H.oracle_lm(ctx, key, desc, res, jac, jf, x0, nu0, sparse, LM)


# ----------------------------------------------------------------------------- maxit re-assigned after construction
ASSIGNED = [("2.5", 2.5), ("0.3", 0.3), ("-1.5", -1.5), ("3.0", 3.0), ("1e-9", 1e-9), ("2", 2), ("1.0000001", 1.0000001),
            ("nan", float("nan")), ("-inf", -float("inf")), ("np.float32(1.5)", np.float32(1.5))]


def check_assigned_maxit(ctx, rs, sc, H, CGLS, FISTA, LM, ProjectNonnegative):
    """`solver.maxit = q` after construction: the code applies no int(); the model (`budgetAssigned`) gives ceil(q) passes.
    Hard: the result equals the model recurrence at the budget of the raw number OR at the constructor's budget int(q) (a version
    that converts on assignment is equally fine for the property); never more passes than ceil(q).  Soft: which of the two."""
    outs = yield [f"asbudget {_pynum(v)}" for _, v in ASSIGNED]
    budgets = []
    for out in outs:
        d = dict(kv.split("=") for kv in out.split())
        budgets.append(d)
    lines, meta = [], []
    for i, ((name, v), bd) in enumerate(zip(ASSIGNED, budgets)):
        A, b, x0 = _small_problem(rs, H.gen_matrix, int(rs.randint(2, 4)))
        t = 2.0 ** math.floor(math.log2(1.0 / np.linalg.norm(A, 2) ** 2))
        res = (lambda x, A=A, b=b: A @ x - b)
        jac = (lambda x, A=A: A)
        nuinit = float(np.linalg.norm(A.T @ res(x0)))
        for solver in ("CGLS", "FISTA", "LM"):
            key_b = "fista" if solver == "FISTA" else "assigned"
            cands = [bd[key_b]] + ([bd["ctor"]] if not bd["ctor"].startswith("err") else [])
            if "unbounded" in cands[0] or (solver == "LM" and nuinit == 0):
                continue
            for n in dict.fromkeys(cands):
                if solver == "CGLS":
                    lines.append(f"cglspy mat {qm(A)} {qv(b)} {qv(x0)} 0 {q(1e-12)} {n}")
                elif solver == "FISTA":
                    lines.append(f"fistapy mat {qm(A)} {qv(b)} {qv(x0)} nonneg {q(t)} {q(1e-13)} {n} 1")
                else:
                    lines.append(f"lmpy {qm(A)} {qm(np.zeros_like(A))} {qv(b)} {qv(x0)} {q(nuinit)} {q(1e-3)} {q(1e-10)} {n}")
                meta.append((solver, name, v, n, n == cands[0], A, b, x0, t, res, jac))
    outs = yield lines
    groups = {}
    for (solver, name, v, n, is_assigned, A, b, x0, t, res, jac), out in zip(meta, outs):
        groups.setdefault((solver, name), []).append((n, is_assigned, out, v, A, b, x0, t, res, jac))
    for (solver, name), lst in groups.items():
        n, _, _, v, A, b, x0, t, res, jac = lst[0]
        desc = {"solver": solver, "maxit_assigned": name, "A": A.tolist(), "b": b.tolist(), "x0": x0.tolist()}
        ctx.case("glue-assigned-maxit", desc)
        def call():
            if solver == "CGLS":
                s_ = CGLS(A, b.copy(), x0.copy(), 10, 1e-12, 0); s_.maxit = v; return s_.solve()
            if solver == "FISTA":
                s_ = FISTA(A, b.copy(), x0.copy(), lambda x, g: ProjectNonnegative(x), maxit=10, stepsize=t, abstol=1e-13, adaptive=True); s_.maxit = v
                return s_.solve()
            s_ = LM(res, x0.copy(), jac, maxit=10, gradtol=1e-10, nu0=1e-3, sparse=False); s_.maxit = v
            x, info = s_.solve(); return x, info["nfev"]
        r, e = _run(call)
        key = f"{solver}:assigned-maxit"
        if e is not None:
            _soft(ctx, "assigned-maxit-raises", False)       # a version that validates on assignment may raise for nan / -inf
            if math.isfinite(float(v)):
                ctx.disagree(key, desc, [o[2][:60] for o in lst], repr(e)[:100], "implementation raises for a finite re-assigned maxit")
                ctx.fail(key, desc, "a result", repr(e)[:100], f"{solver} raises on a well-posed problem")
            continue
        xi, ki = np.asarray(r[0], dtype=float), int(r[1])
        match = None
        for (n_, is_assigned, out, *_rest) in lst:
            if "|" in out:
                km, xm = int(out.split("|")[0]), np.array([float(t_) for t_ in pv(out.split("|")[1])])
                if km == ki and _vc(ctx, f"assigned-{solver}", xi, xm, _cgtol(H, A) if solver == "CGLS" else 1e-8):
                    match = "raw-number (ceil)" if is_assigned else "int()"
                    break
        if match is None:
            ctx.disagree(key, desc, [o[2][:80] for o in lst], [ki, xi.tolist()], "result matches neither the raw-number budget nor the int() budget")
            cap = int(lst[0][0]) if solver != "FISTA" else max(int(lst[0][0]), 1)
            if ki > cap:
                ctx.fail(key, desc, f"at most {cap} passes", ki, "more iterations than the re-assigned maxit allows")
        else:
            _cov(ctx, "glue_assigned_maxit", f"{solver}:{match}")


# ----------------------------------------------------------------------------- callables that return arrays the caller keeps
def _stored_gradient(style, f_of, g_of, n):
    """(func, gradfunc, audit) with a gradient callback that returns an array the user keeps: `buffer` = preallocated work array
    overwritten on every call, `cached` = memoised per point.  audit() -> None | description of a user-owned array that no
    longer holds what the callback wrote into it."""
    if style == "buffer":
        buf = np.zeros(n); last = {}
        def g(x):
            buf[...] = g_of(x); last["x"] = np.array(x, dtype=float); return buf
        def audit():
            if "x" in last and not np.array_equal(buf, g_of(last["x"])):
                return f"work buffer holds {buf.tolist()} instead of the gradient {np.asarray(g_of(last['x'])).tolist()} written last"
        return f_of, g, audit
    cache = {}
    def g(x):
        k = np.asarray(x, dtype=float).tobytes()
        if k not in cache:
            cache[k] = np.array(g_of(x), dtype=float)
        return cache[k]
    def audit():
        bad = [k for k, v in cache.items() if not np.array_equal(v, g_of(np.frombuffer(k, dtype=float)))]
        if bad:
            return f"{len(bad)} of {len(cache)} memoised gradients changed"
    return f_of, g, audit


def check_stored_buffer_callables(ctx, rs, sc, H, minimize, maximize, L_BFGS_B, LS, FISTA, ProjectNonnegative):
    """input class: func / gradfunc / jacfun / proximal callables that hand back an array the caller owns (stored constant
    gradient of a linear objective, reused work buffer, memoised gradient).  Demanded: (a) the wrapper's result is SciPy's result —
    for `maximize` of (-func, -grad) evaluated with fresh arrays, for the pass-through wrappers of an independent identical callable;
    (b) the caller's arrays still hold what the caller put there (byte-compared)."""
    sopt_ = sopt
    for i in range(12 * sc):
        n = int(rs.randint(2, 6))
        x0 = np.full(n, 0.5) + rs.randint(-1, 2, size=n) / 8.0
        for style in ("constant", "buffer", "cached"):
            for wname in ("maximize", "minimize"):
                sign = -1.0 if wname == "maximize" else 1.0          # the wrapper is handed sign * (objective to be minimised)
                if style == "constant":
                    c0 = rs.randint(-4, 5, size=n).astype(float); c0[c0 == 0] = 1.0
                    method, kw = ["L-BFGS-B", "TNC", "SLSQP", None][i % 4], {"bounds": [(0.0, 1.0)] * n}
                    fmin, gmin = (lambda x, c0=c0: float(c0 @ x)), (lambda x, c0=c0: c0.copy())
                    def build(c0=c0, sign=sign):
                        c = sign * c0          # the user's stored vector: objective c.x, gradient c (the same array, no copy)
                        def audit():
                            if not np.array_equal(c, sign * c0):
                                return f"stored gradient vector is {c.tolist()} instead of {(sign * c0).tolist()}"
                        return (lambda x: float(c @ x)), (lambda x: c), audit
                else:
                    B = H.gen_matrix(rs, n + 1, n, False); cc = rs.randint(-3, 4, size=n + 1).astype(float)
                    method, kw = ["BFGS", "CG", "L-BFGS-B", "TNC", "SLSQP", "Newton-CG"][i % 6], {}
                    fmin = (lambda x, B=B, cc=cc: float(0.5 * np.sum((B @ x - cc) ** 2)))
                    gmin = (lambda x, B=B, cc=cc: B.T @ (B @ x - cc))
                    def build(fmin=fmin, gmin=gmin, sign=sign, style=style, n=n):
                        return _stored_gradient(style, lambda x: sign * fmin(x), lambda x: sign * gmin(x), n)
                desc = {"wrapper": wname, "gradient_style": style, "method": method, "n": n, "x0": x0.tolist(), "kwargs": list(kw)}
                ctx.case("glue-stored-buffer-" + wname, desc)
                fw, gw, audit_w = build()
                W = maximize if wname == "maximize" else minimize
                res_w, e = _run(lambda: W(fw, x0.copy(), gradfunc=gw, method=method, **kw).solve())
                # reference: for maximize SciPy on (-func, -grad) with fresh arrays (the wrapper negates into new arrays);
                # for minimize the direct SciPy call with an independent callable of the same style
                if wname == "maximize":
                    ref, e2 = _run(lambda: sopt_.minimize(fmin, x0.copy(), jac=lambda x: np.array(gmin(x), dtype=float), method=method, **kw))
                else:
                    fr, gr, _ = build()
                    ref, e2 = _run(lambda: sopt_.minimize(fr, x0.copy(), jac=gr, method=method, **kw))
                key = f"{wname}:stored-gradient:{style}"
                if e is not None or e2 is not None:
                    if (e is None) != (e2 is None):
                        ctx.disagree(key, desc, repr(e2)[:80] if e2 else "returns", repr(e)[:80] if e else "returns", "differs from the direct SciPy call")
                        ctx.fail(key, desc, repr(e2)[:80] if e2 else "returns", repr(e)[:80] if e else "returns", "wrapper does not return SciPy's result unchanged")
                    continue
                sol, info = res_w
                ok = H.same(sol, ref["x"]) and H.same(info["func"], ref["fun"]) and info["nfev"] == ref["nfev"] and info["success"] == ref["success"]
                if not ok:
                    ctx.disagree(key, desc, [ref["x"].tolist(), float(ref["fun"])], [np.asarray(sol).tolist(), float(info["func"])],
                                 "result differs from SciPy's for the (negated) problem when the gradient callback returns a stored array")
                    ctx.fail(key, desc, [ref["x"].tolist(), float(ref["fun"])], [np.asarray(sol).tolist(), float(info["func"])],
                             "wrapper does not return SciPy's result unchanged (apart from sign for maximisation)")
                bad = audit_w()
                if bad:
                    ctx.fail(f"{wname}:mutates-argument", desc, "the user's arrays as the user's callback left them", bad,
                             "the wrapper modifies the array returned by the user's gradient function")
        # ---- L_BFGS_B / LS / FISTA with buffer-returning callables: against the same call with fresh-array callables
        B = H.gen_matrix(rs, n + 1, n, False); cc = rs.randint(-3, 4, size=n + 1).astype(float)
        fmin = (lambda x: float(0.5 * np.sum((B @ x - cc) ** 2))); gmin = (lambda x: B.T @ (B @ x - cc))
        gb = np.zeros(n); rb = np.zeros(n + 1); Jc = B.copy()
        def g_buf(x):
            gb[...] = gmin(x); return gb
        def r_buf(x):
            rb[...] = B @ x - cc; return rb
        desc = {"wrapper": "L_BFGS_B", "gradient_style": "buffer", "n": n, "x0": x0.tolist()}
        ctx.case("glue-stored-buffer-other", desc)
        a, e = _run(lambda: L_BFGS_B(fmin, x0.copy(), gradfunc=g_buf).solve()); gb2 = np.zeros(n)
        def g_buf2(x):
            gb2[...] = gmin(x); return gb2
        r_, e2 = _run(lambda: sopt.fmin_l_bfgs_b(fmin, x0.copy(), fprime=g_buf2, approx_grad=0))
        if (e is None) != (e2 is None) or (e is None and not (H.same(a[0], r_[0]) and H.same(a[1]["func"], r_[1]))):
            ctx.disagree("L_BFGS_B:stored-gradient:buffer", desc, "SciPy's result", "differs", "differs from the direct SciPy call")
            ctx.fail("L_BFGS_B:stored-gradient:buffer", desc, r_[0].tolist() if e2 is None else repr(e2)[:80], np.asarray(a[0]).tolist() if e is None else repr(e)[:80],
                     "wrapper does not return SciPy's result unchanged")
        desc = {"wrapper": "LS", "callable_style": "residual buffer + stored Jacobian", "n": n, "x0": x0.tolist()}
        ctx.case("glue-stored-buffer-other", desc)
        a, e = _run(lambda: LS(r_buf, x0.copy(), jacfun=lambda x: Jc, method=["trf", "dogbox", "lm"][i % 3]).solve())
        r_, e2 = _run(lambda: sopt.least_squares(lambda x: B @ x - cc, x0.copy(), jac=lambda x: B.copy(), method=["trf", "dogbox", "lm"][i % 3], loss="linear", xtol=1e-6, max_nfev=10000))
        if (e is None) != (e2 is None) or (e is None and not _vc(ctx, "LS-stored-callables", np.asarray(a[0]), r_["x"], 1e-9)):
            ctx.disagree("LS:stored-callables", desc, "SciPy's result", "differs", "differs from the SciPy call with fresh arrays")
            ctx.fail("LS:stored-callables", desc, r_["x"].tolist() if e2 is None else repr(e2)[:80], np.asarray(a[0]).tolist() if e is None else repr(e)[:80],
                     "wrapper does not return SciPy's result unchanged")
        if not np.array_equal(Jc, B):
            ctx.fail("LS:mutates-argument", desc, B.tolist(), Jc.tolist(), "the stored Jacobian returned by the user's jacfun was modified")
        desc = {"solver": "FISTA", "callable_style": "proximal writes into a reused buffer", "n": n, "x0": x0.tolist()}
        ctx.case("glue-stored-buffer-other", desc)
        pb = np.zeros(n); t = 2.0 ** math.floor(math.log2(1.0 / np.linalg.norm(B, 2) ** 2))
        def prox_buf(x, g):
            pb[...] = ProjectNonnegative(x); return pb
        for ad in (False, True):
            a, e = _run(lambda: FISTA(B, cc.copy(), x0.copy(), prox_buf, maxit=25, stepsize=t, abstol=1e-12, adaptive=ad).solve())
            r_, e2 = _run(lambda: FISTA(B, cc.copy(), x0.copy(), lambda x, g: ProjectNonnegative(x), maxit=25, stepsize=t, abstol=1e-12, adaptive=ad).solve())
            if (e is None) != (e2 is None) or (e is None and (a[1] != r_[1] or not np.array_equal(np.asarray(a[0]), np.asarray(r_[0])))):
                k = f"{'FISTA' if ad else 'ISTA'}:stored-proximal-buffer"
                ctx.disagree(k, desc, "result with a fresh-array proximal", "differs", "a proximal callable that reuses its output buffer changes the result")
                x = np.asarray(a[0], dtype=float) if e is None else None
                if x is None or np.linalg.norm(x - np.maximum(x - t * (B.T @ (B @ x - cc)), 0)) > 1e-6 * (1 + np.linalg.norm(x)):
                    ctx.fail(k, desc, "fixed point of the proximal-gradient map", repr(e)[:80] if e else x.tolist(), "not a fixed point when the proximal callable reuses its buffer")
