"""C10, session-3 extension: Gaussian likelihoods whose `cov` / `prec` callable returns a vector or a matrix.

The anchored samplers take `L = likelihood.distribution(np.array([1])).sqrtprec`; for a non-scalar value of the
callable this runs the vector / diagonal / full-matrix branches of `get_sqrtprec_from_prec` / `get_sqrtprec_from_cov`
(`cuqi/distribution/_gaussian.py`), including their error branches (asymmetric, singular, not positive definite).
Model: `lean/CuqiVerif/Model/C10_weighted.lean` (`unitPrecOf`, `gaussQuadU`), driver op `gaussw`.

Tie: (i) the experimental validator's verdict on the very callable (model op `validate exp`, probes at 1, 10, 100 as
the code computes them) — a vector-valued precision is accepted iff every entry is inside the `np.allclose` band, a
vector / matrix valued covariance is a `TypeError` of `math.isclose`; (ii) for every accepted target (experimental:
in-band vectors and the all-ones matrix; legacy: everything) the Gamma captured at `np.random.gamma` against the
model's exact `(m/2+alpha, q/2+beta)`, or the exception class against the model's error class.
Oracle (implementation only): `target.logd(s) - log gammapdf(s)` constant in `s` for every target that was sampled --
`s * (fixed positive definite matrix)` is conjugate, so there is no listed finding here: any failure is a violation.
"""
import numpy as np
from harness.core import quiet, q, qv, qm, pq, close

FULL_TOL = 1e-11        # Cholesky / inverse of a small well-conditioned matrix in floating point
KINDS = ["vec", "vec", "vec-tol", "vec-tol", "diagmat", "full", "full", "full-upper", "asym", "notpd", "singular", "ones",
         "len1", "row1", "veclen"]


def dy(rng, lo, hi, den):
    return rng.randint(lo * den, hi * den) / den


def spd(rng, n):
    B = np.array([[float(rng.choice([-1, 0, 0, 1, 1, 2])) for _ in range(n)] for _ in range(n)])
    return B.T @ B + float(rng.randint(1, 3)) * np.eye(n)


def gen(ctx, thorough):
    rng = ctx.rng
    specs = []
    total = 400 if thorough else 64      # thorough trimmed: the certificate-checked exact factorisations are list-backed (slow for n > 8)
    for i in range(total):
        kind = KINDS[i % len(KINDS)] if i < 2 * len(KINDS) else rng.choice(KINDS)
        wiring = ["prec", "cov"][(i // len(KINDS)) % 2] if i < 2 * len(KINDS) else rng.choice(["prec", "cov"])
        n = rng.choice([2, 3, 3, 4, 5, 6, 8] + ([12, 20] if thorough else []))
        if kind not in ("vec", "vec-tol", "len1", "row1", "veclen"):
            n = min(n, 8)                    # matrix kinds: exact inverse / L D L^T in the interpreted driver
        if kind in ("vec", "vec-tol") and i % 9 == 4:
            n = rng.choice([75, 76, 80])            # sparse storage of the diagonal factor (dim > MIN_DIM_SPARSE)
        if kind == "vec":
            W = np.array([rng.choice([0.25, 0.5, 1.0, 1.5, 2.0, 3.0, 4.0, 0.125]) for _ in range(n)])
        elif kind == "vec-tol":
            W = np.array([1.0 + rng.randint(-8, 8) * 2.0 ** -20 for _ in range(n)])
            if rng.random() < 0.4:
                W[rng.randrange(n)] = 1.0 + 11 * 2.0 ** -20      # one entry just outside the band (1e-5 = 10.49 * 2^-20)
                kind = "vec-tol-out"
        elif kind == "diagmat":
            W = np.diag([rng.choice([0.5, 1.0, 2.0, 3.0]) for _ in range(n)])
        elif kind in ("full", "full-upper"):
            W = spd(rng, n)
            if kind == "full-upper":
                ij = [(a, b) for a in range(n) for b in range(a + 1, n) if W[a, b] != 0]
                if ij:
                    a, b = rng.choice(ij)
                    W[a, b] *= (1 + 2.0 ** -18)      # inside allclose(M, M.T); potrf reads the lower triangle
                else:
                    kind = "full"
        elif kind == "asym":
            W = spd(rng, n)
            W[0, 1] += 0.5
        elif kind == "notpd":
            W = np.eye(n); W[0, 1] = W[1, 0] = 2.0
        elif kind == "singular" and wiring == "prec":
            # an exactly singular PSD precision sits on the floating-point boundary of `cholesky` (sqrt(7)**2 != 7): the
            # indefinite matrix is used instead; the singular case is exercised through `inv(cov)` (identical rows: exact zero pivot)
            kind = "notpd"
            W = np.eye(n); W[0, 1] = W[1, 0] = 2.0
        elif kind == "singular":
            W = spd(rng, n); W[0, :] = W[1, :]; W[:, 0] = W[:, 1]     # rows / columns 0 and 1 equal: symmetric, singular
        elif kind == "ones":
            W = np.ones((n, n))
        elif kind == "len1":
            W = np.array([rng.choice([1.0, 1.0, 2.0, 0.5])])
        elif kind == "row1":
            W = np.array([[rng.choice([1.0, 1.0, 2.0])]])
        else:  # "veclen": vector whose length is not the dimension
            W = np.array([1.0] * (n + 1))
        reg = kind in ("vec", "vec-tol", "vec-tol-out") and rng.random() < 0.2
        meank = rng.choice(["vec", "vec", "scalar"])
        mean = [dy(rng, -3, 3, 4) for _ in range(n)] if meank == "vec" else [dy(rng, -2, 2, 4)]
        b = [dy(rng, -4, 4, 4) if rng.random() < 0.85 else 0.0 for _ in range(n)]
        specs.append({"fam": "gaussw", "kind": kind, "wiring": wiring, "n": n, "W": W, "reg": reg, "meank": meank, "mean": mean, "b": b,
                      "name": rng.choice(["s", "d", "lam"]), "alpha": dy(rng, 1, 24, 4), "beta": dy(rng, 1, 24, 4)})
    return specs


def callable_of(spec):
    W, nm = spec["W"], spec["name"]
    if spec["wiring"] == "prec":
        return eval(f"lambda {nm}: {nm}*W", {"W": W})
    return eval(f"lambda {nm}: W/{nm}", {"W": W})


def build(cuqi, spec, f):
    D = cuqi.distribution
    n = spec["n"]
    mean = np.array(spec["mean"], dtype=float)
    mean = mean if len(mean) > 1 else mean[0]
    kw = {spec["wiring"]: f}
    if spec["reg"]:
        from cuqi.implicitprior import RegularizedGaussian
        y = RegularizedGaussian(mean, constraint="nonnegativity", name="y", geometry=n, **kw)
    else:
        y = D.Gaussian(mean, name="y", geometry=n, **kw)
    return D.Posterior(y.to_likelihood(np.array(spec["b"], dtype=float)), D.Gamma(spec["alpha"], spec["beta"], name=spec["name"]))


def val_tok(W):
    if W.ndim == 2:
        return "m " + qm(W.tolist())
    return "v " + qv(W.tolist())


def err_class(e):
    t, msg = type(e).__name__, str(e)
    if "has to be symmetric" in msg:
        return "err:asym"
    if t == "LinAlgError" and "Singular" in msg:
        return "err:singular"
    if t == "LinAlgError" and "positive definite" in msg:
        return "err:notPD"
    if t in ("ValueError", "TypeError"):
        return "err:shape"
    return f"{t}:{msg[:60]}"


def stream_weighted(ctx, cuqi, thorough):
    lines, state = prepare_weighted(ctx, cuqi, thorough)
    finish_weighted(ctx, cuqi, state, lines, ctx.lean.drive(lines))


def prepare_weighted(ctx, cuqi, thorough):
    import harness.props.c10 as base
    specs = gen(ctx, thorough)
    items, lines = [], []
    for spec in specs:
        f = callable_of(spec)
        try:
            with quiet():
                post = build(cuqi, spec, f)
        except Exception as e:
            ctx.note(f"weighted stream: target construction refused ({spec['kind']}, {spec['wiring']}, n={spec['n']}): {repr(e)[:100]}")
            continue
        key = spec["wiring"]
        vtok = base.var_tok(key, f, spec["name"])
        lines.append(f"validate exp 1 {'reggaussian' if spec['reg'] else 'gaussian'} 1 1 1 1 mean:0:0:- {vtok}")
        lines.append(f"gaussw {int(spec['reg'])} {spec['wiring']} {spec['n']} {val_tok(spec['W'])} {qv(spec['mean'])} {qv(spec['b'])} "
                     f"{q(spec['alpha'])} {q(spec['beta'])}")
        items.append((spec, post))
    return lines, items


def finish_weighted(ctx, cuqi, items, lines, outs):
    import harness.props.c10 as base
    hist = ctx.extra_cov.setdefault("weighted_unit_precision", {})
    E, Lg = cuqi.experimental.mcmc, cuqi.sampler
    for k, (spec, post) in enumerate(items):
        verdict, mout = outs[2 * k], outs[2 * k + 1]
        if verdict == "bad-op" or mout == "bad-op":
            raise RuntimeError(f"driver rejected a weighted line: {lines[2 * k]} / {lines[2 * k + 1][:200]}")
        fk = f"{'Reg' if spec['reg'] else ''}GaussianW:{spec['wiring']}:{spec['kind']}"
        desc = {k2: spec[k2] for k2 in ("kind", "wiring", "n", "reg", "meank", "name", "alpha", "beta")}
        desc.update({"value_at_1": np.asarray(spec["W"]).ravel()[:9].tolist(), "mean": spec["mean"][:6], "b": spec["b"][:6]})
        for iface in ("exp", "leg"):
            ctx.case(f"weighted-{iface}", desc, nontrivial=True)
            tie_key = f"tie:{iface}:{fk}"
            # ---- construction: the validator
            try:
                with quiet():
                    smp = (E.Conjugate if iface == "exp" else Lg.Conjugate)(post)
                impl_v = "ok"
            except Exception as e:
                impl_v = base.classify(e)
            want_v = verdict if iface == "exp" else "ok"
            h = f"{iface}:{spec['wiring']}:{spec['kind']}:{impl_v}"
            if impl_v != want_v:
                ctx.disagree(tie_key + ":validate", desc, want_v, impl_v, "validator decision on a vector / matrix valued callable differs from the model")
                if impl_v != "ok":
                    hist[h] = hist.get(h, 0) + 1
                    continue
            if impl_v != "ok":
                hist[h] = hist.get(h, 0) + 1
                continue
            # ---- one or two steps
            try:
                with base.Capture(cuqi) as cap, quiet():
                    pts = []
                    for _ in range(ctx.rng.choice([1, 2])):
                        r = smp.step()
                        pts.append(base.scalar(smp.current_point if iface == "exp" else r))
                calls, impl_err = cap.calls, None
            except Exception as e:
                calls, impl_err = [], err_class(e)
            hist[h + (":" + impl_err if impl_err else ":sampled")] = hist.get(h + (":" + impl_err if impl_err else ":sampled"), 0) + 1
            if mout.startswith("err") or impl_err:
                # demanded: refusal vs sampling.  WHICH exception is raised (symmetry test before / after the factorisation, ...)
                # is not part of the property: a class mismatch is only recorded in the evidence.
                if mout.startswith("err") and impl_err and mout != impl_err:
                    cm = ctx.extra_cov.setdefault("weighted_error_class_mismatch", {})
                    cm[f"{mout}->{impl_err}"] = cm.get(f"{mout}->{impl_err}", 0) + 1
                if mout.startswith("err") != bool(impl_err):
                    ctx.disagree(tie_key + ":refusal", desc, mout[:40], impl_err or "sampled", "error class of the unit sqrtprec differs from the model")
                    if not impl_err and not spec["reg"]:
                        base.check_exactness(ctx, tie_key + ":refusal", None, desc, spec, post, calls, None, force=True)
                continue
            toks = mout.split()
            model = {"shape": pq(toks[0]), "rate": pq(toks[1]), "tlog": pq(toks[2]), "tlin": pq(toks[3])}
            ok_calls = len(calls) == len(pts) and calls and all(len(c["shape"]) == 1 and len(c["scale"]) == 1 for c in calls)
            if not ok_calls or any(pt != c["value"] for c, pt in zip(calls, pts)):
                ctx.disagree(tie_key + ":draw", desc, "one scalar gamma draw per step, returned unchanged", f"{len(calls)} draws / {len(pts)} steps")
                ctx.fail(tie_key + ":draw", desc, "each step returns one draw of Gamma(shape, rate)", f"{len(calls)} draws recorded",
                         "the step does not return its (scalar) Gamma draw")
                continue
            shape, rate = float(calls[0]["shape"][0]), 1.0 / float(calls[0]["scale"][0])
            tol = FULL_TOL if spec["W"].ndim == 2 else base.SHAPE_TOL
            if spec["kind"] == "full-upper":
                # a matrix that is symmetric only up to np.allclose: which triangle the factorisation reads (LAPACK potrf:
                # lower, as modelled by `lowerSym`) is a convention, not the property -- tie at the allclose tolerance,
                # exactness judged by the oracle against the target's own density only
                tol, model = 4e-5, None
            m_shape, m_rate = pq(toks[0]), pq(toks[1])
            same = close(shape, m_shape, base.SHAPE_TOL) and close(rate, m_rate, tol)
            if not same:
                ctx.disagree(tie_key + ":params", desc, [str(m_shape), str(m_rate)], [shape, rate],
                             "Gamma(shape, rate) drawn from differs from the model (vector / matrix unit precision)")
            if spec["reg"]:
                continue
            base.check_exactness(ctx, tie_key + ":params", None, desc, spec, post, calls, model, force=not same)


# ----------------------------------------------------------------------------- scipy-sparse valued callables (third pass)
def prepare_sparse(ctx, cuqi, thorough):
    """legacy Conjugate with `cov = lambda s: C / s`, `C` a scipy sparse SPD matrix (sparse branch of get_sqrtprec_from_cov:
    `spa.linalg.inv`, `sparse_cholesky`; no cholmod => `logdet = None`, no density: tie only).  Model: `bigQuad` (certificate-checked
    L D L^T solve), driver op `gausswb … sparse`."""
    import scipy.sparse as sp
    rng = ctx.rng
    cases, lines = [], []
    for _ in range(40 if thorough else 4):
        n = rng.choice([3, 4, 5, 6, 8])
        off = rng.choice([-0.5, 0.25, -0.25, 0.5])
        diag = [rng.choice([2.0, 3.0, 2.5]) for _ in range(n)]
        C = np.diag(diag) + np.diag([off] * (n - 1), 1) + np.diag([off] * (n - 1), -1)
        mean = [dy(rng, -2, 2, 4) for _ in range(n)]
        b = [dy(rng, -4, 4, 4) for _ in range(n)]
        c = {"n": n, "C": C, "mean": mean, "b": b, "alpha": dy(rng, 1, 12, 4), "beta": dy(rng, 1, 12, 4), "fmt": rng.choice(["csc", "csr"])}
        cases.append(c)
        lines.append(f"gausswb cov {n} sparse {qm(C.tolist())} {qv(mean)} {qv(b)} {q(c['alpha'])} {q(c['beta'])}")
    return lines, cases


def finish_sparse(ctx, cuqi, cases, lines, outs):
    import harness.props.c10 as base
    import scipy.sparse as sp
    D = cuqi.distribution
    hist = ctx.extra_cov.setdefault("sparse_valued_cov", {})
    for c, out in zip(cases, outs):
        desc = {k: c[k] for k in ("n", "alpha", "beta", "fmt", "mean", "b")}
        desc["C_diag_offdiag"] = [c["C"][0][0], c["C"][0][1]]
        ctx.case("weighted-sparse-leg", desc)
        key = "tie:leg:GaussianW:cov:sparse"
        if out == "bad-op":
            raise RuntimeError("driver rejected a sparse line")
        Cs = sp.csc_matrix(c["C"]) if c["fmt"] == "csc" else sp.csr_matrix(c["C"])
        try:
            with base.Capture(cuqi) as cap, quiet():
                y = D.Gaussian(np.array(c["mean"]), cov=lambda s: Cs / s, name="y")
                post = D.Posterior(y.to_likelihood(np.array(c["b"])), D.Gamma(c["alpha"], c["beta"], name="s"))
                cuqi.sampler.Conjugate(post).step()
            calls, err = cap.calls, None
        except Exception as e:
            calls, err = [], f"{type(e).__name__}"
        hist[err or "sampled"] = hist.get(err or "sampled", 0) + 1
        if out.startswith("err") != bool(err):
            ctx.disagree(key + ":refusal", desc, out[:40], err or "sampled", "sparse valued covariance: refusal differs from the model")
            continue
        if err:
            continue
        toks = out.split()
        shape, rate = float(calls[0]["shape"][0]), 1.0 / float(calls[0]["scale"][0])
        if not (close(shape, pq(toks[0]), base.SHAPE_TOL) and close(rate, pq(toks[1]), FULL_TOL)):
            ctx.disagree(key + ":params", desc, [toks[0], toks[1]], [shape, rate], "Gamma drawn from differs from the model (sparse valued covariance)")
