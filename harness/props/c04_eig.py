"""C04, session-3 second pass: the eigen-decomposition branches of get_sqrtprec_from_* (dim > MIN_DIM_SPARSE, dense full matrix),
rank-deficient part and `eigvalsh_to_eps` included (Model/C04_eig.lean, driver op `gausseig`).

Matrices with an exactly known spectral decomposition: Q = block-diagonal of 4x4 Hadamard blocks (entries +-1/2) with permuted
coordinates, dyadic spectrum -> the matrix M = Q^T diag(lam) Q is exact in floating point and the model checks the certificate
(Q Q^T = I, M = Q^T diag(lam) Q) exactly.  Spectra: well conditioned, or with eigenvalues the code must drop (exact zeros and
2^-40 * max for cov / sqrtcov; 2^-40 * max for prec / sqrtprec), every case scaled by 2^-34, 1 or 2^30.  Eigenvalues are never
placed near the threshold 2.2e-10 * max (kept >= 2^-6 * max, dropped <= 2^-40 * max)."""
import math
import numpy as np
import scipy.stats as sps
from fractions import Fraction
from harness.core import quiet, qv, qm

H4 = [[Fraction(1, 2) * s for s in row] for row in ([1, 1, 1, 1], [1, -1, 1, -1], [1, 1, -1, -1], [1, -1, -1, 1])]


def gauss_eig_section(ctx, D, rng, S, thorough):
    from harness.props import c04 as base
    dec, call, fnum, verdict, relclose = base.dec, base.call, base.fnum, base.verdict, base.relclose
    hist = {}
    ctx.extra_cov["gauss_eig_histogram"] = hist
    forms = ["cov", "prec", "sqrtcov", "sqrtprec"]
    plan = []
    for i, form in enumerate(forms):
        variants = [("full-rank", (-34, 0, 30)[(i + ctx.seed) % 3]), ("deficient", (0, -34, 30)[(i + ctx.seed) % 3])]
        if not thorough:
            # quick: the pseudo-inverse forms (cov, sqrtcov) always rank-deficient (their full-rank scaled case is in
            # gauss_scale_bigdim_section); prec / sqrtprec alternate full-rank scaled / deficient with the seed
            variants = [variants[1]] if form in ("cov", "sqrtcov") else [variants[(i // 2 + ctx.seed) % 2]]
        else:
            variants = [(v, e) for v in ("full-rank", "deficient") for e in (-34, 0, 30)]
        for v, e in variants:
            plan.append((form, v, e, (76, 80, 84)[(i + len(plan) + ctx.seed) % 3] if thorough else (76, 80)[(i + ctx.seed) % 2]))
    lines, meta = [], []
    for (form, variant, e, n) in plan:
        sq = form in ("sqrtcov", "sqrtprec")
        perm = list(range(n)); rng.shuffle(perm)
        Q = [[Fraction(0)] * n for _ in range(n)]
        for b in range(n // 4):
            for r in range(4):
                for c in range(4):
                    Q[4 * b + r][perm[4 * b + c]] = H4[r][c]
        ee = e // 2 if sq else e                     # square roots: the decomposed product carries the square
        root = [Fraction(rng.choice([1, 2, 4, 1, 2])) / rng.choice([1, 2, 4]) for _ in range(n)]       # in [1/4, 4]
        dropped = []
        if variant == "deficient":
            dropped = rng.sample(range(n), rng.choice([1, 2, 5]))
            for k, j in enumerate(dropped):
                if form in ("cov", "sqrtcov") and k % 2 == 0:
                    root[j] = Fraction(0)
                else:
                    root[j] = Fraction(1, 2 ** 20) if sq else Fraction(1, 2 ** 40)
        root = [r * Fraction(2) ** ee for r in root]
        lam = [r * r for r in root] if sq else list(root)
        # user's matrix R = Q^T diag(root) Q (symmetric), exact
        R = [[Fraction(0)] * n for _ in range(n)]
        for b in range(n // 4):
            cols = [perm[4 * b + c] for c in range(4)]
            for a in range(4):
                for c in range(4):
                    R[cols[a]][cols[c]] = sum(H4[r][a] * root[4 * b + r] * H4[r][c] for r in range(4))
        Rf = np.array([[float(v) for v in row] for row in R])
        assert all(Fraction(Rf[i, j]) == R[i][j] for i in range(n) for j in range(0, n, 7)), "matrix not exact in floating point"
        kept = [k for k in range(n) if k not in dropped]
        # deviation inside the range of the kept eigenvectors (cov forms), generic otherwise; of the order of the standard deviations
        # sqrtcov: a generic deviation, with components along the dropped directions too (the pseudo-inverse must ignore them;
        # tie only: the degenerate density is not defined off the range)
        cvec = [Fraction(rng.randint(-4, 4), 2) if (k in kept or form == "sqrtcov") else Fraction(0) for k in range(n)]
        sdscale = Fraction(2) ** ((e // 2) if form in ("cov", "sqrtcov") else -(e // 2))
        z = [Fraction(0)] * n
        for b in range(n // 4):
            for c in range(4):
                z[perm[4 * b + c]] = sum(H4[r][c] * cvec[4 * b + r] for r in range(4)) * sdscale
        mu = [Fraction(rng.randint(-4, 4), 2) for _ in range(n)]
        x = [mu[i] + z[i] for i in range(n)]
        fr = lambda v: f"{v.numerator}/{v.denominator}" if v.denominator != 1 else str(v.numerator)
        lines.append(f"gausseig {form} {n} {','.join(fr(v) for v in x)} {','.join(fr(v) for v in mu)} {','.join(fr(v) for v in lam)} "
                     f"{';'.join(','.join(fr(v) for v in row) for row in Q)} {';'.join(','.join(fr(v) for v in row) for row in R)}")
        meta.append((form, variant, e, n, Rf, np.array([float(v) for v in mu]), np.array([float(v) for v in x]), len(dropped),
                     [float(v) for v in lam]))
    outs = ctx.lean.drive(lines)
    for (form, variant, e, n, Rf, mu, x, ndrop, lam), out in zip(meta, outs):
        desc = {"form": form, "dim": n, "variant": variant, "scale": f"2^{e}", "dropped_eigenvalues": ndrop,
                "spectrum_min_max": [min(lam), max(lam)], "construction": "Q = permuted 4x4 Hadamard blocks / 2, M = Q^T diag(.) Q"}
        ctx.case("gauss-eig", desc)
        hist[f"{form}:{variant}:2^{e}"] = hist.get(f"{form}:{variant}:2^{e}", 0) + 1
        key = f"Gaussian:{form}:dense:dim>75:eig:{variant}"
        t = out.split()
        try:
            with quiet():
                g = D.Gaussian(mu.copy(), **{form: Rf.copy()})
        except Exception as ex:  # noqa
            g = None; cerr = type(ex).__name__
        istat, ival = call(lambda: g.logpdf(x)) if g is not None else ("raise", cerr)
        mism, fail = [], None
        if t[0] != "ok":
            mism.append(f"model answer {out[:40]}")
        else:
            rank, dc, quad = int(t[1]), Fraction(t[2][2:]), dec(t[3])
            logdet_m = math.log(dc.numerator) - math.log(dc.denominator)
            mlp = -0.5 * (rank * math.log(2 * math.pi) + logdet_m) - 0.5 * quad
            if istat != "value" or not relclose(mlp, ival, 1e-7):       # float64 eigh-based evaluation at dim ~80
                mism.append(f"logpdf {[istat, ival]} vs model {mlp}")
            if g is not None:
                if int(g.rank) != rank:
                    mism.append(f"rank {int(g.rank)} vs model {rank}")
                if not relclose(logdet_m, fnum(g.logdet), 1e-8):
                    mism.append(f"logdet {fnum(g.logdet)} vs model {logdet_m}")
                with quiet():
                    lu = fnum(g._logupdf(x))
                if not relclose(-0.5 * quad, lu, 1e-8):
                    mism.append(f"_logupdf {lu} vs model {-0.5 * quad}")
        # oracle (implementation only): the documented (possibly degenerate) Gaussian density, x - mean inside the range
        C = None
        if form == "cov":
            C = Rf
        elif form == "sqrtcov":
            C = Rf @ Rf.T
        elif variant == "full-rank":
            C = np.linalg.inv(Rf if form == "prec" else Rf.T @ Rf)
        if C is not None:
            with quiet():
                ref = float(sps.multivariate_normal(mu, C, allow_singular=True).logpdf(x))
            if g is None:
                fail = (ref, f"raises {cerr}", "a positive semi-definite specification is refused")
            elif math.isfinite(ref) and (istat != "value" or not relclose(ref, ival, 1e-7)):
                fail = (ref, [istat, ival], "Gaussian.logpdf (eigen-decomposition branch, dim > 75) is not the documented "
                        + ("degenerate Gaussian density on the range of the covariance (rank / pseudo-determinant / pseudo-inverse)" if variant == "deficient"
                           else "density at this scale (eigenvalues cut off by an absolute tolerance?)"))
            elif variant == "full-rank" and g is not None and int(g.rank) != n:
                fail = (n, int(g.rank), "rank of a well-conditioned matrix is not the dimension")
        verdict(ctx, key, desc, not mism, out[:80], mism, fail, "eigen branch: model and implementation differ: " + "; ".join(mism))
