"""C07 — a linear model's adjoint is the transpose of its forward map (correspondence + oracle).

Implementation side: the real `cuqi.model.LinearModel` / geometries / test problems, probed by unit
vectors.  Model side: `lean/Driver/C07.lean` (exact rationals).  Oracle (implementation only):
  adjoint    <A x, y> = <x, A* y>  (entrywise: matrix of `adjoint` = transpose of matrix of `forward`,
             plus the identity itself on random integer vectors through the public calls);
  get_matrix shape (range_dim, domain_dim) and column j = forward(e_j);
  T          `M.T.forward` = `M.adjoint`, `M.T.adjoint` = `M.forward`, `M.T.get_matrix()` = `get_matrix()ᵀ`,
             none of them raising.
Keys:  tie:<site>:…   correspondence (never matched by a known finding);
       LinearModel:<aspect>:<mb|fn>:<plain|expansion>:<Dom>><Rng>[@problem]
       Deconvolution2D:<aspect>:BC=<bc>:<odd|even>:<sym|asym>
"""
import numpy as np
from fractions import Fraction
from harness.core import import_cuqi, quiet, q, qv, qm, pm, close, vclose, mclose

TOL = 1e-9

# margins of the tolerance-based comparisons: per comparison site the largest PASSING ratio deviation/tolerance and the smallest
# FAILING one (a passing ratio above 0.1 or a failing one below 10 would mean the verdict hangs on floating-point noise)
_MARGINS = {}
_CUR = {}


def _margin(site, ratio):
    if not np.isfinite(ratio):
        return
    m = _MARGINS.setdefault(site, {"max_pass": 0.0, "min_fail": None, "n": 0})
    m["n"] += 1
    if ratio <= 1.0:
        if ratio > m["max_pass"] and ratio > 0.01:
            import traceback
            m["where_max_pass"] = [f"{f.name}:{f.lineno}" for f in traceback.extract_stack(limit=6)[:-2]]
            m["case_max_pass"] = _CUR.get("line", "")[:160]
        m["max_pass"] = max(m["max_pass"], float(ratio))
    else:
        m["min_fail"] = float(ratio) if m["min_fail"] is None else min(m["min_fail"], float(ratio))


# ----------------------------------------------------------------------------------------------- helpers
def fl(a):
    """plain ndarray of python floats — or complex numbers when the data are complex (never silently dropped)"""
    a = np.asarray(a)
    return a.astype(complex) if np.iscomplexobj(a) else a.astype(float)


def dense(M):
    if hasattr(M, "todense"):
        return fl(M.todense())
    return fl(M)


def cols(f, n):
    """matrix whose columns are f(e_j).ravel() (C order)"""
    out = []
    for j in range(n):
        e = np.zeros(n); e[j] = 1.0
        out.append(np.array(fl(f(e)).ravel(), copy=True))   # copy NOW: the callable may reuse its buffer
    return np.column_stack(out) if out else np.zeros((0, 0))


def parse_L(s):
    """driver matrix -> ndarray of floats (exact values rounded once) ; '_rxc' = empty"""
    if s.startswith("_"):
        r, c = s[1:].split("x")
        return np.zeros((int(r), int(c)))
    return np.array([[float(v) for v in row] for row in pm(s)], dtype=float)


def fields(out):
    d = {}
    for tok in out.split(" "):
        k, _, v = tok.partition("=")
        d[k] = v
    return d


def same(Mmodel, Mimpl, exact):
    if Mmodel.shape != Mimpl.shape:
        return False
    if Mmodel.size == 0:
        return True
    if exact:
        return np.array_equal(Mmodel, Mimpl)
    if np.isnan(Mimpl).any():
        return False
    # RELATIVE to the largest entry (the exact model is scale-free; no absolute floor)
    scale = max(np.abs(Mmodel).max(), np.abs(Mimpl).max())
    if scale > 0:
        _margin("tie(same,1e-9)", float(np.abs(Mmodel - Mimpl).max()) / (TOL * scale))
    return bool(np.all(np.abs(Mmodel - Mimpl) <= TOL * scale))


def differ(X, Y, exact=False, record=True):
    """oracle comparison of two implementation matrices: exact where the data make the implementation exact
    (unit-vector probes of plain geometries), else relative to the largest entry (no absolute floor)"""
    if X is None or Y is None:
        return True
    if X.shape != Y.shape:
        return True
    if X.size == 0:
        return False
    if np.isnan(X).any() or np.isnan(Y).any():
        return True
    if exact:
        return not np.array_equal(X, Y)
    scale = max(np.abs(X).max(), np.abs(Y).max())
    if scale > 0 and record:
        _margin("oracle(differ,1e-9)", float(np.abs(X - Y).max()) / (TOL * scale))
    return bool(np.any(np.abs(X - Y) > TOL * scale))


class GSpec:
    """one geometry instance: how to build it, its driver token, its class label"""
    def __init__(self, label, family, make, token=None, exact=True, squeezes=True):
        self.label, self.family, self.make, self.exact = label, family, make, exact
        g = make()
        self.par_dim, self.fun_shape = int(g.par_dim), tuple(int(s) for s in g.fun_shape)
        self.fun_dim = int(np.prod(self.fun_shape))
        self.one_d = len(self.fun_shape) == 1
        self.E, self.F = measure_geom(g, self.par_dim, self.fun_shape)
        self.token = token if token is not None else f"leaf:{'sq' if squeezes else 'nsq'}:{self.par_dim}:{self.fun_dim}:{qm(self.E)}:{qm(self.F)}"


def measure_geom(g, par_dim, fun_shape):
    fun_dim = int(np.prod(fun_shape))
    with quiet():
        E = cols(lambda p: g.par2fun(p), par_dim)
        F = cols(lambda f: g.fun2par(f.reshape(fun_shape)), fun_dim)
    return E, F


def make_geoms(cuqi, rng, nfun):
    """all geometry kinds at function dimension nfun (2-D kinds need a factorisation r*c = nfun)"""
    from cuqi.geometry import (Continuous1D, Continuous2D, Image2D, Discrete, StepExpansion, KLExpansion,
                               MappedGeometry, _DefaultGeometry1D, _DefaultGeometry2D)
    n = nfun
    out = [
        GSpec("Continuous1D", "plain", lambda: Continuous1D(n), f"id:{n}"),
        GSpec("Discrete", "plain", lambda: Discrete(n), f"id:{n}"),
        GSpec("Default1D", "plain", lambda: _DefaultGeometry1D(n), f"id:{n}"),
    ]
    facs = [(r, n // r) for r in range(1, n + 1) if n % r == 0]
    r, c = facs[rng.randrange(len(facs))] if len(facs) <= 2 else facs[1 + rng.randrange(len(facs) - 2)]
    out += [
        GSpec("Image2D-visual", "plain", lambda: Image2D((r, c), visual_only=True), f"id:{n}"),
        GSpec("Image2D-C", "plain", lambda: Image2D((r, c), order="C"), f"imgC:{r}:{c}"),
        GSpec("Image2D-F", "plain", lambda: Image2D((r, c), order="F"), f"imgF:{r}:{c}"),
        GSpec("Continuous2D", "plain", lambda: Continuous2D((r, c)), f"imgCs:{r}:{c}"),
        GSpec("Default2D", "plain", lambda: _DefaultGeometry2D((r, c)), f"imgC:{r}:{c}"),
    ]
    if n >= 2:
        s = rng.randrange(1, n)            # at least one step with >= 2 nodes
        x0 = rng.choice([0.0, -2.0, 3.0]); h = rng.choice([1.0, 0.5, 2.0, 4.0])
        grid = x0 + h * np.arange(n)
        out.append(GSpec("StepExpansion", "expansion", lambda: StepExpansion(grid, n_steps=s), f"step:{n}:{s}", exact=False))
        out.append(GSpec("StepExpansion-full", "expansion", lambda: StepExpansion(grid, n_steps=n), f"step:{n}:{n}"))
        k = rng.randrange(1, n)
        dec = rng.choice([2.5, 1.0, 0.5]); nrm = rng.choice([12.0, 1.0, 2.0])
        out.append(GSpec("KLExpansion", "expansion", lambda: KLExpansion(np.linspace(0, 1, n), decay_rate=dec, normalizer=nrm), exact=False))
        out.append(GSpec("KLExpansion-trunc", "expansion", lambda: KLExpansion(np.linspace(0, 1, n), decay_rate=dec, normalizer=nrm, num_modes=k), exact=False))
        out.append(GSpec("Mapped-scale", "expansion", lambda: MappedGeometry(Continuous1D(n), map=lambda x: 4.0 * x, imap=lambda x: x / 4.0), exact=True, squeezes=False))
    return out


# ----------------------------------------------------------------------------------------------- probing a LinearModel
def probe(make_model):
    """all observable matrices of a LinearModel built by make_model() (fresh object per group, because
    get_matrix caches `_matrix` and `T` copies it)"""
    res = {}
    with quiet():
        M = make_model()
        n, m = int(M.domain_dim), int(M.range_dim)
        res["n"], res["m"] = n, m
        try:
            res["fwd"] = cols(lambda x: M.forward(x), n)
        except Exception as e:
            res["fwd"] = None; res["fwd_err"] = repr(e)[:100]
        try:
            res["adj"] = cols(lambda y: M.adjoint(y), m)
        except Exception as e:
            res["adj"] = None; res["adj_err"] = repr(e)[:100]
        try:
            Mg = make_model()
            res["gm"] = dense(Mg.get_matrix())
            # cached matrix: forward in between, then ask again (must be the same, unaffected by later calls)
            xg = np.arange(1.0, n + 1.0)
            Mg.forward(xg); Mg.forward(np.zeros(n))
            res["gm2"] = dense(Mg.get_matrix())
        except Exception as e:
            res["gm"] = None; res["gm2"] = None; res["gm_err"] = repr(e)[:100]
        for name, fn, k in (("tfwd", lambda T: (lambda y: T.forward(y)), m), ("tadj", lambda T: (lambda x: T.adjoint(x)), n)):
            try:
                T = make_model().T
                res[name] = cols(fn(T), k)
            except Exception as e:
                res[name] = None; res[name + "_err"] = repr(e)[:100]
        try:
            res["tgm"] = dense(make_model().T.get_matrix())
        except Exception as e:
            res["tgm"] = None; res["tgm_err"] = repr(e)[:100]
        # the identity itself through the public calls on integer vectors
        res["ip"] = []
        if res["fwd"] is not None and res["adj"] is not None:
            r = np.random.RandomState(n * 31 + m)
            for _ in range(3):
                x = r.randint(-4, 5, size=n).astype(float); y = r.randint(-4, 5, size=m).astype(float)
                lhs = float(np.dot(np.asarray(M.forward(x), dtype=float).ravel(), y))
                rhs = float(np.dot(x, np.asarray(M.adjoint(y), dtype=float).ravel()))
                res["ip"].append((x.tolist(), y.tolist(), lhs, rhs))
        probe_reps(make_model, M, res)
        probe_inputs(M, res)
    return res


SCALES = (0.0, 1e-30, 1e-15, 1e-9, 1e9, 1e15)


def vec_variants(v):
    """the same numbers in other array guises (G1 dtype, G7 layout / read-only): name -> array"""
    n = len(v)
    big = np.zeros(2 * n); big[::2] = v
    rev = np.ascontiguousarray(v[::-1])
    ro = v.copy(); ro.setflags(write=False)
    av = np.abs(v)
    return {"int64": (v.astype(np.int64), v), "float32": (v.astype(np.float32), v), "strided": (big[::2], v), "negstride": (rev[::-1], v),
            "readonly": (ro, v), "float16": (v.astype(np.float16), v), "int8": (v.astype(np.int8), v),
            "uint8": (av.astype(np.uint8), av), "bool": (v != 0, (v != 0).astype(float))}


GUISES = ("int64", "float32", "strided", "negstride", "readonly", "float16", "int8", "uint8", "bool")


def probe_inputs(M, res):
    """(a) homogeneity: f(s*x) for s from 0 to 1e±15 (a linear map has no absolute threshold);
    (b) the same integer vector as int64 / float32 / strided / negative-stride / read-only array;
    (c) the caller's vectors are not modified; (d) every returned array is kept and re-verified at the end."""
    X, Y = res["repX"], res["repY"]
    res["scaled"], res["variants"], res["input_modified"], kept = {}, {}, [], []
    # magnitude of the raw operator (function level): the round-off floor of a parameter-level result that cancels to 0
    mag = 0.0
    try:
        for j in range(res["n"]):
            e = np.zeros(res["n"]); e[j] = 1.0
            mag = max(mag, float(np.abs(_plain(M._forward_func(M.domain_geometry.par2fun(e)))).max()))
    except Exception:
        pass
    for k_ in ("fwd", "adj"):
        if res[k_] is not None and res[k_].size:
            mag = max(mag, float(np.abs(res[k_]).max()))
    res["opmag"] = mag
    for op, f, V in (("fwd", M.forward, X), ("adj", M.adjoint, Y)):
        if res[op] is None:
            continue
        for s_ in SCALES:
            try:
                outs = []
                for j in range(V.shape[1]):
                    v = s_ * V[:, j]; v0 = v.copy()
                    r = f(v)
                    kept.append((r, np.array(_plain(r), copy=True)))
                    outs.append(np.array(_plain(r).reshape(-1), copy=True))
                    if not np.array_equal(v, v0):
                        res["input_modified"].append(f"{op}(x*{s_:g})")
                res["scaled"][(op, s_)] = np.column_stack(outs)
            except Exception as e:
                res["scaled"][(op, s_)] = None; res["scaled"][(op, s_, "err")] = repr(e)[:100]
        for name, (v, _vf) in vec_variants(V[:, 0]).items():
            try:
                v0 = np.array(v, copy=True)
                r = f(v)
                kept.append((r, np.array(_plain(r), copy=True)))
                res["variants"][(op, name)] = np.array(_plain(r).reshape(-1), copy=True)
                if not np.array_equal(np.asarray(v), v0):
                    res["input_modified"].append(f"{op}({name})")
            except Exception as e:
                res["variants"][(op, name)] = None; res["variants"][(op, name, "err")] = repr(e)[:100]
    # (d) retained outputs: nothing the model returned earlier may have changed meanwhile
    res["retained_changed"] = sum(1 for (r, c) in kept if not np.array_equal(_plain(r), c, equal_nan=True))
    res["retained_n"] = len(kept)


def inputs_expected(res, fwd, adj):
    X, Y = res["repX"], res["repY"]
    sc, va = {}, {}
    for op, Mx, V in (("fwd", fwd, X), ("adj", adj, Y)):
        if Mx is None:
            continue
        for s_ in SCALES:
            sc[(op, s_)] = Mx @ (s_ * V)
        vv = vec_variants(V[:, 0])
        for name in GUISES:
            va[(op, name)] = Mx @ vv[name][1]
    return sc, va


def rel_differ(got, want, scale, tol=TOL):
    """entrywise |got - want| > tol*scale (scale 0: must be exactly equal)"""
    if got is None or want is None or got.shape != want.shape or np.isnan(got).any():
        return True
    if scale > 0 and got.size:
        _margin(f"inputs(rel_differ,{tol:g})", float(np.abs(got - want).max()) / (tol * scale))
    return bool(np.any(np.abs(got - want) > tol * scale))


def guise_tol(name):
    """a float32 / float16 input may legitimately be processed in that precision (numpy/scipy keep the input precision):
    1e-5 / 5e-3 relative there; all other guises (incl. int8, uint8, bool) carry exactly the same numbers"""
    return 1e-5 if name == "float32" else 5e-3 if name == "float16" else TOL


REPS = ("cu_par", "cu_fun", "samples")


def _plain(v):
    """result of a model call as a plain float ndarray (CUQIarray / Samples unwrapped)"""
    if hasattr(v, "samples") and not isinstance(v, np.ndarray):
        return fl(v.samples)
    return fl(v.to_numpy() if hasattr(v, "to_numpy") else v)


def probe_reps(make_model, M, res):
    """forward / adjoint / T.forward / T.adjoint on the same integer vectors given as (ii) CUQIarray in parameter
    representation, (iii) CUQIarray flagged as function values, (iv) Samples — all carrying the model's own
    geometry object.  res["rep"][(op, rep)] = (dim x 3) matrix of parameter-valued results, or None (+ _err)."""
    from cuqi.array import CUQIarray
    from cuqi.samples import Samples
    n, m = res["n"], res["m"]
    D, Rg = M.domain_geometry, M.range_geometry
    r = np.random.RandomState(n * 17 + m + 5)
    X = r.randint(-4, 5, size=(n, 3)).astype(float); Y = r.randint(-4, 5, size=(m, 3)).astype(float)
    res["repX"], res["repY"] = X, Y
    res["rep"] = {}
    # `a == b` is `a.__eq__(b)` = isinstance(b, type(a)) and equal attributes: asymmetric for sub/super-classes
    res["geom_eq_asym"] = False; res["geom_eq_raises"] = False
    try:
        e1, e2 = bool(D == Rg), bool(Rg == D)
        res["geom_eq_asym"] = bool(type(D) is not type(Rg) and (e1 or e2))
    except Exception:
        # `_all_values_equal` indexes list-valued attributes of different lengths (Discrete variables, StepExpansion
        # index lists): comparing the two geometries raises IndexError
        res["geom_eq_raises"] = True
    ops = (("fwd", lambda: M, "forward", D, X), ("adj", lambda: M, "adjoint", Rg, Y),
           ("tfwd", lambda: make_model().T, "forward", Rg, Y), ("tadj", lambda: make_model().T, "adjoint", D, X))
    for op, getm, meth, geo, V in ops:
        for rep in REPS:
            try:
                if op.startswith("t"):
                    # the transposed model must carry geometry objects equal to the ones the inputs are tagged with
                    base = make_model(); base.domain_geometry = D; base.range_geometry = Rg
                    f = getattr(base.T, meth)
                else:
                    f = getattr(M, meth)
                if rep == "samples":
                    out = _plain(f(Samples(V.copy(), geometry=geo))).copy()
                else:
                    colsout = []
                    for j in range(V.shape[1]):
                        v = V[:, j].copy()
                        arg = CUQIarray(v, is_par=True, geometry=geo) if rep == "cu_par" else \
                            CUQIarray(np.asarray(geo.par2fun(v)), is_par=False, geometry=geo)
                        colsout.append(_plain(f(arg)).reshape(-1).copy())
                    out = np.column_stack(colsout)
                res["rep"][(op, rep)] = out
            except Exception as e:
                res["rep"][(op, rep)] = None; res["rep"][(op, rep, "err")] = repr(e)[:100]


def rep_expected(res, fwd, adj, tfwd, tadj):
    """what each (op, rep) must return given the four ndarray-level matrices (None = raises):
    forward/adjoint do not depend on the representation; `T` on geometry-tagged CUQIarrays skips the second
    application of the geometry maps (x.geometry == geometry -> funvals / .parameters as they are), i.e. it is
    the plain swap; Samples are iterated as plain parameter vectors (same as ndarray input)."""
    X, Y = res["repX"], res["repY"]
    exp = {}
    for rep in REPS:
        exp[("fwd", rep)] = None if fwd is None else fwd @ X
        exp[("adj", rep)] = None if adj is None else adj @ Y
        tagged = rep != "samples"
        exp[("tfwd", rep)] = (None if adj is None else adj @ Y) if tagged else (None if tfwd is None else tfwd @ Y)
        exp[("tadj", rep)] = (None if fwd is None else fwd @ X) if tagged else (None if tadj is None else tadj @ X)
    return exp


def oracle_linear(ctx, res, keyf, desc, adjoint_pair=True, exact=False):
    """the property on the implementation alone; keyf(aspect) -> key.  Returns set of failing aspects."""
    bad = set()
    F, Ad = res["fwd"], res["adj"]
    if F is None or Ad is None:
        ctx.fail(keyf("adjoint"), desc, "forward/adjoint evaluate", res.get("fwd_err") or res.get("adj_err"), "forward or adjoint raises on a parameter vector")
        return {"adjoint"}
    if adjoint_pair:
        if differ(F.T, Ad, exact):
            k = np.unravel_index(np.argmax(np.abs(F.T - Ad)), Ad.shape) if F.T.shape == Ad.shape else None
            ctx.fail(keyf("adjoint"), {**desc, "entry": None if k is None else [int(k[0]), int(k[1])]},
                     "matrix of adjoint = transpose of matrix of forward",
                     {"forward^T": F.T.tolist(), "adjoint": Ad.tolist()} if F.size <= 40 else "differs",
                     "<A x, y> != <x, A* y>: adjoint is not the transpose of forward")
            bad.add("adjoint")
        else:
            for (x, y, lhs, rhs) in res["ip"]:
                ipscale = float(np.abs(F).max() * np.abs(x).sum() * np.abs(y).sum()) if F.size else 0.0
                if ipscale > 0:
                    _margin("oracle(inner product,1e-9)", abs(lhs - rhs) / (1e-9 * ipscale))
                if abs(lhs - rhs) > 1e-9 * ipscale:
                    ctx.fail(keyf("adjoint"), {**desc, "x": x, "y": y}, lhs, rhs, "<A x, y> != <x, A* y>")
                    bad.add("adjoint")
    G = res["gm"]
    if G is None or differ(G, F, exact):
        ctx.fail(keyf("get_matrix_range_dim_1" if (G is None and res["m"] == 1) else "get_matrix"), desc, "get_matrix()[:, j] = forward(e_j), shape (range_dim, domain_dim)",
                 res.get("gm_err") if G is None else {"shape": list(G.shape), "forward shape": list(F.shape)},
                 "matrix representation does not reproduce the forward map column by column")
        bad.add("get_matrix")
    elif res.get("gm2") is None or differ(res["gm2"], F, exact):
        ctx.fail(keyf("get_matrix"), {**desc, "call": "second get_matrix() after forward calls"}, "cached get_matrix() = forward map column by column",
                 None if res.get("gm2") is None else res["gm2"].tolist(), "cached matrix representation changed after later forward calls")
        bad.add("get_matrix")
    tb = []
    if res["tfwd"] is None or differ(res["tfwd"], Ad, exact):
        tb.append("T.forward != adjoint" + (": " + res.get("tfwd_err", "") if res["tfwd"] is None else ""))
    if res["tadj"] is None or differ(res["tadj"], F, exact):
        tb.append("T.adjoint != forward" + (": " + res.get("tadj_err", "") if res["tadj"] is None else ""))
    if adjoint_pair and (res["tgm"] is None or (G is not None and differ(res["tgm"], G.T, exact))):
        tb.append("T.get_matrix() != get_matrix().T" + (": " + res.get("tgm_err", "") if res["tgm"] is None else ""))
    if tb:
        ctx.fail(keyf("T"), desc, "T swaps forward and adjoint (and transposes the matrix)", tb, "transposed model is not the swap of forward and adjoint")
        bad.add("T")
    # ---- homogeneity / array guises / caller arrays / retained outputs (implementation only)
    if "scaled" in res:
        X, Y = res["repX"], res["repY"]
        sc, va = inputs_expected(res, F, Ad)
        hb = []
        for (op, s_), want in sc.items():
            V = X if op == "fwd" else Y
            Mx = F if op == "fwd" else Ad
            scale = s_ * res["opmag"] * np.abs(V).sum(axis=0).max()
            got = res["scaled"].get((op, s_))
            if rel_differ(got, want, scale):
                hb.append({"op": op, "scale": s_, "input": (s_ * V[:, 0]).tolist(), "got": None if got is None else got[:, 0].tolist(), "s*f(x)": want[:, 0].tolist()})
        if hb:
            ctx.fail(keyf("homogeneity"), {**desc, "first": hb[0], "n": len(hb)}, "f(s*x) = s*f(x) for every scale s (a linear map has no absolute threshold), f(0) = 0",
                     [f"{h['op']}(x*{h['scale']:g})" for h in hb], "forward/adjoint are not homogeneous: <A x, s*y> != <x, A*(s*y)>")
            bad.add("homogeneity")
        vb = []
        for (op, name), want in va.items():
            Mx = F if op == "fwd" else Ad
            V = X if op == "fwd" else Y
            scale = res["opmag"] * np.abs(V[:, 0]).sum()
            if rel_differ(res["variants"].get((op, name)), want, scale, guise_tol(name)):
                vb.append(f"{op}({name})" + (": " + res["variants"].get((op, name, "err"), "") if res["variants"].get((op, name)) is None else ""))
        if vb:
            ctx.fail(keyf("input-guise"), desc, "same result for the same numbers as int64 / float32 / strided / negative-stride / read-only array", vb,
                     "forward/adjoint depend on dtype / memory layout / writability of the input array")
            bad.add("input-guise")
        if res["input_modified"]:
            ctx.fail(keyf("caller-array-modified"), desc, "the caller's input vector is left untouched", res["input_modified"], "forward/adjoint modify their input array")
            bad.add("caller-array-modified")
        if res["retained_changed"] and not desc.get("callable_reuses_buffer"):
            ctx.fail(keyf("retained-output"), desc, "arrays returned by earlier calls keep their values", f"{res['retained_changed']} of {res['retained_n']} changed",
                     "a later call overwrote an array returned earlier")
            bad.add("retained-output")
    # ---- every input representation: same parameter-valued result as for plain arrays, T is the swap, identity holds
    if "rep" in res:
        X, Y = res["repX"], res["repY"]
        demanded = rep_expected(res, F, Ad, Ad, F)      # the property: T.forward = adjoint, T.adjoint = forward for every input kind
        rb, tb2 = [], []
        for (op, rep), want in demanded.items():
            got = res["rep"].get((op, rep))
            if got is None or differ(got, want):
                (tb2 if op.startswith("t") else rb).append(f"{op}({rep})" + ("" if got is not None else " raises: " + res["rep"].get((op, rep, "err"), "")))
        if adjoint_pair and not rb and "adjoint" not in bad:
            for rep in REPS:
                lhs = (res["rep"][("fwd", rep)] * Y).sum(axis=0); rhs = (X * res["rep"][("adj", rep)]).sum(axis=0)
                ipscale = float(np.abs(F).max()) * np.abs(X).sum(axis=0) * np.abs(Y).sum(axis=0) if F.size else np.zeros(3)
                if np.any(np.abs(lhs - rhs) > 1e-9 * ipscale):
                    rb.append(f"<forward({rep}) , y> != <x, adjoint({rep})>")
        asym = ":geometry-eq-asymmetric" if res.get("geom_eq_asym") else ":geometry-eq-raises" if res.get("geom_eq_raises") else ""
        if rb:
            ctx.fail(keyf("repr" + asym), {**desc, "x": X.tolist(), "y": Y.tolist()}, "forward/adjoint give the same parameters for ndarray, CUQIarray (par / fun) and Samples inputs",
                     rb, "forward/adjoint depend on the representation of their input")
            bad.add("repr")
        if tb2 and not (tb and all("(samples)" in t for t in tb2)):
            ctx.fail(keyf("T-repr" + asym), {**desc, "x": X.tolist(), "y": Y.tolist()}, "T.forward = adjoint and T.adjoint = forward for CUQIarray / Samples inputs",
                     tb2, "transposed model is not the swap for some input representation")
            bad.add("T")
        elif tb2:
            # Samples are iterated as plain vectors: the same failure as for ndarray input (already reported under T)
            pass
    return bad


def tie_linear(ctx, out, res, tiekey, desc, exact, keyf, adjoint_pair=True):
    """diff the driver line `out` of a `lin`/`deconv2` op against the probed implementation"""
    ok = True
    if out in ("err", "bad-op") or out.startswith("err"):
        if res["fwd"] is not None:
            ctx.disagree(tiekey, desc, out, "forward evaluates", "model refuses, implementation accepts"); ok = False
    else:
        f = fields(out)
        for name in ("fwd", "adj", "gm", "tfwd", "tadj", "tgm"):
            if name not in f:
                continue
            impl = res[name]
            if f[name] == "err":
                if impl is not None:
                    ctx.disagree(tiekey, {**desc, "what": name}, "raises", "evaluates", f"{name}: model predicts a shape error"); ok = False
                continue
            Mm = parse_L(f[name])
            if impl is None:
                ctx.disagree(tiekey, {**desc, "what": name}, "evaluates", res.get(name + "_err"), f"{name}: implementation raises"); ok = False
            elif not same(Mm, impl, exact):
                ctx.disagree(tiekey, {**desc, "what": name}, f[name][:300], str(impl.tolist())[:300], f"{name} differs"); ok = False
        # representations: the model's maps do not depend on how the input is wrapped (tagged inputs to T: plain swap)
        if "rep" in res and not res.get("geom_eq_asym") and not res.get("geom_eq_raises") and "fwd" in f and f["fwd"] != "err":
            pf = {k: (None if f.get(k, "err") == "err" else parse_L(f[k])) for k in ("fwd", "adj", "tfwd", "tadj")}
            pred = rep_expected(res, pf["fwd"], pf["adj"], pf["tfwd"], pf["tadj"])
            for (op, rep), want in pred.items():
                if op.startswith("t") and rep == "samples" and "tfwd" not in f:
                    continue
                got = res["rep"].get((op, rep))
                if want is None and got is None:
                    continue
                if want is None or got is None or not same(want, got, False):
                    ctx.disagree(tiekey, {**desc, "what": f"{op}({rep})"}, None if want is None else want.tolist(),
                                 res["rep"].get((op, rep, "err")) if got is None else got.tolist(), f"{op} on {rep} input differs from the model's map")
                    ok = False
        if "scaled" in res and "fwd" in f and f["fwd"] != "err" and f.get("adj", "err") != "err":
            Pf, Pa = parse_L(f["fwd"]), parse_L(f["adj"])
            sc, va = inputs_expected(res, Pf, Pa)
            X, Y = res["repX"], res["repY"]
            for (op, s_), want in sc.items():
                V = X if op == "fwd" else Y; Mx = Pf if op == "fwd" else Pa
                scale = s_ * res["opmag"] * np.abs(V).sum(axis=0).max()
                got = res["scaled"].get((op, s_))
                if rel_differ(got, want, scale):
                    ctx.disagree(tiekey, {**desc, "what": f"{op}(x*{s_:g})", "input": (s_ * V[:, 0]).tolist()}, want[:, 0].tolist(),
                                 None if got is None else got[:, 0].tolist(), f"{op} on an input scaled by {s_:g} differs from the model's (linear) map")
                    ok = False
            for (op, name), want in va.items():
                V = X if op == "fwd" else Y; Mx = Pf if op == "fwd" else Pa
                scale = res["opmag"] * np.abs(V[:, 0]).sum()
                got = res["variants"].get((op, name))
                if rel_differ(got, want, scale, guise_tol(name)):
                    ctx.disagree(tiekey, {**desc, "what": f"{op}({name})"}, want.tolist(), None if got is None else got.tolist(), f"{op} on a {name} input differs from the model's map")
                    ok = False
    if not ok:
        # failing-input search at the disagreeing case: does the property itself fail here?
        probe_ctx = _Collector()
        bad = oracle_linear(probe_ctx, res, keyf, desc, adjoint_pair, exact)
        for fl in probe_ctx.failures:
            ctx.fail(tiekey, fl[1], fl[2], fl[3], fl[4])
    return ok


def check_own_model(ctx, model, res, tiekey, desc):
    """the problem's OWN model object (not only the LinearModel rebuilt from its parts): forward and adjoint
    matrices must be those of the rebuilt model, else tie break + the property's oracle on the own object"""
    with quiet():
        try:
            F0 = cols(lambda x: model.forward(x), int(model.domain_dim))
            A0 = cols(lambda y: model.adjoint(y), int(model.range_dim))
        except Exception as e:
            ctx.disagree(tiekey, desc, "evaluates", repr(e)[:100], "problem's own model raises")
            ctx.fail(tiekey, desc, "forward/adjoint evaluate", repr(e)[:100], "forward or adjoint of the shipped model raises")
            return
    if differ(F0, res["fwd"]) or differ(A0, res["adj"]):
        ctx.disagree(tiekey, desc, "LinearModel(its parts, its geometries)", "problem.model", "the problem's own model object differs from the model rebuilt from its parts")
        if differ(F0.T, A0):
            ctx.fail(tiekey, desc, "matrix of adjoint = transpose of matrix of forward", {"forward^T": F0.T.tolist()[:6], "adjoint": A0.tolist()[:6]},
                     "<A x, y> != <x, A* y> on the problem's own model object")


def centred_symmetric(P):
    """symmetric about the index s//2 along every axis over the overlapping range, maximum at the centre
    (what the documentation of the Gauss / Moffat PSFs promises: a PSF centred at `center = s//2`)"""
    P = np.asarray(P, dtype=float)
    for ax in range(P.ndim):
        s_ = P.shape[ax]; c = s_ // 2
        for d in range(1, s_):
            if c - d < 0 or c + d >= s_:
                continue
            a = np.take(P, c + d, axis=ax); b = np.take(P, c - d, axis=ax)
            if np.any(np.abs(a - b) > 1e-12 * np.abs(P).max()):
                return False
    return bool(P[tuple(sh // 2 for sh in P.shape)] == P.max())


def gauss_profile(p, tmax):
    """the scalar leaf of the Gauss PSFs: g(t) = exp(-t/(2 p^2)), t = 0..tmax (floats, sent exactly)"""
    with np.errstate(all="ignore"):
        return [float(np.exp(-0.5 * (t / (p ** 2)))) for t in range(tmax + 1)]


def psf_same(model_txt, Pimpl, tol=1e-11):
    """named PSF of the model (exact rationals) against the array the implementation built: relative to the largest entry"""
    Pi = np.asarray(Pimpl, dtype=float)
    if model_txt in ("_", "_0x0"):
        return Pi.size == 0
    Pm = parse_L(model_txt)
    if Pi.ndim == 1:
        Pm = Pm.reshape(-1)
    if Pm.shape != Pi.shape or np.isnan(Pi).any():
        return False
    if Pm.size == 0:
        return True
    sc_ = max(np.abs(Pm).max(), np.abs(Pi).max())
    if sc_ > 0:
        _margin(f"psf(psf_same,{tol:g})", float(np.abs(Pm - Pi).max()) / (tol * sc_))
    return bool(np.all(np.abs(Pm - Pi) <= tol * sc_))


def psf_hist(ctx, name, s, outcome):
    h = ctx.extra_cov.setdefault("named_psf", {})
    k = f"{name}:{'odd' if s % 2 else 'even'}:{outcome}"
    h[k] = h.get(k, 0) + 1


class _Collector:
    def __init__(self):
        self.failures = []
    def fail(self, *a):
        self.failures.append(a)


# ----------------------------------------------------------------------------------------------- the run
def run(ctx):
    """entry point: the test-problem constructors draw from numpy's global RNG, which is restored"""
    import_cuqi()
    st = np.random.get_state()
    _MARGINS.clear()
    try:
        _run(ctx)
    finally:
        np.random.set_state(st)
        ctx.extra_cov["tolerance_margins"] = {k: dict(v) for k, v in _MARGINS.items()}


def _run(ctx):
    cuqi = import_cuqi()
    from cuqi.model import LinearModel
    from scipy.sparse import csc_matrix, csr_matrix
    thorough = ctx.tier == "thorough"
    rng = ctx.rng
    nrs = np.random.RandomState(ctx.seed + 7)
    ctx.trusted += ["numpy/scipy kernels of the implementation (matmul, reshape, convolve1d, np.pad, fftconvolve, dst/idst) enter only through the probed matrices",
                    "KLExpansion / MappedGeometry par2fun and fun2par matrices are leaf data measured on the implementation"]
    ctx.assumptions += ["integer / 0-1 data compared exactly; cases involving 1/count, KL leaf matrices, named PSFs, fftconvolve compared with rel+abs tolerance 1e-9",
                        "function values are identified with their C-order flattening",
                        "matrix-backed models are exercised with geometries whose function values are 1-D arrays (numpy rejects `matrix @ image`)"]
    jobs = []   # (line, handler)

    # ================================================================ geometries: E / F tie
    geom_cache = {}
    dims = list(range(2, 9)) if not thorough else list(range(2, 13))
    for n in dims:
        geom_cache[n] = make_geoms(cuqi, rng, n)
        for gs in geom_cache[n]:
            if gs.token.startswith("leaf"):
                continue
            def h_geom(out, gs=gs, n=n):
                desc = {"geometry": gs.label, "token": gs.token}
                ctx.case("geom", desc)
                key = f"tie:geometry:{gs.label}"
                if out == "err":
                    ctx.disagree(key, desc, "err", "constructed"); return
                f = fields(out)
                if not same(parse_L(f["E"]), gs.E, gs.exact) or not same(parse_L(f["F"]), gs.F, gs.exact):
                    ctx.disagree(key, desc, out[:300], {"E": gs.E.tolist(), "F": gs.F.tolist()}, "par2fun / fun2par matrices differ")
                    # oracle near it: fun2par(par2fun(p)) = p is C13's business; here: the geometry maps feed forward/adjoint, checked below
            jobs.append((f"geom {gs.token}", h_geom))
    # refusals of StepExpansion
    from cuqi.geometry import StepExpansion
    for (n, s) in [(3, 4), (2, 5), (4, 0)][: 3]:
        def h_ref(out, n=n, s=s):
            desc = {"geometry": "StepExpansion", "n": n, "n_steps": s}
            ctx.case("geom-refusal", desc, nontrivial=False)
            try:
                with quiet():
                    g = StepExpansion(np.arange(n, dtype=float), n_steps=s)
                    g.fun2par(np.ones(n))
                    bad = bool(np.isnan(np.asarray(g.fun2par(np.ones(n)), dtype=float)).any()) or s == 0
                impl = "err" if bad else "ok"
            except Exception:
                impl = "err"
            if (out == "err") != (impl == "err"):
                ctx.disagree("tie:geometry:StepExpansion:refusal", desc, out[:40], impl)
        jobs.append((f"geom step:{n}:{s}", h_ref))

    # ================================================================ LinearModel under every geometry pair
    def lin_case(gd, gr, kind, sparse, wrong_adjoint=False, tag="", A_fixed=None, funcs=None, casekind=None, preserve=None, extra_desc=None):
        nD, nR = gd.fun_dim, gr.fun_dim
        A = nrs.randint(-3, 4, size=(nR, nD)).astype(float) if A_fixed is None else np.asarray(A_fixed, dtype=float)
        if wrong_adjoint:
            B = nrs.randint(-3, 4, size=(nD, nR)).astype(float)
            if np.array_equal(B, A.T):
                B[0, 0] += 1
        else:
            B = A.T.copy()
        fam = "expansion" if "expansion" in (gd.family, gr.family) else "plain"
        exact = gd.exact and gr.exact
        keep_subclass = (rng.random() < 0.5) if preserve is None else preserve
        desc = {**(extra_desc or {}), "kind": kind, "callables_keep_ndarray_subclass": keep_subclass, "dom": gd.label, "rng": gr.label, "dom_token": gd.token[:40], "rng_token": gr.token[:40],
                "A": A.tolist(), "sparse": sparse, "wrong_adjoint": wrong_adjoint}

        def make_model():
            D, Rg = gd.make(), gr.make()
            if kind == "mb":
                Am = {"dense": A, "csc": csc_matrix(A), "csr": csr_matrix(A)}[sparse]
                if gd.label == "Default1D" and gr.label == "Default1D":
                    return LinearModel(Am)
                return LinearModel(Am, range_geometry=Rg, domain_geometry=D)
            fs_d, fs_r = gd.fun_shape, gr.fun_shape
            fwd = lambda x: (A @ np.asarray(x).ravel()).reshape(fs_r)
            adj = lambda y: (B @ np.asarray(y).ravel()).reshape(fs_d)
            if keep_subclass:
                # numpy arithmetic directly on the argument: a CUQIarray input gives a CUQIarray output that
                # inherits the INPUT's geometry and is_par flag
                fwd = lambda x: (A @ x.ravel()).reshape(fs_r)
                adj = lambda y: (B @ y.ravel()).reshape(fs_d)
            if funcs is not None:
                fwd, adj = funcs
            rgeo = Rg if gr.label not in ("Default1D", "Default2D") else (gr.fun_shape[0] if gr.label == "Default1D" else tuple(gr.fun_shape))
            dgeo = D if gd.label not in ("Default1D", "Default2D") else (gd.fun_shape[0] if gd.label == "Default1D" else tuple(gd.fun_shape))
            return LinearModel(fwd, adj, range_geometry=rgeo, domain_geometry=dgeo)

        line = f"lin {kind} {qm(A)} {'-' if kind == 'mb' else qm(B)} {gd.token} {gr.token}"
        keyf = lambda aspect: f"LinearModel:{aspect}:{kind}:{fam}:{gd.label}>{gr.label}{tag}"

        def h(out):
            ctx.case(casekind or f"lin-{kind}-{fam}", desc)
            A_before = A.copy()
            res = probe(make_model)
            if not np.array_equal(A, A_before):
                ctx.fail(keyf("caller-array-modified"), desc, "the matrix handed to LinearModel is left untouched by forward/adjoint/get_matrix/T", "modified",
                         "read-only operations of the model modify the caller's matrix")
            tie_linear(ctx, out, res, f"tie:LinearModel:{kind}:{gd.label}>{gr.label}", desc, exact, keyf, adjoint_pair=not wrong_adjoint)
            bad = oracle_linear(ctx, res, keyf, desc, adjoint_pair=not wrong_adjoint, exact=exact)
            hist = ctx.extra_cov.setdefault("oracle_verdicts", {})
            for a in ("adjoint", "get_matrix", "T"):
                kk = f"{kind}:{fam}:{a}:{'fail' if a in bad else 'hold'}"
                hist[kk] = hist.get(kk, 0) + 1
        jobs.append((line, h))

    # ---- FIXED CORPUS (runs first, identical on every seed and tier): configurations past seeded changes needed
    from cuqi.geometry import Continuous1D as _C1c, Image2D as _I2c, Discrete as _Dc, _DefaultGeometry1D as _D1c
    def cg1(label, n):
        mk = {"Continuous1D": lambda: _C1c(n), "Discrete": lambda: _Dc(n), "Default1D": lambda: _D1c(n)}[label]
        return GSpec(label, "plain", mk, f"id:{n}")
    def cgI(r, c, order="C"):
        return GSpec("Image2D-" + order, "plain", lambda: _I2c((r, c), order=order), f"img{order}:{r}:{c}")
    Ac6 = np.array([[1., 2, 0, -1, 3, 2], [0, 1, 4, 2, -2, 1], [3, 0, 1, 1, 0, -3], [2, -1, 0, 5, 1, 0], [0, 2, 2, 0, -1, 4], [1, 0, -2, 3, 2, 1]])
    corpus = [
        (cgI(2, 3, "C"), cgI(2, 3, "F"), "fn", Ac6, None),                 # same class, different order (T must swap the geometries)
        (cgI(2, 3, "F"), cgI(3, 2, "C"), "fn", Ac6, True),
        (cgI(2, 2, "F"), cg1("Continuous1D", 3), "fn", Ac6[:3, :4], False),  # non-square, image -> vector
        (cg1("Continuous1D", 3), cgI(2, 2, "F"), "fn", Ac6[:4, :3], True),
        (cg1("Continuous1D", 3), cg1("Continuous1D", 2), "mb", Ac6[:2, :3], None),   # non-square matrix-backed
        (cg1("Default1D", 2), cg1("Discrete", 4), "mb", Ac6[:4, :2], None),
        (cg1("Discrete", 4), cg1("Discrete", 4), "mb", Ac6[:4, :4], None),
    ]
    for gd_c, gr_c, kd_c, A_c, pres in corpus:
        lin_case(gd_c, gr_c, kd_c, "dense", tag="@corpus", A_fixed=A_c, preserve=bool(pres), casekind="lin-corpus")

    reps = 1 if not thorough else 4
    TWO_D = ("Image2D-C", "Image2D-F", "Continuous2D", "Default2D")
    pair_dims = [d for d in dims if d >= 2]
    for _ in range(reps):
        labels = [g.label for g in geom_cache[max(pair_dims)]]
        for ld in labels:
            for lr in labels:
                # 2-D geometries get a composite function dimension (a 1×n image cannot tell C from F order)
                comp = [d for d in pair_dims if d in (4, 6, 8, 9, 10, 12)]
                nD = rng.choice(comp) if ld in TWO_D else rng.choice(pair_dims[:6])
                nR = rng.choice(comp) if lr in TWO_D else rng.choice(pair_dims[:6])
                gd = next(g for g in geom_cache[nD] if g.label == ld)
                gr = next(g for g in geom_cache[nR] if g.label == lr)
                can_mb = gd.one_d and gr.one_d
                kind = "mb" if (can_mb and rng.random() < 0.6) else "fn"
                lin_case(gd, gr, kind, rng.choice(["dense", "csc", "csr"]))
                if can_mb and (thorough or (gd.family == "plain" and gr.family == "plain")):
                    lin_case(gd, gr, "fn" if kind == "mb" else "mb", rng.choice(["dense", "csc", "csr"]))
        # function pairs that are NOT adjoint pairs: tie only
        for _ in range(12 if not thorough else 60):
            nD, nR = rng.choice(pair_dims[:6]), rng.choice(pair_dims[:6])
            lin_case(rng.choice(geom_cache[nD]), rng.choice(geom_cache[nR]), "fn", "dense", wrong_adjoint=True)

    # the concrete witnesses of the negative theorems of Props/C07.lean, replayed on the implementation
    from cuqi.geometry import Continuous1D, StepExpansion as _SE, MappedGeometry as _MG
    w_step = GSpec("StepExpansion", "expansion", lambda: _SE(np.arange(2.0), n_steps=1), "step:2:1", exact=False)
    w_id2 = GSpec("Continuous1D", "plain", lambda: Continuous1D(2), "id:2")
    w_id1 = GSpec("Continuous1D", "plain", lambda: Continuous1D(1), "id:1")
    w_scale = GSpec("Mapped-scale", "expansion", lambda: _MG(Continuous1D(1), map=lambda x: 4.0 * x, imap=lambda x: x / 4.0), squeezes=False)
    lin_case(w_step, w_id2, "mb", "dense", tag="@witness:stepModel", A_fixed=np.eye(2))      # step_adjoint_counterexample, getMatrix_matrixBacked_counterexample
    lin_case(w_id1, w_scale, "mb", "dense", tag="@witness:scaleModel", A_fixed=np.eye(1))    # transpose_counterexample

    # ---- aliasing function pairs: forward/adjoint return their argument or a VIEW of it, on geometries that do
    # not copy (Continuous1D / default / Discrete: par2fun returns its argument; Image2D: reshape/ravel views).
    # get_matrix probes with one unit vector that it resets in place, so a column that still aliases it is wrong.
    from cuqi.geometry import Image2D as _I2, Discrete as _Di, _DefaultGeometry1D as _D1
    def g1(label, n):
        mk = {"Continuous1D": lambda: Continuous1D(n), "Discrete": lambda: _Di(n), "Default1D": lambda: _D1(n)}[label]
        return GSpec(label, "plain", mk, f"id:{n}")
    def gI(r, c, order="C"):
        return GSpec("Image2D-" + order, "plain", lambda: _I2((r, c), order=order), f"img{order}:{r}:{c}")
    def zpad(n, sl):
        def adj(y):
            z = np.zeros(n); z[sl] = y; return z
        return adj
    def zpad2(shape, sl):
        def adj(Y):
            Z = np.zeros(shape); Z[sl] = Y; return Z
        return adj
    alias_cases = []
    for n in ((3, 4, 6) if not thorough else (2, 3, 4, 5, 6, 8)):
        I = np.eye(n)
        for lab in ("Continuous1D", "Discrete", "Default1D"):
            alias_cases.append(("identity", g1(lab, n), g1(lab, n), I, (lambda x: x, lambda y: y)))
            alias_cases.append(("flip", g1(lab, n), g1(lab, n), I[::-1], (lambda x: x[::-1], lambda y: y[::-1])))
        if n >= 3:
            m = len(range(1, n, 2))
            alias_cases.append(("restriction", g1("Continuous1D", n), g1("Continuous1D", m), I[1::2], (lambda x: x[1::2], zpad(n, slice(1, None, 2)))))
            alias_cases.append(("restriction", g1("Default1D", n), g1("Discrete", m), I[1::2], (lambda x: x[1::2], zpad(n, slice(1, None, 2)))))
            alias_cases.append(("head", g1("Continuous1D", n), g1("Default1D", n - 1), I[: n - 1], (lambda x: x[:-1], zpad(n, slice(0, n - 1)))))
    for (r, c) in (((4, 2), (3, 3)) if not thorough else ((4, 2), (3, 3), (4, 3), (5, 2))):
        N = r * c
        idx = np.arange(N).reshape(r, c)
        alias_cases.append(("image-identity", gI(r, c), gI(r, c), np.eye(N), (lambda X: X, lambda Y: Y)))
        alias_cases.append(("image-identity", gI(r, c, "F"), gI(r, c, "F"), np.eye(N), (lambda X: X, lambda Y: Y)))
        alias_cases.append(("image-crop", gI(r, c), gI(2, c), np.eye(N)[idx[1:3, :].ravel()], (lambda X: X[1:3, :], zpad2((r, c), (slice(1, 3), slice(None))))))
        alias_cases.append(("image-flipud", gI(r, c), gI(r, c), np.eye(N)[idx[::-1, :].ravel()], (lambda X: X[::-1, :], lambda Y: Y[::-1, :])))
        alias_cases.append(("image-transpose", gI(r, c), gI(c, r), np.eye(N)[idx.T.ravel()], (lambda X: X.T, lambda Y: Y.T)))
        alias_cases.append(("image-ravel", gI(r, c), g1("Continuous1D", N), np.eye(N), (lambda X: X.ravel(), lambda y, r=r, c=c: y.reshape(r, c))))
    for (name, gd_, gr_, A_, fa) in alias_cases:
        lin_case(gd_, gr_, "fn", "dense", tag="@alias:" + name, A_fixed=A_, funcs=fa, casekind="lin-fn-alias-" + name)
    # callables that return THE SAME array object on every call (a reused work buffer)
    for (nr_, nc_) in ((3, 4), (4, 4)):
        Ab = nrs.randint(-3, 4, size=(nr_, nc_)).astype(float)
        bf, ba = np.zeros(nr_), np.zeros(nc_)
        def fbuf(x, Ab=Ab, bf=bf):
            bf[:] = Ab @ np.asarray(x, dtype=float); return bf
        def abuf(y, Ab=Ab, ba=ba):
            ba[:] = Ab.T @ np.asarray(y, dtype=float); return ba
        lin_case(g1("Continuous1D", nc_), g1("Default1D", nr_), "fn", "dense", tag="@alias:reused-buffer", A_fixed=Ab, funcs=(fbuf, abuf),
                 casekind="lin-fn-alias-buffer", extra_desc={"callable_reuses_buffer": True})

    # ---- domain and range geometries of the SAME class and parameter size but different parameters, with operators
    # that keep the ndarray subclass (matrix-backed `M @ x`, callables doing arithmetic on their argument): a CUQIarray
    # output then carries the INPUT's geometry and must still be converted with the model's RANGE geometry.
    from cuqi.geometry import Continuous2D as _C2, KLExpansion as _KL
    m4 = (lambda x: 4.0 * x, lambda x: x / 4.0); m2 = (lambda x: 2.0 * x, lambda x: x / 2.0)
    def gM(n, mp, lab):
        return GSpec(lab, "expansion", lambda: _MG(Continuous1D(n), map=mp[0], imap=mp[1]), exact=True, squeezes=False)
    def gS(n, s_, h=1.0):
        return GSpec("StepExpansion", "expansion", lambda: _SE(h * np.arange(n), n_steps=s_), f"step:{n}:{s_}", exact=False)
    def gK(n, k, dec=2.5):
        return GSpec("KLExpansion", "expansion", lambda: _KL(np.linspace(0, 1, n), decay_rate=dec, num_modes=k), exact=False)
    def gC2(r, c):
        return GSpec("Continuous2D", "plain", lambda: _C2((r, c)), f"imgCs:{r}:{c}")
    same_class = [
        (gI(2, 3, "C"), gI(2, 3, "F"), ("fn",)), (gI(2, 3, "F"), gI(2, 3, "C"), ("fn",)), (gI(2, 3, "C"), gI(3, 2, "C"), ("fn",)),
        (gI(2, 2, "F"), gI(2, 2, "C"), ("fn",)), (gI(4, 2, "C"), gI(2, 4, "F"), ("fn",)),
        (gC2(2, 3), gC2(3, 2), ("fn",)), (gC2(3, 2), gC2(2, 3), ("fn",)),
        (gM(3, m4, "Mapped-scale"), gM(3, m2, "Mapped-scale"), ("mb", "fn")), (gM(4, m2, "Mapped-scale"), gM(4, m4, "Mapped-scale"), ("mb", "fn")),
        (gS(4, 2), gS(6, 2), ("mb", "fn")), (gS(5, 3), gS(4, 3), ("mb", "fn")), (gS(4, 2), gS(4, 2, h=2.0), ("mb", "fn")),
        (gK(4, 3), gK(6, 3), ("mb", "fn")), (gK(5, 5, 2.5), gK(5, 5, 1.0), ("mb", "fn")),
    ]
    for gd_, gr_, kinds in same_class:
        for kd in kinds:
            lin_case(gd_, gr_, kd, "dense", tag="@same-class", preserve=True, casekind="lin-same-class-" + kd)
    # ---- SCALE: entries far from O(1), so that a structural decision taken with a tolerance (e.g. "is the matrix
    # symmetric?" via np.allclose) shows.  The model is exact and scale-free; unit-vector probes of plain geometries
    # are exact in floating point, so these cases are compared EXACTLY (oracle included).
    scaled = []
    for c_ in (1e-12, 1e-9, 1e-6, 1e6, 1e9):
        nS = rng.choice([3, 4, 5])
        Mi = nrs.randint(-4, 5, size=(nS, nS)).astype(float)
        Mi[nS - 1, 0] = 3.0; Mi[0, nS - 1] = -2.0                       # certainly non-symmetric
        scaled.append((f"{c_:g}*M", c_ * Mi))
        scaled.append((f"{c_:g}*tril(M)", c_ * np.tril(Mi)))
        Mr = nrs.randint(-4, 5, size=(nS, nS + 1)).astype(float)
        scaled.append((f"{c_:g}*M(rect)", c_ * Mr))
    for eps_, big in ((1e-10, 1.0), (1e-12, 1.0), (1e-9, 1.0), (1e-4, 1e6), (1e-16, 1e-6)):
        nS = rng.choice([3, 4, 5])
        S_ = nrs.randint(-4, 5, size=(nS, nS)).astype(float); S_ = S_ + S_.T
        N_ = nrs.randint(1, 5, size=(nS, nS)).astype(float); N_ = np.triu(N_, 1)      # strictly asymmetric part
        scaled.append((f"{big:g}*S+{eps_:g}*N", big * S_ + eps_ * N_))
    for name_, As in scaled:
        r_, c__ = As.shape
        variants = [("mb", "dense"), ("mb", "csc"), ("mb", "csr"), ("fn", "dense")] if thorough else \
                   [("mb", rng.choice(["dense", "csc", "csr"])), rng.choice([("mb", "dense"), ("fn", "dense"), ("mb", "csr"), ("mb", "csc")])]
        for kd, sp in variants:
            lab = rng.choice(["Continuous1D", "Discrete", "Default1D"])
            lin_case(g1(lab, c__), g1(lab, r_), kd, sp, tag="@scale:" + name_, A_fixed=As, casekind="lin-scale-" + kd)
    # one image-geometry function-backed model per scale
    for c_ in (1e-9, 1e9):
        lin_case(gI(2, 2, "C"), gI(2, 2, "F"), "fn", "dense", tag=f"@scale:{c_:g}*tril(M)", preserve=True,
                 A_fixed=c_ * np.tril(nrs.randint(1, 5, size=(4, 4)).astype(float)), casekind="lin-scale-fn")

    # ---- HISTORIES on one object (G2/G3/G5/G7): the matrix handed over in every memory layout / dtype, used, then modified
    # IN PLACE through the caller's reference or through get_matrix(); afterwards forward / adjoint / get_matrix / T
    # (built before and after the modification) must be mutually consistent and equal to what the code's live reference
    # to the array implies (the model's prediction for the CURRENT values).
    def probe_obj(M, Tb):
        r = {"n": int(M.domain_dim), "m": int(M.range_dim), "ip": []}
        with quiet():
            for nm_, fn_ in (("fwd", lambda: cols(M.forward, r["n"])), ("adj", lambda: cols(M.adjoint, r["m"])),
                             ("gm", lambda: dense(M.get_matrix())), ("gm2", lambda: dense(M.get_matrix())),
                             ("tfwd", lambda: cols(M.T.forward, r["m"])), ("tadj", lambda: cols(M.T.adjoint, r["n"])),
                             ("tgm", lambda: dense(M.T.get_matrix())),
                             ("tbfwd", lambda: cols(Tb.forward, r["m"])), ("tbgm", lambda: dense(Tb.get_matrix()))):
                try:
                    r[nm_] = np.array(fl(fn_()), copy=True)
                except Exception as e:
                    r[nm_] = None; r[nm_ + "_err"] = repr(e)[:100]
        return r

    def after_history(ctx, out, r, tiekey, desc, keyf, exact, drop=()):
        if drop:
            out = " ".join(t for t in out.split(" ") if t.split("=")[0] not in drop)
        tie_linear(ctx, out, r, tiekey, desc, exact, keyf)
        oracle_linear(ctx, r, keyf, desc, exact=exact)
        # the transposed model taken BEFORE the modification / re-assignment behaves like one taken now
        def eqn(a, b):
            return (a is None and b is None) or (a is not None and b is not None and not differ(a, b, exact))
        tb = []
        if not eqn(r["tbfwd"], r["tfwd"]):
            tb.append("T taken earlier: forward differs from the forward of T taken now")
        if "tgm" not in drop and not eqn(r["tbgm"], r["tgm"]):
            tb.append("T taken earlier: get_matrix() differs from that of T taken now")
        if tb:
            ctx.disagree(tiekey, desc, "same as a transposed model taken now", tb, "transposed model taken before the modification is stale")
            ctx.fail(tiekey, desc, "T taken earlier = T taken now (both follow the current matrix / geometry)", tb, "transposed model taken before an in-place modification is stale")
            ctx.fail(keyf("T-stale"), desc, "T taken earlier = T taken now (both follow the current matrix / geometry)", tb, "transposed model taken before an in-place modification is stale")

    LAYOUTS = ("C", "F", "Tview", "strided", "int64", "float32", "csc", "csr", "readonly", "float16", "int8", "uint8", "bool")
    MUTS = ("none", "entry", "diag", "via-get_matrix")
    def history_mb(layout, mut, nR, nD, expansion=False):
        A0 = nrs.randint(-3, 4, size=(nR, nD)).astype(float); A0[nR - 1, 0] = 3.0; A0[0, nD - 1] = -2.0
        if layout in ("uint8", "bool"):
            A0 = np.abs(A0)
        if layout == "bool":
            A0 = (A0 != 0).astype(float); A0[0, 0] = 0.0
        A1 = A0.copy()
        if mut == "entry":
            A1[min(1, nR - 1), min(2, nD - 1)] += 10
        elif mut == "diag":
            if layout in ("csc", "csr"):
                A1 = 3 * A1          # sparse: scale the stored data in place
            else:
                np.fill_diagonal(A1, 0)
        elif mut == "via-get_matrix":
            A1 = 3 * A1
        gd_ = gS(nD, max(1, nD // 2)) if expansion else g1(rng.choice(["Continuous1D", "Discrete", "Default1D"]), nD)
        gr_ = g1(rng.choice(["Continuous1D", "Discrete", "Default1D"]), nR)
        fam = "expansion" if expansion else "plain"
        exact = not expansion
        desc = {"history": "matrix modified in place after first use", "layout": layout, "mutation": mut, "A_before": A0.tolist(), "A_after": A1.tolist(),
                "dom": gd_.label, "rng": gr_.label}
        tag = f"@history:{layout}:{mut}"
        keyf = lambda aspect: f"LinearModel:{aspect}:mb:{fam}:{gd_.label}>{gr_.label}{tag}"
        tiekey = f"tie:LinearModel:mb:history:{layout}:{mut}"
        def h(out):
            ctx.case("lin-history-mb", desc)
            if layout == "C": obj = np.array(A0, order="C")
            elif layout == "F": obj = np.asfortranarray(A0)
            elif layout == "Tview": obj = np.array(A0.T, order="C").T
            elif layout == "strided":
                big = np.zeros((2 * nR, 2 * nD)); big[::2, ::2] = A0; obj = big[::2, ::2]
            elif layout == "int64": obj = A0.astype(np.int64)
            elif layout == "float32": obj = A0.astype(np.float32)
            elif layout in ("float16", "int8", "uint8", "bool"): obj = A0.astype({"float16": np.float16, "int8": np.int8, "uint8": np.uint8, "bool": bool}[layout])
            elif layout == "csc": obj = csc_matrix(A0)
            elif layout == "csr": obj = csr_matrix(A0)
            else:
                obj = np.array(A0); obj.setflags(write=False)
            with quiet():
                M = LinearModel(obj, range_geometry=gr_.make(), domain_geometry=gd_.make())
                # first use (fills whatever caches exist)
                M.forward(np.ones(M.domain_dim)); M.adjoint(np.ones(M.range_dim)); M.get_matrix()
                Tb = M.T
                try:
                    Tb.forward(np.ones(M.range_dim)); Tb.get_matrix()
                except Exception:
                    pass          # (T of expansion geometries raises: known finding, reported by the oracle below)
            if not np.array_equal(dense(obj), A0):
                ctx.fail(keyf("caller-array-modified"), desc, "matrix untouched by read-only use", dense(obj).tolist(), "first use of the model modified the caller's matrix")
            with quiet():
                if mut == "entry":
                    obj[min(1, nR - 1), min(2, nD - 1)] += 10
                elif mut == "diag":
                    if layout in ("csc", "csr"): obj.data *= 3
                    else: np.fill_diagonal(obj, 0)
                elif mut == "via-get_matrix":
                    Gm = M.get_matrix()
                    if layout in ("csc", "csr"): Gm.data *= 3
                    else: Gm[:] *= 3
            if not np.array_equal(dense(obj), A1):
                ctx.note(f"history generator: array after mutation is not the predicted one ({layout}, {mut})"); return
            after_history(ctx, out, probe_obj(M, Tb), tiekey, desc, keyf, exact)
        jobs.append((f"lin mb {qm(A1)} - {gd_.token} {gr_.token}", h))

    for layout in LAYOUTS:
        for mut in MUTS:
            if layout in ("readonly", "bool") and mut != "none":
                continue
            if layout in ("csc", "csr") and mut == "entry":
                continue          # (assigning a single entry of a sparse matrix is not an in-place update of its data)
            nR, nD = rng.choice([(3, 3), (3, 4), (4, 3)])
            history_mb(layout, mut, nR, nD)
            if thorough or (layout in ("C", "F", "csr") and mut in ("entry", "via-get_matrix")):
                history_mb(layout, mut, nR, nD, expansion=True)

    # ---- COMPLEX matrices (dense / csc / csr, and complex function pairs): the model is stated over every commutative
    # ring, so its prediction is F_R·A·E_D and F_D·Aᵀ·E_R with the PLAIN transpose (bilinear pairing Σ u_i v_i, which is
    # what the real case and the code's `.T` mean); real geometries make the maps linear in A, so the prediction for
    # A = Ar + i·Ai is P(Ar) + i·P(Ai) — two real driver lines.
    def complex_case(kind, sparse, gd_, gr_, name):
        nD, nR = gd_.fun_dim, gr_.fun_dim
        if name == "dft":
            k_ = np.arange(nR)[:, None] * np.arange(nD)[None, :]
            Ac = np.exp(-2j * np.pi * k_ / max(nD, nR))
        else:
            Ac = nrs.randint(-3, 4, size=(nR, nD)) + 1j * nrs.randint(-3, 4, size=(nR, nD))
            Ac[0, 0] = 1 + 2j
        Ac = Ac.astype(complex)
        desc = {"kind": kind, "matrix": "complex " + name, "sparse": sparse, "A_real": Ac.real.tolist(), "A_imag": Ac.imag.tolist(), "dom": gd_.label, "rng": gr_.label}
        keyf = lambda aspect: f"LinearModel:{aspect}:{kind}:plain:{gd_.label}>{gr_.label}@complex:{sparse}"
        tiekey = f"tie:LinearModel:{kind}:complex:{sparse}"
        store = {}
        def mk():
            if kind == "mb":
                return LinearModel({"dense": Ac, "csc": csc_matrix(Ac), "csr": csr_matrix(Ac)}[sparse], range_geometry=gr_.make(), domain_geometry=gd_.make())
            return LinearModel(lambda x: (Ac @ np.asarray(x).ravel()).reshape(gr_.fun_shape), lambda y: (Ac.T @ np.asarray(y).ravel()).reshape(gd_.fun_shape),
                               gr_.make(), gd_.make())
        def h_re(out):
            store["re"] = out
        def h_im(out):
            ctx.case("lin-complex-" + kind, desc)
            fr, fi = fields(store["re"]), fields(out)
            with quiet():
                M = mk(); r = probe_obj(M, M.T)
            ok = True
            for nm_ in ("fwd", "adj", "gm", "tfwd", "tadj", "tgm"):
                if fr.get(nm_, "err") == "err" or fi.get(nm_, "err") == "err":
                    continue
                pred = parse_L(fr[nm_]) + 1j * parse_L(fi[nm_])
                if r[nm_] is None or not same(pred, r[nm_], name != "dft"):
                    ctx.disagree(tiekey, {**desc, "what": nm_}, str(pred.tolist())[:300], r.get(nm_ + "_err") if r[nm_] is None else str(r[nm_].tolist())[:300],
                                 f"{nm_} of a complex model differs from the model's (plain-transpose) prediction")
                    ok = False
            # the identity itself with complex vectors, bilinear pairing
            rr = np.random.RandomState(nD * 7 + nR)
            x = rr.randint(-3, 4, size=M.domain_dim) + 1j * rr.randint(-3, 4, size=M.domain_dim)
            y = rr.randint(-3, 4, size=M.range_dim) + 1j * rr.randint(-3, 4, size=M.range_dim)
            with quiet():
                lhs = complex(np.sum(fl(M.forward(x)).ravel() * y)); rhs = complex(np.sum(x * fl(M.adjoint(y)).ravel()))
            r["ip"] = []
            ipbad = abs(lhs - rhs) > 1e-9 * np.abs(Ac).max() * np.abs(x).sum() * np.abs(y).sum()
            if not ok or ipbad:
                c = _Collector(); oracle_linear(c, r, keyf, desc, exact=(name != "dft"))
                for fl_ in c.failures:
                    ctx.fail(tiekey, fl_[1], fl_[2], fl_[3], fl_[4])
                if ipbad:
                    ctx.fail(tiekey, {**desc, "x": str(x.tolist()), "y": str(y.tolist())}, str(lhs), str(rhs), "<A x, y> != <x, A* y> (bilinear pairing) for a complex model")
            if ipbad:
                ctx.fail(keyf("adjoint"), {**desc, "x": str(x.tolist()), "y": str(y.tolist())}, str(lhs), str(rhs), "<A x, y> != <x, A* y> (bilinear pairing) for a complex model")
            oracle_linear(ctx, r, keyf, desc, exact=(name != "dft"))
        Br, Bi = Ac.real.T, Ac.imag.T
        jobs.append((f"lin {kind} {qm(Ac.real)} {'-' if kind == 'mb' else qm(Br)} {gd_.token} {gr_.token}", h_re))
        jobs.append((f"lin {kind} {qm(Ac.imag)} {'-' if kind == 'mb' else qm(Bi)} {gd_.token} {gr_.token}", h_im))

    for name in ("int", "dft"):
        for kind, sp in (("mb", "dense"), ("mb", "csc"), ("mb", "csr"), ("fn", "dense")):
            nD, nR = rng.choice([(3, 3), (4, 3), (3, 5)])
            lab = rng.choice(["Continuous1D", "Discrete", "Default1D"])
            complex_case(kind, sp, g1(lab, nD), g1(lab, nR), name)
    complex_case("fn", "dense", gI(2, 2, "F"), gI(2, 3, "C"), "int")

    # ---- the same user objects (matrix array, geometry objects, callables) in a SECOND owner: a model must keep giving the
    # results of a stand-alone model after another model / a shallow copy sharing its objects has been built and used
    import copy as _copy
    for kind in ("mb", "fn"):
        nR, nD = rng.choice([(3, 4), (4, 3), (3, 3)])
        A0 = nrs.randint(-3, 4, size=(nR, nD)).astype(float)
        Dg, Rg_ = (Continuous1D(nD), Continuous1D(nR)) if kind == "mb" else (_I2((1, nD), order="F"), Continuous1D(nR))
        fw = lambda x, A0=A0: A0 @ np.asarray(x).ravel()
        ad = lambda y, A0=A0, nD=nD, kind=kind: (A0.T @ np.asarray(y).ravel()).reshape((1, nD) if kind == "fn" else (nD,))
        mk1 = (lambda: LinearModel(A0, range_geometry=Rg_, domain_geometry=Dg)) if kind == "mb" else (lambda: LinearModel(fw, ad, Rg_, Dg))
        desc2 = {"history": "objects shared with a second model", "kind": kind, "A": A0.tolist()}
        ctx.case("lin-second-owner", desc2)
        k2 = f"LinearModel:second-owner:{kind}"
        try:
            with quiet():
                M1 = mk1(); F1 = cols(M1.forward, nD); A1_ = cols(M1.adjoint, nR); G1 = dense(M1.get_matrix())
                M2 = mk1(); M2.get_matrix(); T2 = M2.T; T2.forward(np.ones(nR)); T2.get_matrix()
                M3 = _copy.copy(M1); M3._non_default_args = ["z"]; M3.forward(z=np.ones(nD))
                M4 = LinearModel(A0.T, range_geometry=Dg, domain_geometry=Rg_) if kind == "mb" else LinearModel(ad, fw, Dg, Rg_)
                M4.forward(np.ones(nR)); M4.get_matrix()
                F1b = cols(M1.forward, nD); A1b = cols(M1.adjoint, nR); G1b = dense(M1.get_matrix()); TG = dense(M1.T.get_matrix())
            if differ(F1, A0, True) or differ(F1b, F1, True) or differ(A1b, A1_, True) or differ(G1b, G1, True) or differ(F1b.T, A1b, True) or differ(TG, G1b.T, True):
                ctx.fail(k2, desc2, "results of a stand-alone model, unchanged by other models sharing its matrix / geometries / callables", "changed",
                         "a second model (or a shallow copy) sharing the user's objects changes the first model's maps")
        except Exception as e:
            ctx.fail(k2, desc2, "forward / adjoint / get_matrix / T of models sharing the user's objects evaluate", repr(e)[:150],
                     "a model on plain (reshaping) geometries raises in forward / adjoint / get_matrix / T")

    # function-backed histories: get_matrix() (which caches) BEFORE T / further calls; a geometry RE-ASSIGNED after first use
    def history_fn(gd_, gr_, gd_new, cached):
        nD, nR = gd_.fun_dim, gr_.fun_dim
        A0 = nrs.randint(-3, 4, size=(nR, nD)).astype(float)
        gnow = gd_new or gd_
        reass = gd_new is not None
        desc = {"history": ("get_matrix() cached, then " if cached else "") + ("domain geometry re-assigned, then " if reass else "") + "forward/adjoint/get_matrix/T",
                "A": A0.tolist(), "dom": gd_.label, "rng": gr_.label, "dom_new": gd_new.label if reass else None, "dom_token": gnow.token[:40], "rng_token": gr_.token[:40]}
        tag = "@history:" + ("geometry-reassigned" if reass else "get_matrix-first") + ("-after-get_matrix" if (reass and cached) else "")
        fam = "expansion" if "expansion" in (gnow.family, gr_.family) else "plain"
        keyf = lambda aspect: f"LinearModel:{aspect}:fn:{fam}:{gnow.label}>{gr_.label}{tag}"
        tiekey = "tie:LinearModel:fn:history:" + tag[9:]
        def h(out):
            ctx.case("lin-history-fn", desc)
            with quiet():
                fsr = gr_.fun_shape
                M = LinearModel(lambda x: (A0 @ x.ravel()).reshape(fsr), lambda y: (A0.T @ y.ravel()).reshape(M.domain_geometry.fun_shape),
                                gr_.make(), gd_.make())
                M.forward(np.ones(M.domain_dim)); M.adjoint(np.ones(M.range_dim))
                if cached:
                    M.get_matrix()
                if reass:
                    M.domain_geometry = gd_new.make()
                Tb = M.T
            # with a cached matrix and a new geometry the model (which has no cache) does not predict get_matrix / T.get_matrix
            drop = ("gm", "tgm") if (reass and cached) else ()
            after_history(ctx, out, probe_obj(M, Tb), tiekey, desc, keyf, gnow.exact and gr_.exact, drop=drop)
        jobs.append((f"lin fn {qm(A0)} {qm(A0.T)} {gnow.token} {gr_.token}", h))

    for cached in (True, False):
        history_fn(gI(2, 3, "C"), gI(3, 2, "F"), None, cached)
        history_fn(g1("Continuous1D", 4), gI(2, 2, "F"), None, cached)
        history_fn(gI(2, 2, "F"), g1("Discrete", 3), None, cached)
        history_fn(gI(2, 3, "C"), g1("Continuous1D", 4), gI(2, 3, "F"), cached)
        history_fn(g1("Continuous1D", 4), g1("Continuous1D", 3), gI(2, 2, "F"), cached)

    # ---- random op HISTORIES of ONE object against the object model (`hist`, Model/C07_obj.lean): `get_matrix()` stores its result
    # in `self._matrix`, geometries are re-assigned before / after that, `T` is taken at the end (copies `self._matrix.T`).
    def hist_pool(n):
        pool = [g1("Continuous1D", n), g1("Discrete", n), gS(n, n)]
        for r_ in range(2, n):
            if n % r_ == 0:
                pool += [gI(r_, n // r_, "C"), gI(r_, n // r_, "F"), gC2(r_, n // r_)]
        return pool

    def same_shape_pool(g):
        """geometries with the same FUNCTION SHAPE as g (re-assignments after `T` was taken keep the shape)"""
        if len(g.fun_shape) == 1:
            n_ = g.fun_shape[0]
            return [g1("Continuous1D", n_), g1("Discrete", n_), gS(n_, n_)]
        r_, c_ = g.fun_shape
        return [gI(r_, c_, "C"), gI(r_, c_, "F"), gC2(r_, c_)]

    def pool1(n):
        return [g1("Continuous1D", n), g1("Discrete", n), g1("Default1D", n), gS(n, n), gS(n, n // 2)]

    def hist_case(nD, nR, ops, wrong_adjoint=False, gd0=None, gr0=None, kind="fn"):
        """ops: list of 'gm' | 'T' | ('sd', GSpec) | ('sr', GSpec)"""
        poolD, poolR = (hist_pool(nD), hist_pool(nR)) if kind == "fn" else (pool1(nD), pool1(nR))
        gd0 = gd0 or rng.choice(poolD); gr0 = gr0 or rng.choice(poolR)
        A0 = nrs.randint(-3, 4, size=(nR, nD)).astype(float)
        B0 = A0.T.copy()
        if wrong_adjoint:
            B0 = nrs.randint(-3, 4, size=(nD, nR)).astype(float)
            if np.array_equal(B0, A0.T):
                B0[0, 0] += 1
        optoks = [o if isinstance(o, str) else f"{o[0]}={o[1].token}" for o in ops]
        oplabels = [o if isinstance(o, str) else f"{o[0]}={o[1].label}" for o in ops]
        gdF, grF = gd0, gr0
        cached_at = None; stale = False; t_at = None; after_T = False; gdT = grT = None
        for i_, o in enumerate(ops):
            if o == "gm":
                cached_at = i_ if cached_at is None else cached_at
            elif o == "T":
                t_at = i_; gdT, grT = gdF, grF; after_T = False
            else:
                if cached_at is not None and kind == "fn":
                    stale = True
                if t_at is not None:
                    after_T = True
                if o[0] == "sd":
                    gdF = o[1]
                else:
                    grF = o[1]
        desc = {"history": oplabels, "kind": kind, "A": A0.tolist(), "B": B0.tolist() if wrong_adjoint else "A^T", "dom0": gd0.label, "rng0": gr0.label, "dom0_token": gd0.token, "rng0_token": gr0.token,
                "ops": optoks}
        allg = [gd0, gr0, gdF, grF] + [o[1] for o in ops if not isinstance(o, str)]
        fam = "expansion" if any(g_.family == "expansion" and not (g_.label == "StepExpansion" and g_.par_dim == g_.fun_dim) for g_ in allg) else "plain"
        tag = "@history:geometry-reassigned-after-get_matrix" if stale else "@history:ops"
        keyf = lambda aspect: f"LinearModel:{aspect}:{kind}:{fam}:{gdF.label}>{grF.label}{tag}"
        tiekey = f"tie:LinearModel:{kind}:object-history"
        hh = ctx.extra_cov.setdefault("object_histories", {})
        kk = f"{kind}:len={len(ops)}:{'stale' if stale else ('cached' if cached_at is not None else 'uncached')}:{'wrong-adjoint' if wrong_adjoint else 'adjoint-pair'}" + \
             ("" if t_at is None else (":keptT-then-reassigned" if after_T else ":keptT"))
        hh[kk] = hh.get(kk, 0) + 1

        def h(out):
            ctx.case("lin-object-history", desc)
            obs = {}
            with quiet():
                if kind == "fn":
                    M = LinearModel(lambda x: (A0 @ np.asarray(x).ravel()).reshape(M.range_geometry.fun_shape),
                                    lambda y: (B0 @ np.asarray(y).ravel()).reshape(M.domain_geometry.fun_shape), gr0.make(), gd0.make())
                else:
                    M = LinearModel(A0.copy(), range_geometry=gr0.make(), domain_geometry=gd0.make())
                Tk = None
                for o in ops:
                    try:
                        if o == "gm":
                            M.get_matrix()
                        elif o == "T":
                            Tk = M.T
                        elif o[0] == "sd":
                            M.domain_geometry = o[1].make()
                        else:
                            M.range_geometry = o[1].make()
                    except Exception:
                        pass
                n_, m_ = int(M.domain_dim), int(M.range_dim)
                probes = []
                if Tk is not None:
                    probes += [("ktfwd", lambda: cols(Tk.forward, int(Tk.domain_dim))), ("ktadj", lambda: cols(Tk.adjoint, int(Tk.range_dim))),
                               ("ktgm", lambda: dense(Tk.get_matrix()))]
                probes += [("fwd", lambda: cols(M.forward, n_)), ("adj", lambda: cols(M.adjoint, m_)),
                           ("ttfwd", lambda: cols(M.T.T.forward, n_)), ("ttadj", lambda: cols(M.T.T.adjoint, m_)),
                           ("tfwd", lambda: cols(M.T.forward, m_)), ("tadj", lambda: cols(M.T.adjoint, n_)),
                           ("tgm", lambda: dense(M.T.get_matrix())), ("gm", lambda: dense(M.get_matrix()))]
                for nm_, fn_ in probes:
                    try:
                        obs[nm_] = np.array(fl(fn_()), copy=True)
                    except Exception as e:
                        obs[nm_] = None; obs[nm_ + "_err"] = repr(e)[:100]
            exact = all(g_.exact for g_ in allg)
            if out == "err":
                if obs["fwd"] is not None and obs["adj"] is not None:
                    ctx.disagree(tiekey, desc, "err", "evaluates", "model predicts a shape error")
                return
            f = fields(out)
            broken = []
            for nm_ in ("fwd", "adj", "gm", "tfwd", "tadj", "tgm") + (("ktfwd", "ktadj", "ktgm") if Tk is not None else ()):
                mv = None if f[nm_] == "err" else parse_L(f[nm_])
                iv = obs[nm_]
                if (mv is None) != (iv is None) or (mv is not None and not same(mv, iv, exact)):
                    broken.append(nm_)
            # the property on the object in its final state
            F_, Ad_, G_, TG_ = obs["fwd"], obs["adj"], obs["gm"], obs["tgm"]
            fails = []
            if F_ is not None and fam == "plain":
                if G_ is None or differ(G_, F_, exact):
                    fails.append((keyf("get_matrix"), "get_matrix()[:, j] = forward(e_j) after the history", None if G_ is None else G_.tolist(),
                                  "matrix representation does not reproduce the forward map column by column"))
                if not wrong_adjoint and (TG_ is None or differ(TG_, F_.T, exact)):
                    fails.append((keyf("get_matrix") if stale else keyf("T"), "T.get_matrix() = forward^T after the history", None if TG_ is None else TG_.tolist(),
                                  "the transposed model's matrix is not the transpose of the forward map"))
                if not wrong_adjoint and (Ad_ is None or differ(Ad_, F_.T, exact)):
                    fails.append((keyf("adjoint"), "matrix of adjoint = transpose of matrix of forward", None if Ad_ is None else Ad_.tolist(), "<A x, y> != <x, A* y>"))
                # the double transpose swaps back (implementation-only oracle): M.T.T.forward = M.forward, M.T.T.adjoint = M.adjoint
                if obs.get("ttfwd") is None or differ(obs["ttfwd"], F_, exact) or (Ad_ is not None and (obs.get("ttadj") is None or differ(obs["ttadj"], Ad_, exact))):
                    fails.append((keyf("T.T"), "M.T.T.forward = M.forward and M.T.T.adjoint = M.adjoint", {"T.T.forward": None if obs.get("ttfwd") is None else obs["ttfwd"].tolist()},
                                  "the double transpose does not swap forward and adjoint back"))
                # the KEPT transposed model is itself a linear model the library constructed: its adjoint must be the transpose of its forward, and
                # its matrix must reproduce its forward map
                if Tk is not None and not wrong_adjoint:
                    ktag = "@history:geometry-reassigned-after-T" if after_T else tag
                    kkey = lambda aspect: f"LinearModel:{aspect}:{kind}:{fam}:{gdF.label}>{grF.label}{ktag}"
                    KF, KA, KG = obs["ktfwd"], obs["ktadj"], obs["ktgm"]
                    if KF is None or KA is None or differ(KF.T, KA, exact):
                        fails.append((kkey("T-kept"), "kept T: matrix of T.adjoint = transpose of matrix of T.forward", {"T.forward": None if KF is None else KF.tolist(), "T.adjoint": None if KA is None else KA.tolist()},
                                      "<T x, y> != <x, T* y> for a transposed model kept across a geometry re-assignment of its parent"))
                    if KF is not None and (KG is None or differ(KG, KF, exact)):
                        fails.append((kkey("get_matrix") if (stale and not after_T) else kkey("T-kept"), "kept T: get_matrix()[:, j] = T.forward(e_j)", None if KG is None else KG.tolist(),
                                      "the kept transposed model's matrix does not reproduce its forward map"))
            if broken:
                ctx.disagree(tiekey, {**desc, "differs": broken}, out[:400], {k_: (None if obs[k_] is None else obs[k_].tolist()) for k_ in broken},
                             "object after the history differs from the object model (get_matrix cache / current geometries / T's copied matrix / kept T)")
                for (_k, dem, got, what) in fails:
                    ctx.fail(tiekey, desc, dem, got, what)
            for (k_, dem, got, what) in fails:
                ctx.fail(k_, desc, dem, got, what)
        jobs.append((f"hist {kind} {qm(A0)} {'-' if kind == 'mb' else qm(B0)} {gd0.token} {gr0.token} {'|'.join(optoks) if optoks else '_'}", h))

    def random_history(kind):
        nD_, nR_ = rng.choice([4, 6]), rng.choice([3, 4, 6])
        pD, pR = (hist_pool(nD_), hist_pool(nR_)) if kind == "fn" else (pool1(nD_), pool1(nR_))
        gd_, gr_ = rng.choice(pD), rng.choice(pR)
        gdc, grc = gd_, gr_
        L_ = rng.randrange(0, 6)
        ops_ = []; tookT = False
        withT = rng.random() < 0.5
        for _j in range(L_):
            u_ = rng.random()
            if withT and not tookT and u_ < 0.3:
                ops_.append("T"); tookT = True
            elif u_ < 0.45:
                ops_.append("gm")
            elif u_ < 0.75:
                gdc = rng.choice(same_shape_pool(gdc) if tookT else pD); ops_.append(("sd", gdc))
            else:
                grc = rng.choice(same_shape_pool(grc) if tookT else pR); ops_.append(("sr", grc))
        hist_case(nD_, nR_, ops_, wrong_adjoint=(kind == "fn" and rng.random() < 0.2), gd0=gd_, gr0=gr_, kind=kind)

    for _ in range(36 if not thorough else 300):
        random_history("fn")
    for _ in range(10 if not thorough else 80):
        random_history("mb")
    # fixed histories: the witnesses of cache_stale_counterexample / tGetMatrix_history_dependent_counterexample, re-assignment before caching
    hist_case(4, 4, ["gm", ("sd", gI(2, 2, "F"))], gd0=g1("Continuous1D", 4), gr0=g1("Continuous1D", 4))
    hist_case(4, 4, [("sd", gI(2, 2, "F")), "gm"], gd0=g1("Continuous1D", 4), gr0=g1("Continuous1D", 4))
    hist_case(4, 3, ["gm"], wrong_adjoint=True); hist_case(4, 3, [], wrong_adjoint=True)
    hist_case(6, 4, ["gm", ("sr", gI(2, 2, "F")), "gm", ("sd", gI(3, 2, "F"))]); hist_case(6, 6, [("sd", gI(2, 3, "F")), ("sr", gC2(3, 2)), "gm", "gm"])
    # rarely hit branches of the object model: get_matrix() RAISING (0-d column of a one-parameter squeezing range; shape error after a
    # re-assignment to a geometry of another size) leaves nothing cached; a later get_matrix() then works
    hist_case(4, 4, ["gm", ("sr", g1("Continuous1D", 4)), "gm"], gd0=g1("Continuous1D", 4), gr0=gS(4, 1))
    hist_case(4, 4, [("sd", g1("Continuous1D", 5)), "gm", ("sd", gI(2, 2, "F")), "gm"], gd0=g1("Continuous1D", 4), gr0=g1("Discrete", 4))
    hist_case(4, 4, [("sr", g1("Continuous1D", 3))], gd0=g1("Continuous1D", 4), gr0=g1("Discrete", 4))
    hist_case(4, 4, ["T", ("sr", gS(4, 1)), "gm"], gd0=g1("Continuous1D", 4), gr0=g1("Continuous1D", 4)); hist_case(4, 4, ["gm", "T", ("sd", gS(4, 2))], gd0=gS(4, 4), gr0=g1("Discrete", 4))
    # kept transposed model: witnesses of keptT_stale_counterexample (range / domain re-assigned after T), T after a cached matrix, matrix-backed parent
    hist_case(4, 4, ["T", ("sr", gI(2, 2, "F"))], gd0=gI(2, 2, "C"), gr0=gI(2, 2, "C")); hist_case(4, 4, ["T", ("sd", gI(2, 2, "F"))], gd0=gI(2, 2, "C"), gr0=gI(2, 2, "C"))
    hist_case(6, 4, ["gm", "T", ("sd", gC2(2, 3)), "gm"], gd0=gI(2, 3, "F"), gr0=gI(2, 2, "F")); hist_case(4, 4, ["T", "gm", ("sr", g1("Discrete", 4))], gd0=g1("Continuous1D", 4), gr0=g1("Continuous1D", 4))
    hist_case(4, 3, ["T", ("sd", gS(4, 2))], kind="mb", gd0=g1("Continuous1D", 4), gr0=g1("Continuous1D", 3)); hist_case(4, 4, ["gm", "T", ("sr", g1("Discrete", 4)), ("sd", gS(4, 4))], kind="mb")

    # ---- representation decisions of `_apply_func` against their transcription (`repr`, Model/C07_repr.lean): plain / CUQIarray inputs,
    # is_par True / False, the model's own geometry tags and FOREIGN tags, subclass-keeping and subclass-stripping callables
    from cuqi.array import CUQIarray as _CA
    def repr_pool(n):
        out_ = [g1("Continuous1D", n), g1("Discrete", n), g1("Default1D", n), gS(n, n), gM(n, m4, "Mapped-scale")]
        for r_ in range(2, n):
            if n % r_ == 0:
                out_ += [gI(r_, n // r_, "C"), gI(r_, n // r_, "F"), gC2(r_, n // r_)]
        return out_

    def repr_case(gd_, gr_, gf_, keeps):
        nD, nR = gd_.fun_dim, gr_.fun_dim
        A0 = nrs.randint(-3, 4, size=(nR, nD)).astype(float)
        with quiet():
            G = [gd_.make(), gr_.make(), gf_.make()]
            try:
                geq = [[bool(G[a] == G[b]) for b in range(3)] for a in range(3)]
            except Exception:
                return
            tt = []
            for a in range(3):
                other = G[(a + 1) % 3]
                try:
                    tt.append(isinstance(G[a].par2fun(_CA(np.ones(int(G[a].par_dim)), is_par=True, geometry=other)), _CA))
                except Exception:
                    tt.append(False)
            fsD, fsR = gd_.fun_shape, gr_.fun_shape
            if keeps:
                M = LinearModel(lambda x: (A0 @ x.ravel()).reshape(fsR), lambda y: (A0.T @ y.ravel()).reshape(fsD), G[1], G[0])
            else:
                M = LinearModel(lambda x: (A0 @ np.asarray(x).ravel()).reshape(fsR), lambda y: (A0.T @ np.asarray(y).ravel()).reshape(fsD), G[1], G[0])
        geqs = "".join("1" if geq[a][b] else "0" for a in range(3) for b in range(3)); tts = "".join("1" if t_ else "0" for t_ in tt)
        specs = [gd_, gr_, gf_]
        exact = gd_.exact and gr_.exact and gf_.exact
        results = {}
        for op, Cm, di, ri, meth in (("forward", A0, 0, 1, M.forward), ("adjoint", A0.T, 1, 0, M.adjoint)):
            gdS = specs[di]
            p_ = nrs.randint(-4, 5, size=gdS.par_dim).astype(float)
            fv = (gdS.E @ p_)
            reps = [("plain-par", "plain", 1, lambda: p_.copy(), p_), ("plain-fun", "plain", 0, lambda: fv.reshape(gdS.fun_shape).copy(), fv),
                    ("own-par", f"cu:{di}:1", 1, lambda: _CA(p_.copy(), is_par=True, geometry=G[di]), p_),
                    ("own-fun", f"cu:{di}:0", 0, lambda: _CA(fv.reshape(gdS.fun_shape).copy(), is_par=False, geometry=G[di]), fv)]
            if gf_.par_dim == gdS.par_dim:
                reps.append(("foreign-par", "cu:2:1", 1, lambda: _CA(p_.copy(), is_par=True, geometry=G[2]), p_))
            if specs[ri].par_dim == gdS.par_dim:
                reps.append(("other-side-par", f"cu:{ri}:1", 1, lambda: _CA(p_.copy(), is_par=True, geometry=G[ri]), p_))
            if gf_.fun_shape == gdS.fun_shape:
                reps.append(("foreign-fun", "cu:2:0", 0, lambda: _CA(fv.reshape(gdS.fun_shape).copy(), is_par=False, geometry=G[2]), fv))
            for (rname, tagtok, ip, mk, vec) in reps:
                desc = {"op": op, "representation": rname, "is_par": bool(ip), "callable_keeps_subclass": keeps, "dom": gd_.label, "rng": gr_.label, "foreign": gf_.label,
                        "A": A0.tolist(), "input": np.asarray(vec).tolist(), "geometry_eq": geq, "par2fun_keeps_tag": tt,
                        "tag": None if tagtok == "plain" else [int(tagtok.split(":")[1]), tagtok.split(":")[2] == "1"], "ids": [di, ri]}
                try:
                    with quiet():
                        o_ = meth(mk(), is_par=bool(ip))
                    impl = (np.array(_plain(o_).reshape(-1), copy=True), "cu" if type(o_) is _CA else "plain")
                except Exception as e:
                    impl = repr(e)[:100]
                def h(out, desc=desc, impl=impl, op=op, rname=rname):
                    ctx.case("lin-repr-decision", desc)
                    hh = ctx.extra_cov.setdefault("repr_decisions", {})
                    kk = f"{op}:{rname}:{'keeps' if keeps else 'strips'}"
                    hh[kk] = hh.get(kk, 0) + 1
                    # which branch of the transcription this input takes (coverage labelling only)
                    tg_ = desc["tag"]; gdi, gri = desc["ids"]
                    if tg_ is None:
                        b1, otag = ("plain-par" if desc["is_par"] else "plain-fun"), None
                    elif geq[tg_[0]][gdi]:
                        b1, otag = ("cu-eq-par" if tg_[1] else "cu-eq-fun"), (tg_[0], False)
                    elif desc["is_par"]:
                        b1, otag = ("cu-neq-par-tagkept", tg_) if tt[gdi] else ("cu-neq-par-tagdropped", None)
                    else:
                        b1, otag = "cu-neq-fun", tg_
                    if not keeps:
                        otag = None
                    b2 = "plain" if otag is None else ("cu-neq" if not geq[otag[0]][gri] else ("cu-eq-noconversion" if otag[1] else "cu-eq-parameters"))
                    hb = ctx.extra_cov.setdefault("repr_branches", {})
                    hb[f"_2fun:{b1}"] = hb.get(f"_2fun:{b1}", 0) + 1; hb[f"_2par:{b2}"] = hb.get(f"_2par:{b2}", 0) + 1
                    key = f"tie:LinearModel:repr-decision:{op}:{rname}"
                    if isinstance(impl, str):
                        if rname in ("plain-par", "plain-fun", "own-par", "own-fun"):
                            ctx.disagree(key, desc, out[:200], impl, "the implementation raises on an input representation the model evaluates")
                            ctx.fail(key, desc, "forward / adjoint accept this representation of the input", impl, "raises")
                        return
                    vtxt, _, wtxt = out.partition(" ")
                    mv = parse_L(vtxt).reshape(-1) if vtxt != "_" else np.zeros(0)
                    if mv.shape != impl[0].shape or not same(mv.reshape(1, -1), impl[0].reshape(1, -1), exact) or wtxt != impl[1]:
                        ctx.disagree(key, desc, out[:300], [impl[0].tolist(), impl[1]], "result of _apply_func differs from the transcribed representation decisions (_2fun / funvals / callable / _2par / parameters / wrapping)")
                        results.setdefault(op, {})["tie-broken"] = True
                    results.setdefault(op, {})[rname] = (impl[0], desc)
                jobs.append((f"repr {qm(Cm)} {1 if keeps else 0} {gd_.token} {gr_.token} {gf_.token} {geqs} {tts} {di} {ri} {tagtok} {ip} {qv(vec)}", h))
        # oracle (after the handlers of this case ran): the result must not depend on the representation of the input
        def h_or(out):
            asym = any(geq[a][b] != geq[b][a] for a in range(3) for b in range(3)) or (geq[0][1] and type(G[0]) is not type(G[1]))
            for op, d_ in results.items():
                ref = d_.get("plain-par")
                for rname in ("plain-fun", "own-par", "own-fun"):
                    if ref is None or rname not in d_:
                        continue
                    got = d_[rname][0]
                    if got.shape != ref[0].shape or differ(got.reshape(1, -1), ref[0].reshape(1, -1), exact):
                        k_ = (f"LinearModel:{op}-repr:geometry-eq-asymmetric:{gd_.label}>{gr_.label}" if asym else f"LinearModel:{op}-repr-decision:{rname}:{gd_.label}>{gr_.label}")
                        if d_.get("tie-broken"):
                            ctx.fail(f"tie:LinearModel:repr-decision:{op}:{rname}", d_[rname][1], ref[0].tolist(), got.tolist(), f"{op}(x) depends on the representation of x")
                        ctx.fail(k_, d_[rname][1], ref[0].tolist(), got.tolist(), f"{op}(x) depends on the representation of x (plain parameters vs {rname})")
        jobs.append(("geom id:1", h_or))

    for n_ in ((4, 6) if not thorough else (4, 6, 8, 9)):
        pool_ = repr_pool(n_)
        for i_r in range(6 if not thorough else 26):
            gd_, gr_, gf_ = rng.choice(pool_), rng.choice(pool_), rng.choice(pool_)
            if i_r % 3 == 2:
                gf_ = rng.choice([gd_, gr_])          # a "foreign" object EQUAL to one of the model's geometries (cu-eq / cu-eq-noconversion branches)
            repr_case(gd_, gr_, gf_, keeps=(i_r % 2 == 0))
    repr_case(GSpec("Default1D", "plain", lambda: _D1(4), "id:4"), gS(4, 2), g1("Continuous1D", 4), True)      # finding 9 inside the model
    repr_case(gS(4, 2), GSpec("Default1D", "plain", lambda: _D1(4), "id:4"), g1("Discrete", 4), True)
    repr_case(g1("Continuous1D", 4), gI(2, 2, "F"), gI(2, 2, "F"), True); repr_case(gI(2, 2, "C"), gI(2, 2, "F"), g1("Continuous1D", 4), False)
    repr_case(gI(2, 3, "F"), gI(3, 2, "F"), gI(2, 3, "C"), True); repr_case(gM(4, m4, "Mapped-scale"), gS(4, 4), gC2(2, 2), True)
    # rarely hit branches (histogram `repr_branches`): equal domain and range geometries (`out.parameters` converts), expansion domain whose
    # par2fun returns a fresh ndarray (foreign tag dropped)
    repr_case(gI(2, 2, "F"), gI(2, 2, "F"), gI(2, 2, "C"), True); repr_case(gC2(2, 3), gC2(2, 3), gI(2, 3, "F"), True)
    repr_case(gS(4, 4), g1("Continuous1D", 4), g1("Discrete", 4), True); repr_case(gS(6, 6), gI(2, 3, "F"), g1("Continuous1D", 6), True)

    # the class of inputs where geometry equality is asymmetric: `_DefaultGeometry1D.__eq__` accepts every Continuous1D
    # subclass with the same grid, so a default domain "equals" a StepExpansion range on the grid 0..n-1 and the
    # CUQIarray output is never projected: known finding `LinearModel:repr:geometry-eq-asymmetric:*`
    w_c4 = GSpec("Default1D", "plain", lambda: _D1(4), "id:4")
    lin_case(w_c4, gS(4, 2), "mb", "dense", tag="@witness:geometry-eq", preserve=True, casekind="lin-geometry-eq")
    lin_case(gS(4, 2), w_c4, "mb", "dense", tag="@witness:geometry-eq", preserve=True, casekind="lin-geometry-eq")
    # geometries whose comparison raises (list-valued attributes of different lengths): `LinearModel:repr:geometry-eq-raises:*`
    lin_case(g1("Discrete", 3), g1("Discrete", 2), "mb", "dense", tag="@witness:geometry-eq", preserve=True, casekind="lin-geometry-eq")
    lin_case(g1("Discrete", 2), g1("Discrete", 4), "fn", "dense", tag="@witness:geometry-eq", preserve=True, casekind="lin-geometry-eq")
    lin_case(gS(4, 2), gS(4, 3), "mb", "dense", tag="@witness:geometry-eq", preserve=True, casekind="lin-geometry-eq")

    # malformed: matrix whose column count does not fit the domain geometry -> numpy raises in forward
    from cuqi.geometry import Continuous1D
    for (mr, mc, nd) in [(3, 4, 3), (2, 2, 5), (4, 3, 2)]:
        A = nrs.randint(-3, 4, size=(mr, mc)).astype(float)
        def h_mal(out, A=A, nd=nd):
            desc = {"malformed": "matrix cols != domain fun_dim", "A": A.tolist(), "domain": nd}
            ctx.case("lin-malformed", desc)
            try:
                with quiet():
                    LinearModel(A, range_geometry=Continuous1D(A.shape[0]), domain_geometry=Continuous1D(nd)).forward(np.ones(nd))
                impl = "ok"
            except Exception:
                impl = "err"
            if (out == "err") != (impl == "err"):
                ctx.disagree("tie:LinearModel:malformed", desc, out[:40], impl, "refusal differs")
        jobs.append((f"lin mb {qm(A)} - id:{nd} id:{A.shape[0]}", h_mal))
    # constructor refusals (no model side: fixed facts of the constructor)
    for what, fn in (("callable forward without adjoint", lambda: LinearModel(lambda x: x, None, 2, 2)),
                     ("callable pair without geometries", lambda: LinearModel(lambda x: x, lambda y: y))):
        ctx.case("lin-refusal", {"what": what}, nontrivial=False)
        try:
            with quiet():
                fn()
            ctx.fail("LinearModel:constructor:refusal", {"what": what}, "raises", "accepted", "constructor accepts an unusable linear model")
        except Exception:
            pass

    # ================================================================ Deconvolution1D
    from cuqi.testproblem import Deconvolution1D, Deconvolution2D, Abel1D
    from scipy.ndimage import convolve1d
    MODE1 = {"zero": "constant", "periodic": "wrap", "mirror": "mirror", "reflect": "reflect", "nearest": "nearest"}

    def int_psf(s, sym):
        P = nrs.randint(1, 6, size=s).astype(float)
        if sym:
            P = P + P[::-1]
        elif s >= 2 and np.array_equal(P, P[::-1]):
            P[0] += 1
        return P

    def deconv1_case(n, BC, P=None, named=None, size=None, param=None):
        kw = dict(dim=n, BC=BC)
        if P is not None:
            kw["PSF"] = P
        else:
            kw.update(PSF=named, PSF_size=size, PSF_param=param)
        desc = {"problem": "Deconvolution1D", "dim": n, "BC": BC, "PSF": P.tolist() if P is not None else named, "PSF_size": size, "PSF_param": param}
        try:
            with quiet():
                TP = Deconvolution1D(**kw)
            impl_ok = True
        except Exception as e:
            impl_ok = False; err = repr(e)[:100]
        if impl_ok and P is None:
            # the PSF the code built (leaf data for named PSFs)
            from cuqi.testproblem import _testproblem as tpm
            with quiet():
                Pl = {"gauss": tpm._GaussPSF_1D, "moffat": tpm._MoffatPSF_1D, "defocus": tpm._DefocusPSF_1D}[named.lower()](n if size is None else size, param)[0]
        else:
            Pl = P if P is not None else np.ones(1)
        exact = P is not None
        s = len(Pl)
        psfcls1 = named.lower() if named is not None else ("custom-sym" if np.array_equal(Pl, Pl[::-1]) else "custom-asym")
        cls = f"BC={BC.lower()}:PSF={psfcls1}:{'odd' if s % 2 else 'even'}"

        def h(out):
            ctx.case("deconv1d" + ("-named" if P is None else ""), desc)
            tiekey = f"tie:Deconvolution1D:{cls}"
            if not impl_ok or out == "err":
                if impl_ok != (out != "err"):
                    ctx.disagree(tiekey + ":refusal", desc, out[:40], "ok" if impl_ok else err, "refusal differs")
                return
            A = dense(TP.model.get_matrix())
            Mm = parse_L(out)
            tie_ok = same(Mm, A, exact)
            keyf = lambda aspect: f"LinearModel:{aspect}:mb:plain:Continuous1D>Continuous1D@Deconvolution1D:{cls}"
            res = probe(lambda: Deconvolution1D_model(TP))
            check_own_model(ctx, TP.model, res, tiekey, desc)
            if named is not None and named.lower() in ("gauss", "moffat") and not centred_symmetric(Pl):
                ctx.fail(f"Deconvolution1D:PSF={named.lower()}:centred-symmetric:{'odd' if s % 2 else 'even'}", {**desc, "PSF_array": Pl.tolist()},
                         "PSF symmetric about its centre pixel s//2", "asymmetric / off-centre", "the shipped Gauss/Moffat PSF is not the documented centred symmetric PSF")
            if not tie_ok:
                ctx.disagree(tiekey, desc, out[:300], str(A.tolist())[:300], "stored matrix differs from the model's assembly A[i,:] = conv(e_i)")
                c = _Collector(); oracle_linear(c, res, keyf, desc)
                for fl in c.failures:
                    ctx.fail(tiekey, fl[1], fl[2], fl[3], fl[4])
            oracle_linear(ctx, res, keyf, desc)
            # observation (C17's subject, not demanded by C07): the stored operator is the transpose of convolve1d
            mode = MODE1[BC.lower()]
            C = cols(lambda x: convolve1d(x, Pl, mode=mode), n)
            st = ctx.extra_cov.setdefault("deconv1d_vs_convolve1d", {"equal": 0, "transposed_only": 0, "other": 0})
            st["equal" if not differ(A, C, record=False) else "transposed_only" if not differ(A, C.T, record=False) else "other"] += 1   # observation only (no verdict): not in the margins
        if P is not None:
            jobs.append((f"deconv1 {BC} {n} {qv(Pl)}", h))
            return
        # named PSF: the MODEL builds the PSF (grid, profile, normalisation, defaults) and the matrix from the option values
        s_req = n if size is None else size
        gtok = "-"
        if named.lower() == "gauss" and param != 0:
            gtok = qv(gauss_profile(10.0 if param is None else float(param), (s_req // 2) ** 2))
        def hn(out):
            psf_hist(ctx, "1D:" + named.lower(), s_req, out if out in ("err", "nan") else "ok")
            if out == "err":
                return h("err")
            if out == "nan":
                ctx.case("deconv1d-named", desc)
                if not (impl_ok and np.isnan(Pl).all()):
                    ctx.disagree(f"tie:Deconvolution1D:{cls}:psf", desc, "NaN PSF", Pl.tolist() if impl_ok else err, "model predicts a NaN PSF")
                return
            f = fields(out)
            if impl_ok and not psf_same(f["psf"], Pl):
                ctx.disagree(f"tie:Deconvolution1D:{cls}:psf", desc, f["psf"][:300], Pl.tolist(), "the named PSF the code built differs from the model's PSF (grid / profile / normalisation / defaults)")
            return h(f["mat"])
        jobs.append((f"deconv1n {BC} {n} {named} {'none' if size is None else size} {'none' if param is None else q(param)} {gtok}", hn))

    def Deconvolution1D_model(TP):
        # a fresh LinearModel with the problem's matrix and geometries (get_matrix caching / T copy `_matrix`)
        M = TP.model
        return LinearModel(M._matrix, range_geometry=M.range_geometry, domain_geometry=M.domain_geometry)

    bcs1 = ["zero", "periodic", "mirror", "reflect", "nearest"]
    sizes1 = range(1, 7) if not thorough else range(1, 10)
    for BC in bcs1:
        for s in sizes1:
            for sym in (True, False):
                if s == 1 and not sym:
                    continue
                n = rng.choice([4, 5, 6, 7]) if not thorough else rng.choice(range(2, 12))
                deconv1_case(n, BC, P=int_psf(s, sym))
        deconv1_case(3, BC, P=int_psf(5, False))        # PSF longer than the signal
        for named in ("Gauss", "moffat", "Defocus"):
            for size in (None, 3, 4):
                deconv1_case(rng.choice([5, 6]), BC, named=named, size=size, param=rng.choice([None, 1.0, 1.5]))
    for BC in ("Periodic", "ZERO", "neumann", "foo"):
        deconv1_case(5, BC, P=int_psf(3, False))
    for named in ("gauss", "moffat", "defocus"):
        for prm in (1e-3, 0.3, 1e3):
            deconv1_case(6, rng.choice(bcs1), named=named, size=rng.choice([3, 5]), param=prm)
    deconv1_case(6, "periodic", P=1e-9 * int_psf(3, False)); deconv1_case(5, "zero", P=1e9 * int_psf(4, False))

    # scipy's convolve1d itself against `conv1` (the operator the theorems conv1_flip_adjoint / deconv1d_matrix speak about)
    for mode in ("constant", "wrap", "nearest", "reflect", "mirror"):
        for s_ in (list(range(1, 7)) if not thorough else list(range(1, 12))):
            n = rng.choice([1, 2, 3, 5, 6]) if not thorough else rng.choice(range(1, 10))
            P = int_psf(s_, False)
            def h_c1(out, mode=mode, n=n, P=P):
                desc = {"op": "convolve1d", "mode": mode, "n": n, "P": P.tolist()}
                ctx.case("conv1", desc)
                C = cols(lambda x: convolve1d(x, P, mode=mode), n)
                if not same(parse_L(out), C, True):
                    ctx.disagree(f"tie:convolve1d:{mode}", desc, out[:300], C.tolist(), "scipy.ndimage.convolve1d differs from the index formula of the model")
            jobs.append((f"conv1 {mode} {n} {qv(P)}", h_c1))

    # legacy circulant matrices: leaf matrix through the generic LinearModel path
    for PSF in ("gauss", "sinc", "vonMises", nrs.randint(1, 5, size=6).astype(float)):
        with quiet():
            TP = Deconvolution1D(dim=6, PSF=PSF, use_legacy=True)
        A = dense(TP.model.get_matrix())
        desc = {"problem": "Deconvolution1D legacy", "PSF": PSF if isinstance(PSF, str) else PSF.tolist()}
        def h_leg(out, TP=TP, desc=desc):
            ctx.case("deconv1d-legacy", desc)
            keyf = lambda aspect: f"LinearModel:{aspect}:mb:plain:Continuous1D>Continuous1D@Deconvolution1D-legacy"
            res = probe(lambda: Deconvolution1D_model(TP))
            tie_linear(ctx, out, res, "tie:Deconvolution1D:legacy", desc, False, keyf)
            oracle_linear(ctx, res, keyf, desc)
        jobs.append((f"lin mb {qm(A)} - id:6 id:6", h_leg))

    # legacy circulant matrices against the MODEL of `_getCirculantMatrix` (`legacy`): mirror extension / np.roll / toeplitz assembly, refusals
    def legacy_case(dim, PSF, param=None, BC="periodic", size=None):
        named = isinstance(PSF, str)
        desc = {"problem": "Deconvolution1D use_legacy", "dim": dim, "PSF": PSF if named else PSF.tolist(), "PSF_param": param, "BC": BC, "PSF_size": size}
        try:
            with quiet():
                TPl = Deconvolution1D(dim=dim, PSF=PSF, PSF_param=param, use_legacy=True, BC=BC, PSF_size=size)
            impl = dense(TPl.model.get_matrix())
        except Exception as e:
            impl = repr(e)[:100]
        if named:
            g_ = np.arange(dim // 2 + 1) / dim
            nm = PSF.lower()
            with np.errstate(all="ignore"):
                if nm == "gauss":
                    h0 = np.exp(-((10 if param is None else param) * g_) ** 2)
                elif nm in ("sinc", "prolate"):
                    h0 = np.sinc((15 if param is None else param) * g_)
                elif nm == "vonmises":
                    h0 = np.exp(np.cos(2 * np.pi * g_)); h0 = (h0 / h0[0]) ** (5 if param is None else param)
                else:
                    h0 = np.zeros(dim // 2 + 1)
            vtok = qv(h0)
        else:
            vtok = qv(PSF)
        def h(out):
            ctx.case("deconv1d-legacy-model", desc)
            hh = ctx.extra_cov.setdefault("legacy_circulant", {})
            kk = f"{'named:' + PSF.lower() if named else 'custom'}:{'err' if out == 'err' else 'ok'}"
            hh[kk] = hh.get(kk, 0) + 1
            key = "tie:Deconvolution1D:legacy:" + ("named" if named else "custom")
            if (out == "err") != isinstance(impl, str):
                ctx.disagree(key + ":refusal", desc, out[:60], impl if isinstance(impl, str) else "constructed", "refusal differs")
                return
            if out == "err":
                return
            if not same(parse_L(out), impl, not named):
                ctx.disagree(key, desc, out[:300], impl.tolist(), "legacy circulant matrix differs from the model's assembly (mirror extension / roll / toeplitz)")
        jobs.append((f"legacy {BC} {0 if size is None else 1} {dim} {PSF if named else '-'} {vtok}", h))

    for dim_ in ((2, 4, 6, 8) if not thorough else (2, 4, 6, 8, 10, 12, 16)):
        legacy_case(dim_, nrs.randint(1, 7, size=dim_).astype(float))
        for nm_ in ("gauss", "Sinc", "PROLATE", "vonMises"):
            legacy_case(dim_, nm_, rng.choice([None, 1.0, 2.5, 7.0]))
    legacy_case(5, "gauss"); legacy_case(5, np.ones(5)); legacy_case(4, np.ones(3)); legacy_case(4, "moffat"); legacy_case(4, "gauss", BC="Periodic")
    legacy_case(4, "gauss", BC="zero"); legacy_case(4, "gauss", size=3); legacy_case(6, np.arange(1.0, 7.0), param=2.0)

    # user-supplied NON-SQUARE PSFs: output shape of `_proj_forward_2D` (`projshape`) and the constructor's refusal
    def nonsquare_case(n, s1, s2):
        desc = {"problem": "Deconvolution2D", "dim": n, "PSF_shape": [s1, s2]}
        Pn = nrs.randint(1, 5, size=(s1, s2)).astype(float)
        with quiet():
            shp = tuple(int(v) for v in tpm_._proj_forward_2D(np.ones((n, n)), Pn, "wrap").shape)
            try:
                Deconvolution2D(dim=n, PSF=Pn, phantom=np.ones((n, n))); ctor = "ok"
            except Exception as e:
                ctor = "err"
        def h(out):
            ctx.case("deconv2d-nonsquare", desc)
            ms = tuple(int(v) for v in out.split(","))
            if ms != shp:
                ctx.disagree("tie:Deconvolution2D:nonsquare:shape", desc, list(ms), list(shp), "output shape of _proj_forward_2D differs from the model")
            if (ms == (n, n)) != (ctor == "ok"):
                ctx.disagree("tie:Deconvolution2D:nonsquare:refusal", desc, "constructed iff the operator maps n x n images to n x n images", ctor, "constructor refusal differs")
        jobs.append((f"projshape {n} {s1} {s2}", h))
    from cuqi.testproblem import _testproblem as tpm_
    for (s1_, s2_) in [(1, 2), (2, 1), (2, 3), (3, 2), (3, 5), (5, 3), (4, 2), (1, 4), (3, 3), (4, 4), (2, 5)]:
        nonsquare_case(rng.choice([3, 4, 5]), s1_, s2_)

    # ================================================================ Deconvolution2D
    def int_psf2(s, sym):
        P = nrs.randint(1, 5, size=(s, s)).astype(float)
        if sym:
            P = P + P[::-1, :]; P = P + P[:, ::-1]
        elif s >= 2 and (np.array_equal(P, P[::-1, :]) or np.array_equal(P, P[:, ::-1]) or np.array_equal(P, P[::-1, ::-1])):
            P[0, 0] += 7
        return P

    def deconv2_case(n, BC, P=None, named=None, size=None, param=None):
        kw = dict(dim=n, BC=BC, phantom=np.ones((n, n)))
        if P is not None:
            kw["PSF"] = P
        else:
            kw.update(PSF=named)
            if param != "dflt":
                kw["PSF_param"] = param        # "dflt": omitted, the documented default (2.56) is used
            if size is not None:
                kw["PSF_size"] = size          # None: the documented default (21) is used
        desc = {"problem": "Deconvolution2D", "dim": n, "BC": BC, "PSF": P.tolist() if P is not None else named, "PSF_size": size, "PSF_param": param}
        req = (21 if size is None else size) if P is None else None     # the size the caller asked for (documentation: "PSF_size : int, default 21")
        try:
            with quiet():
                TP = Deconvolution2D(**kw)
            impl_ok = True
            Pl = np.asarray(TP.Miscellaneous["PSF"], dtype=float)
        except Exception as e:
            impl_ok = False; err = repr(e)[:100]; Pl = P if P is not None else np.ones((1, 1))
        s = Pl.shape[0]
        symm = np.array_equal(Pl, Pl[::-1, :]) and np.array_equal(Pl, Pl[:, ::-1])
        # PSF identity: named PSFs by NAME (what the documentation promises, not what the array happens to be)
        psfcls = named.lower() if named is not None else ("custom-sym" if symm else "custom-asym")
        # size parity: of the REQUESTED size for named PSFs (what the caller asked for), of the array for custom PSFs
        par_ = (req if req is not None else s) % 2
        cls = f"BC={BC.lower()}:PSF={psfcls}:{'odd' if par_ else 'even'}"

        def make_model():
            M = TP.model
            return LinearModel(M._forward_func, M._adjoint_func, M.range_geometry, M.domain_geometry)

        def h(out):
            ctx.case("deconv2d" + ("-named" if P is None else ""), desc)
            tiekey = f"tie:Deconvolution2D:{cls}"
            if not impl_ok or out.startswith("err"):
                if impl_ok != (not out.startswith("err")):
                    ctx.disagree(tiekey + ":refusal", desc, out[:40], "ok" if impl_ok else err, "refusal differs")
                return
            keyf = lambda aspect: f"Deconvolution2D:{aspect}:{cls}"
            res = probe(make_model)
            check_own_model(ctx, TP.model, res, tiekey, desc)
            if req is not None and Pl.shape != (req, req):
                ctx.disagree(tiekey, desc, [req, req], list(Pl.shape), "the PSF the problem uses does not have the requested PSF_size")
                F_, A_ = res["fwd"], res["adj"]
                if F_ is not None and A_ is not None and differ(F_.T, A_):
                    ctx.fail(tiekey, {**desc, "PSF_shape": list(Pl.shape)}, "matrix of adjoint = transpose of matrix of forward", "differs",
                             "<A x, y> != <x, A* y> with the PSF the problem built (its size is not the requested PSF_size)")
                ctx.fail(f"Deconvolution2D:PSF={psfcls}:requested-size", {**desc, "PSF_shape": list(Pl.shape)}, f"PSF of shape ({req}, {req})", list(Pl.shape),
                         "the named PSF is not built with the requested PSF_size")
            if named is not None and named.lower() in ("gauss", "moffat") and not centred_symmetric(Pl):
                ctx.fail(f"Deconvolution2D:PSF={named.lower()}:centred-symmetric:{'odd' if s % 2 else 'even'}", {**desc, "PSF_array": Pl.tolist()},
                         "PSF symmetric about its centre pixel s//2 along both axes", "asymmetric / off-centre", "the shipped Gauss/Moffat PSF is not the documented centred symmetric PSF")
            tie_linear(ctx, out, res, tiekey, desc, False, keyf)
            bad = oracle_linear(ctx, res, keyf, desc)
            hist = ctx.extra_cov.setdefault("deconv2d_adjoint_verdicts", {})
            kk = f"{cls}:{'fail' if 'adjoint' in bad else 'hold'}"
            hist[kk] = hist.get(kk, 0) + 1
        if P is not None:
            jobs.append((f"deconv2 {BC} {n} {qm(Pl)}", h))
            return
        gtok = "-"
        p_eff = 2.56 if param == "dflt" else param
        if named.lower() == "gauss" and p_eff not in (None, 0):
            gtok = qv(gauss_profile(float(p_eff), 2 * (req // 2) ** 2))
        def hn(out):
            psf_hist(ctx, "2D:" + named.lower(), req, out if out in ("err", "nan") else "ok")
            if out == "err":
                return h("err")
            if out == "nan":
                ctx.case("deconv2d-named", desc)
                if not (impl_ok and np.isnan(Pl).all()):
                    ctx.disagree(f"tie:Deconvolution2D:{cls}:psf", desc, "NaN PSF", Pl.tolist() if impl_ok else err, "model predicts a NaN PSF")
                return
            psf_txt, _, rest = out.partition(" ")
            if impl_ok and not psf_same(psf_txt[4:], Pl):
                ctx.disagree(f"tie:Deconvolution2D:{cls}:psf", desc, psf_txt[:300], Pl.tolist(), "the named PSF the code built differs from the model's PSF (grid / meshgrid / profile / normalisation / defaults)")
            return h(rest)
        ptok = "dflt" if param == "dflt" else ("none" if param is None else q(param))
        jobs.append((f"deconv2n {BC} {n} {named} {'dflt' if size is None else size} {ptok} {gtok}", hn))

    bcs2 = ["zero", "periodic", "neumann", "mirror", "nearest"]
    sizes2 = range(1, 6) if not thorough else range(1, 8)
    for BC in bcs2:
        for s in sizes2:
            for sym in (True, False):
                if s == 1 and not sym:
                    continue
                n = rng.choice([4, 5]) if not thorough else rng.choice([4, 5, 6, 7])
                deconv2_case(n, BC, P=int_psf2(s, sym))
        for named in ("gauss", "Moffat", "defocus"):
            for size in (3, 4, 5):
                deconv2_case(rng.choice([4, 5]), BC, named=named, size=size, param=rng.choice([1.0, 1.5, 2.56]))
    for BC in ("Periodic", "reflect", "foo"):
        deconv2_case(4, BC, P=int_psf2(3, False))
    for named in ("gauss", "moffat", "defocus"):
        for prm in (1e-3, 0.3, 1e3):
            deconv2_case(4, rng.choice(bcs2), named=named, size=rng.choice([3, 5]), param=prm)
    # the shipped default PSF (Gauss, PSF_size=21, PSF_param=2.56) under Neumann and periodic boundaries, and odd named sizes under Neumann
    nd_ = 6 if thorough else 3      # (the exact model of a 21x21 PSF costs n^4 * 441 rational operations)
    deconv2_case(nd_, "Neumann", named="gauss", size=21, param=2.56); deconv2_case(nd_, "periodic", named="gauss", size=21, param=2.56)
    # PSF_size LARGER than the image (padding wider than the image), even and odd dim; the default size passed by omission
    deconv2_case(4, rng.choice(["periodic", "zero", "Neumann"]), named="gauss", size=None, param=2.56)
    for BC in ("periodic", "zero", "neumann"):
        deconv2_case(4, BC, named=rng.choice(["gauss", "moffat"]), size=5, param=1.0)
        deconv2_case(rng.choice([4, 6]), BC, named=rng.choice(["gauss", "moffat", "defocus"]), size=7, param=1.5)
        deconv2_case(3, BC, named="gauss", size=rng.choice([4, 5]), param=1.0)
        deconv2_case(2, BC, P=int_psf2(3, True)); deconv2_case(2, BC, P=int_psf2(5, False))
    for named in ("gauss", "moffat"):
        for size in (3, 5, 7):
            deconv2_case(5, "neumann", named=named, size=size, param=rng.choice([1.0, 2.56]))
    deconv2_case(3, "periodic", P=1e-9 * int_psf2(3, False)); deconv2_case(3, "zero", P=1e9 * int_psf2(3, False))
    # witnesses of conv_even_counterexample, conv_even_zero_counterexample, conv_reflect_/nearest_/mirror_counterexample,
    # and positive instances of deconv2d_adjoint_partial / deconv2d_adjoint_neumann_partial
    P0 = lambda sz: np.array([[2.0 * a + b + 1 for b in range(sz)] for a in range(sz)])
    deconv2_case(2, "periodic", P=P0(2)); deconv2_case(2, "zero", P=P0(2)); deconv2_case(2, "neumann", P=P0(3))
    deconv2_case(3, "nearest", P=P0(3)); deconv2_case(3, "mirror", P=np.ones((3, 3)))
    deconv2_case(2, "periodic", P=P0(3)); deconv2_case(3, "neumann", P=np.array([[1.0, 1, 1], [1, 2, 1], [1, 1, 1]]))

    # falsy but valid option value: `PSF_param = 0` selects the delta PSF in `_DefocusPSF(_1D)` ("the blurring matrix is I")
    for dimlab, ctor in (("1D", lambda: Deconvolution1D(dim=5, PSF="defocus", PSF_param=0, PSF_size=3)),
                         ("2D", lambda: Deconvolution2D(dim=4, PSF="defocus", PSF_param=0, PSF_size=3, phantom=np.ones((4, 4))))):
        desc0 = {"problem": "Deconvolution" + dimlab, "PSF": "defocus", "PSF_param": 0, "PSF_size": 3}
        ctx.case("deconv-defocus-param0", desc0)
        try:
            with quiet():
                TP0 = ctor()
                n0 = int(TP0.model.domain_dim)
                F0 = cols(TP0.model.forward, n0); A0_ = cols(TP0.model.adjoint, n0)
            if differ(F0, np.eye(n0)) or differ(A0_, np.eye(n0)):
                ctx.fail(f"Deconvolution{dimlab}:PSF=defocus:PSF_param=0:identity", desc0, "forward = adjoint = identity (delta PSF)", "differs", "delta PSF does not give the identity operator")
        except Exception as e:
            ctx.fail(f"Deconvolution{dimlab}:constructor:PSF=defocus:PSF_param=0", desc0, "a linear model with the delta PSF", repr(e)[:120],
                     "the documented delta-PSF option (PSF_param = 0) cannot be constructed")

    # ================================================================ named PSF builders against the model (`psf1` / `psf2`)
    from cuqi.testproblem import _testproblem as tpm
    B1 = {"gauss": tpm._GaussPSF_1D, "moffat": tpm._MoffatPSF_1D, "defocus": tpm._DefocusPSF_1D}
    B2 = {"gauss": lambda s_, p_: tpm._GaussPSF(np.array([s_, s_]), p_), "moffat": lambda s_, p_: tpm._MoffatPSF(np.array([s_, s_]), p_, 1),
          "defocus": lambda s_, p_: tpm._DefocusPSF(np.array([s_, s_]), p_)}

    def psf_case(dimlab, name, s_, prm):
        desc = {"builder": {"1D": "_%sPSF_1D", "2D": "_%sPSF"}[dimlab] % name.capitalize(), "PSF_size": s_, "PSF_param": prm}
        try:
            with quiet(), np.errstate(all="ignore"):
                Pi = np.asarray((B1 if dimlab == "1D" else B2)[name](s_, prm)[0], dtype=float)
            impl = "nan" if (Pi.size and np.isnan(Pi).all()) else "ok"
        except Exception as e:
            impl, Pi = "err", repr(e)[:100]
        gtok = "-"
        p_eff = (10.0 if dimlab == "1D" else None) if prm is None else prm
        if name == "gauss" and p_eff not in (None, 0):
            gtok = qv(gauss_profile(float(p_eff), (1 if dimlab == "1D" else 2) * (s_ // 2) ** 2))
        def h_psf(out):
            ctx.case("psf-" + dimlab, desc)
            mo = out if out in ("err", "nan") else "ok"
            psf_hist(ctx, f"builder{dimlab}:{name}", s_, mo)
            key = f"tie:PSF{dimlab}:{name}:{'odd' if s_ % 2 else 'even'}"
            if mo != impl or (mo == "ok" and not psf_same(out, Pi)):
                ctx.disagree(key, desc, out[:300], Pi.tolist() if impl != "err" else Pi, "named PSF differs from the model (grid offsets / meshgrid / profile / normalisation / refusal)")
                # the property near this input: the shipped Gauss / Moffat PSF of odd size under Neumann and periodic boundaries (theorem deconv2d_named_adjoint)
                if name in ("gauss", "moffat") and s_ % 2 == 1 and impl == "ok" and prm is not None:
                    for BC_ in ("neumann", "periodic"):
                        try:
                            with quiet():
                                TPx = Deconvolution2D(dim=4, PSF=name, PSF_size=s_, PSF_param=prm, BC=BC_, phantom=np.ones((4, 4))) if dimlab == "2D" else \
                                    Deconvolution1D(dim=5, PSF=name, PSF_size=s_, PSF_param=prm, BC="periodic")
                                nn = int(TPx.model.domain_dim)
                                Fx, Ax = cols(TPx.model.forward, nn), cols(TPx.model.adjoint, nn)
                            if differ(Fx.T, Ax):
                                ctx.fail(key, {**desc, "BC": BC_}, "matrix of adjoint = transpose of matrix of forward", "differs", "<A x, y> != <x, A* y> with the PSF the code built")
                        except Exception:
                            pass
        jobs.append((f"psf{dimlab[0]} {name} {s_} {'none' if prm is None else q(prm)} {gtok}", h_psf))

    PRM = [0.3, 1.0, 1.5, 2.0, 2.56, 3.0, 10.0, -1.5, 1e-3, 1e3]
    for dimlab in ("1D", "2D"):
        for name in ("gauss", "moffat", "defocus"):
            for s_ in (range(1, 9) if not thorough else range(1, 16)):
                for prm in rng.sample(PRM, 2 if not thorough else 5):
                    psf_case(dimlab, name, s_, prm)
            psf_case(dimlab, name, rng.choice([3, 4, 5]), None)      # 1-D: default 10; 2-D: None**2 raises
            psf_case(dimlab, name, rng.choice([3, 4, 5]), 0)         # refusals (all-NaN -> IndexError; float index)
            psf_case(dimlab, name, 0, 1.0)                           # empty grid
        psf_case(dimlab, "defocus", 1, 0.5); psf_case(dimlab, "defocus", 3, 1.0); psf_case(dimlab, "defocus", 5, 2.0)   # NaN PSF; boundary (k-c)^2 == p^2

    # option glue of the constructors: unknown names, defaults by omission / explicit None, negative parameter, size 0
    deconv1_case(5, "periodic", named="foo", size=3, param=1.0); deconv2_case(4, "periodic", named="foo", size=3, param=1.0)
    deconv1_case(6, "zero", named="GAUSS", size=None, param=None); deconv1_case(5, "reflect", named="Moffat", size=5, param=-1.5)
    deconv1_case(5, "periodic", named="defocus", size=0, param=1.0); deconv1_case(5, "periodic", named="gauss", size=0, param=1.0)
    deconv2_case(4, "periodic", named="MOFFAT", size=3, param="dflt"); deconv2_case(4, "zero", named="defocus", size=5, param="dflt")
    deconv2_case(3, "Neumann", named="Gauss", size=3, param=None); deconv2_case(4, "neumann", named="moffat", size=5, param=-1.5)
    deconv2_case(4, "periodic", named="gauss", size=0, param=1.0); deconv2_case(4, "periodic", named="defocus", size=0, param=1.0)

    # ================================================================ Abel1D
    def abel_case(n, endpoint, field, params):
        desc = {"problem": "Abel1D", "dim": n, "endpoint": endpoint, "field_type": field, "field_params": params}
        with quiet():
            TP = Abel1D(dim=n, endpoint=endpoint, field_type=field, field_params=params)
        M = TP.model
        A = dense(M._matrix)
        def h_sq(out):
            ctx.case("abel-matrix", desc)
            Mm = parse_L(out)
            if not same(Mm, A * A, False) or (A < 0).any():
                ctx.disagree("tie:Abel1D:matrix", desc, out[:300], (A * A).tolist(), "squares of the Abel matrix entries differ")
                c = _Collector(); oracle_linear(c, probe(lambda: LinearModel(M._matrix, range_geometry=M.range_geometry, domain_geometry=M.domain_geometry)), lambda a: a, desc)
                for fl in c.failures:
                    ctx.fail("tie:Abel1D:matrix", fl[1], fl[2], fl[3], fl[4])
        jobs.append((f"abel {n} {q(endpoint)}", h_sq))
        # the model object under its geometry option
        dg = M.domain_geometry
        if field is None:
            gd = GSpec("Continuous1D", "plain", lambda: type(dg)(dg.grid), f"id:{n}")
        elif field == "Step":
            gd = GSpec("StepExpansion", "expansion", lambda: type(dg)(dg.grid, **params), exact=False)   # linspace grid: leaf
        else:
            gd = GSpec("KLExpansion", "expansion", lambda: type(dg)(dg.grid, **params), exact=False)
        gr = GSpec("Continuous1D", "plain", lambda: type(M.range_geometry)(M.range_geometry.grid), f"id:{n}")
        fam = gd.family
        keyf = lambda aspect: f"LinearModel:{aspect}:mb:{fam}:{gd.label}>Continuous1D@Abel1D"
        def h_lin(out):
            ctx.case("abel-model-" + (field or "default"), desc)
            res = probe(lambda: LinearModel(M._matrix, range_geometry=gr.make(), domain_geometry=gd.make()))
            check_own_model(ctx, M, res, "tie:Abel1D:model", desc)
            tie_linear(ctx, out, res, "tie:Abel1D:model", desc, False, keyf)
            oracle_linear(ctx, res, keyf, desc)
        jobs.append((f"lin mb {qm(A)} - {gd.token} {gr.token}", h_lin))

    # extreme option values: every entry of the Abel matrix is ~ sqrt(endpoint/N)
    for ep_ in (1e-18, 1e-12, 1e12):
        abel_case(16 if ep_ == 1e-18 else rng.choice([5, 8]), ep_, None, {})
    for n in (range(3, 8) if not thorough else range(2, 14)):
        abel_case(n, rng.choice([1, 2, 0.5]), None, {})
        for _try in range(6):
            ns, ep = rng.randrange(1, n), rng.choice([1, 2])
            with quiet():
                gchk = StepExpansion(np.linspace(0, ep, n), n_steps=ns)
                okg = not np.isnan(np.asarray(gchk.fun2par(np.ones(n)), dtype=float)).any()
            if okg:
                abel_case(n, ep, "Step", {"n_steps": ns}); break
            ctx.note(f"Abel1D(dim={n}, endpoint={ep}, Step n_steps={ns}): StepExpansion on the linspace grid leaves a step without nodes (fun2par = NaN; C13's finding) - skipped here")
        abel_case(n, 1, "KL", {"num_modes": rng.randrange(1, n + 1)})

    # ================================================================ drive the model once, then compare
    outs = ctx.lean.drive([l for l, _ in jobs])
    for (line, h), out in zip(jobs, outs):
        if out == "bad-op":
            ctx.disagree("tie:protocol", {"line": line[:200]}, "bad-op", "-", "driver could not parse a generated line")
            continue
        _CUR["line"] = line
        try:
            h(out)
        except Exception as e:
            import traceback
            k_exc = "tie:probe-raised:" + line.split(" ")[0]
            ctx.disagree(k_exc, {"line": line[:300]}, out[:200], repr(e)[:200], "probing the implementation for this case raised")
            ctx.fail(k_exc, {"line": line[:300], "traceback": traceback.format_exc()[-600:]}, "the probes of this case evaluate (or are refused cleanly)", repr(e)[:200],
                     "an operation of the model raised where the model predicts a value")
