"""C01 — conditioning a joint distribution preserves the joint log-density.

Correspondence: random model graphs are built from real cuqi distributions; a *program* (constructor,
then conditioning / evaluation / `_as_stacked` / naming calls) is run on the real objects and on the
Lean model (`Driver/C01.lean`); after every call kind, ordered parameter names, value or error are
compared.  The model's leaf oracle (log-density of every original factor at every combination of the
candidate values) is computed here from *fresh fully specified* distributions (`Family(values).logpdf`),
i.e. without any of the conditioning code.

Oracle (implementation only, run on every call): a valid evaluation must return the sum of the factor
log-densities at the complete assignment (fixed so far ∪ passed now); a valid conditioning call must
succeed; an evaluation with a missing / unknown / doubly specified variable must raise.
"""
import math, random, itertools, json, os
import numpy as np
from harness.core import import_cuqi, quiet, q, qv
from harness.core import close as _close

# margins of the value comparisons (float log-density of the implementation vs exact sum of leaf floats / model value)
MARGIN = {"comparisons": 0, "max_passing_deviation": 0.0, "min_failing_deviation": None}


def close(a, b, tol=1e-9):
    ok = _close(a, b, tol)
    try:
        a_, b_ = float(a), float(b)
        if a_ == a_ and b_ == b_ and abs(a_) != float("inf") and abs(b_) != float("inf"):
            d = abs(a_ - b_) / (1.0 + max(abs(a_), abs(b_)))
            MARGIN["comparisons"] += 1
            if ok:
                MARGIN["max_passing_deviation"] = max(MARGIN["max_passing_deviation"], d)
            elif MARGIN["min_failing_deviation"] is None or d < MARGIN["min_failing_deviation"]:
                MARGIN["min_failing_deviation"] = d
    except Exception:  # noqa
        pass
    return ok

# float log-densities of the implementation vs the exact sum of the same leaf floats: observed error <= 4e-16 relative;
# 1e-12 keeps a change of a hyper-parameter by a relative 2^-17 (dim/2 * 7.6e-6 in the log-density) clearly visible
TOL = 1e-12

NAME_POOL = ["x", "y", "z", "u", "w", "s", "d", "t", "a", "b", "theta", "lam", "y_obs", "x1", "x2", "v", "p", "r"]
UNKNOWN = "zz_unknown"

# mutable-variable order per family (decides the order of the conditioning variables)
ATTR_ORDER = {
    "Gaussian": ["mean", "cov", "prec", "sqrtcov", "sqrtprec"],
    "Normal": ["mean", "std"],
    "Laplace": ["location", "scale"],
    "GMRF": ["mean", "prec"],
    "LMRF": ["scale", "location"],
    "Gamma": ["shape", "rate"],
}


# ----------------------------------------------------------------------------- model graphs
class Spec:
    """attribute specification: constant or python function of named parents"""
    def __init__(self, parents, fn, wrap=None):
        self.parents, self.fn, self.wrap = list(parents), fn, wrap  # wrap in {None,'Model','LinearModel'}

    def value(self, env):
        return self.fn(*[env[p] for p in self.parents])


GEOMS = ["step", "kl", "cont", "disc", "mapped"]


def make_geom(v):
    """geometry of variable v: the parameter dimension is always v.dim; expansion geometries have a
    different function dimension (StepExpansion: 3k+1 nodes, KLExpansion: 2k+3 nodes)"""
    g = getattr(v, "geom", None)
    if g is None:
        return v.dim
    from cuqi import geometry as G
    k = v.dim
    if g == "step":
        return G.StepExpansion(np.linspace(0, 1, 3 * k + 1), n_steps=k)
    if g == "kl":
        return G.KLExpansion(np.linspace(0, 1, 2 * k + 3), num_modes=k)
    if g == "cont":
        return G.Continuous1D(k)
    if g == "disc":
        return G.Discrete(k)
    return G.MappedGeometry(G.Continuous1D(k), map=np.exp)


class Var:
    def __init__(self, name, dim, kind):
        self.name, self.dim, self.kind = name, dim, kind  # kind: 'vec' | 'pos'
        self.geom = None
        self.family = None
        self.attrs = {}      # attr -> Spec
        self.vals = []       # candidate values (np arrays of length dim)

    def params(self):
        """get_conditioning_variables(): the mutable variables that are None, then the arguments of the callables"""
        out = []
        for a in ATTR_ORDER[self.family]:
            if a in self.attrs and getattr(self.attrs[a], "none", False):
                out.append(a)
        for a in ATTR_ORDER[self.family]:
            if a in self.attrs and not getattr(self.attrs[a], "none", False):
                for p in self.attrs[a].parents:
                    if p not in out:
                        out.append(p)
        return out


def _imat(rng, r, c):
    return np.array([[rng.choice([-2, -1, 0, 1, 1, 2]) for _ in range(c)] for _ in range(r)], dtype=float)


def _named_lambda(parents, fn):
    src = "lambda " + ", ".join(parents) + ": _f(" + ", ".join(parents) + ")"
    return eval(src, {"_f": fn})


def rename_to_attr(rng, vs):
    """Input class: a hyper-parameter called like the mutable variable it enters (`std=lambda std: 0.1 + std`), or standing
    directly in a mutable variable that is None (`Gamma(shape=None, ...)` with a variable called `shape`).  A variable is only
    renamed when, in every child that HAS a mutable variable of that name, it enters through exactly that variable."""
    cands = []
    for p in vs:
        for c in vs:
            for a, sp in c.attrs.items():
                if p.name in sp.parents:
                    cands.append((p, a))
    rng.shuffle(cands)
    for p, new in cands:
        if new in p.attrs or any(v.name == new for v in vs):
            continue
        ok = True
        for c in vs:
            used = [a for a, sp in c.attrs.items() if p.name in sp.parents]
            if new in c.attrs and used and used != [new]:
                ok = False
            if new in c.attrs and not used and c.attrs[new].parents:
                pass
        if not ok:
            continue
        old = p.name
        for c in vs:
            for a, sp in c.attrs.items():
                if old in sp.parents:
                    sp.parents = [new if t == old else t for t in sp.parents]
                    if a == new:
                        if (len(sp.parents) == 1 and sp.wrap is None and (getattr(sp, "identity", False) or c.family == "Gamma" and p.kind == "pos")
                                and (p.kind == "pos" or p.dim > 1)      # (a 1-dim Laplace/Normal location given as a bare scalar: family territory, see round 4)
                                and rng.random() < 0.5 and not getattr(sp, "mats", None)):
                            sp.none = True          # the variable itself: attribute None
                            sp.fn = (lambda x: x) if p.kind != "pos" else (lambda s: float(np.asarray(s).reshape(-1)[0]))
                            sp.identity = p.kind != "pos"
                            p.plain = True
                        elif p.kind == "pos" and sp.wrap is None and not getattr(sp, "mats", None):
                            sp.fn = (lambda *v, f=sp.fn: 0.25 + f(*v))     # never the identity
        p.name = new
        return new
    return None


def gen_graph(rng, thorough):
    """random DAG: variable i may depend on variables j > i"""
    shape = rng.choice(["hier", "multi", "random", "random", "chain"])
    n = rng.randint(2, 7 if thorough else 6)
    names = rng.sample(NAME_POOL, n)
    vs = []
    for i, nm in enumerate(names):
        kind = "vec" if rng.random() < 0.6 else "pos"
        if shape == "hier":
            kind = "vec" if i < max(1, n // 2) else "pos"
        if shape == "multi":
            kind = "vec"
        dim = rng.randint(1, 4) if kind == "vec" else 1
        vs.append(Var(nm, dim, kind))
    for i, v in enumerate(vs):
        later = vs[i + 1:]
        if shape == "multi":            # several data variables over one parameter (-> MultipleLikelihoodPosterior)
            later = [vs[-1]] if i < n - 1 else []
        if shape == "chain":
            later = later[:1]
        vecp = [u for u in later if u.kind == "vec"]
        posp = [u for u in later if u.kind == "pos"]
        if v.kind == "vec":
            v.family = rng.choice(["Gaussian", "Gaussian", "Gaussian", "Normal", "Laplace", "GMRF", "LMRF"])
            if v.family in ("GMRF", "LMRF") and v.dim < 2:
                v.family = "Gaussian"
            loc_attr = {"Gaussian": "mean", "Normal": "mean", "Laplace": "location", "GMRF": "mean", "LMRF": "location"}[v.family]
            sc_attr = {"Gaussian": rng.choice(["cov", "cov", "prec", "sqrtprec", "sqrtcov"]), "Normal": "std", "Laplace": "scale",
                       "GMRF": "prec", "LMRF": "scale"}[v.family]
            # location
            k = rng.choice([0, 1, 1, 1, 2]) if vecp else 0
            ps = rng.sample(vecp, min(k, len(vecp)))
            extra_pos = [rng.choice(posp)] if (posp and ps and rng.random() < 0.2) else []
            if not ps:
                c = np.array([rng.randint(-2, 2) for _ in range(v.dim)], dtype=float)
                v.attrs[loc_attr] = Spec([], lambda c=c: c)
            elif len(ps) == 1 and ps[0].dim == v.dim and not extra_pos and rng.random() < 0.2:
                # a callable that hands back the very object it was given (identity)
                # (an ndarray comes back as the same object; other representations are converted, as a user callable
                #  has to hand the family a 1-d array, like every other callable of this generator: Laplace does `x - location`
                #  and `norm(., 1)` without conversion, which fails for list - list and for numpy scalars)
                v.attrs[loc_attr] = Spec([ps[0].name], lambda x: x if (isinstance(x, np.ndarray) and x.ndim >= 1) else np.atleast_1d(np.asarray(x, dtype=float)))
                v.attrs[loc_attr].identity = True
            else:
                mats = [_imat(rng, v.dim, p.dim) for p in ps]
                nonlin = rng.random() < 0.4
                def loc_fn(*vals, mats=mats, nonlin=nonlin, npar=len(ps)):
                    out = 0.0
                    for M, x in zip(mats, vals[:npar]):
                        x = np.asarray(x, dtype=float).reshape(-1)
                        out = out + M @ (x * x + 1.0 if nonlin else x)
                    if len(vals) > npar:   # multiplicative positive hyper-parameter
                        out = out * float(np.asarray(vals[npar]).reshape(-1)[0])
                    return out
                wrap = None
                if len(ps) == 1 and not extra_pos and v.family in ("Gaussian", "GMRF") and rng.random() < 0.45:
                    wrap = "Model" if nonlin else rng.choice(["LinearModel", "Model"])
                v.attrs[loc_attr] = Spec([p.name for p in ps] + [p.name for p in extra_pos], loc_fn, wrap)
                v.attrs[loc_attr].mats = mats
                v.attrs[loc_attr].pdims = [p.dim for p in ps]
            # scale
            k = rng.choice([0, 1, 1, 2]) if posp else 0
            ps = rng.sample(posp, min(k, len(posp)))
            if not ps:
                c = float(rng.choice([0.5, 1.0, 2.0, 4.0]))
                v.attrs[sc_attr] = Spec([], lambda c=c: c)
            else:
                inv = rng.random() < 0.5
                def sc_fn(*vals, inv=inv):
                    prod = 1.0
                    for s in vals:
                        prod *= float(np.asarray(s).reshape(-1)[0])
                    return 1.0 / prod if inv else prod
                v.attrs[sc_attr] = Spec([p.name for p in ps], sc_fn)
        else:
            v.family = "Gamma"
            for attr in ("shape", "rate"):
                r = rng.random()
                if posp and r < 0.35:
                    p = rng.choice(posp)
                    v.attrs[attr] = Spec([p.name], lambda s: float(np.asarray(s).reshape(-1)[0]))
                elif vecp and r < 0.5 and attr == "rate":
                    p = rng.choice(vecp)
                    v.attrs[attr] = Spec([p.name], lambda x: 1.0 + float(np.sum(np.asarray(x, dtype=float) ** 2)))
                else:
                    c = float(rng.choice([1.0, 2.0, 3.0, 0.5]))
                    v.attrs[attr] = Spec([], lambda c=c: c)
        # candidate values
        if v.kind == "vec":
            a = np.array([rng.randint(-4, 4) / 2.0 for _ in range(v.dim)])
            b = a.copy()
            while np.array_equal(a, b):
                b = np.array([rng.randint(-4, 4) / 2.0 for _ in range(v.dim)])
        else:
            a, b = [np.array([float(x)]) for x in rng.sample([0.25, 0.5, 1.0, 2.0, 4.0], 2)]
        # values that a tolerance-based "unchanged?" test (np.allclose / isclose) cannot tell apart (G4)
        r = rng.random()
        if r < 0.25:
            b = a.copy(); j = rng.randrange(v.dim); b[j] = a[j] + 2.0 ** -17 * max(1.0, abs(a[j]))
        elif r < 0.32 and v.kind == "pos":
            a, b = np.array([1e-9]), np.array([2e-9])       # differ by less than allclose's atol
        v.vals = [a, b]
    attr_named = rename_to_attr(rng, vs) if rng.random() < 0.3 else None
    # geometries: any variable that is not the input of a wrapped cuqi Model (whose domain geometry would have to match)
    model_inputs = {p for w in vs for sp in w.attrs.values() if sp.wrap for p in sp.parents}
    for v in vs:
        if v.name not in model_inputs and v.family not in ("GMRF", "LMRF") and rng.random() < 0.3:
            v.geom = rng.choice(GEOMS)
    return vs, shape + ("+attrname" if attr_named else "")


def build_density(cuqi, v):
    """the real, unconditioned cuqi distribution of variable v"""
    from cuqi import distribution as D
    from cuqi.model import Model, LinearModel
    kw = {}
    for attr, sp in v.attrs.items():
        if not sp.parents:
            kw[attr] = sp.value({})
        elif getattr(sp, "none", False):
            kw[attr] = None
        elif sp.wrap == "LinearModel":
            M = sp.mats[0]
            fwd = _named_lambda(sp.parents, lambda x, M=M: M @ np.asarray(x, dtype=float).reshape(-1))
            adj = lambda y, M=M: M.T @ np.asarray(y, dtype=float).reshape(-1)
            kw[attr] = LinearModel(fwd, adj, range_geometry=v.dim, domain_geometry=sp.pdims[0])
        elif sp.wrap == "Model":
            fwd = _named_lambda(sp.parents, lambda x, f=sp.fn: f(np.asarray(x, dtype=float).reshape(-1)))
            kw[attr] = Model(fwd, range_geometry=v.dim, domain_geometry=sp.pdims[0])
        else:
            kw[attr] = _named_lambda(sp.parents, sp.fn)
    cls = getattr(D, v.family)
    return cls(**kw, geometry=make_geom(v), name=v.name)


def leaf(cuqi, v, env):
    """log-density of factor v at a complete assignment of (v, parents): a fresh fully specified distribution"""
    from cuqi import distribution as D
    kw = {attr: sp.value(env) for attr, sp in v.attrs.items()}
    dist = getattr(D, v.family)(**kw, geometry=make_geom(v))
    x = env[v.name]
    val = dist.logpdf(x if v.dim > 1 else float(np.asarray(x).reshape(-1)[0]))
    return float(np.asarray(val).reshape(-1)[0])


# ----------------------------------------------------------------------------- encoding for the driver
def enc(x):
    return qv(np.asarray(x, dtype=float).reshape(-1))


def enc_pos(pos):
    return "&".join(enc(x) for x in pos) if pos else "."


def enc_kw(kw):
    return "&".join(f"{k}={enc(x)}" for k, x in kw) if kw else "."


def kind_of(cuqi, o):
    from cuqi.distribution import JointDistribution, Posterior, Distribution
    from cuqi.likelihood import Likelihood
    from cuqi.density import EvaluatedDensity
    if o is None:
        return "None"
    n = type(o).__name__
    if n in ("JointDistribution", "_StackedJointDistribution", "MultipleLikelihoodPosterior", "Posterior"):
        return n
    if isinstance(o, Likelihood):
        return "Likelihood"
    if isinstance(o, EvaluatedDensity):
        return "EvaluatedDensity"
    if isinstance(o, Distribution):
        return "Distribution"
    return n


def describe(cuqi, o):
    try:
        names = list(o.get_parameter_names())
    except Exception as e:  # noqa
        names = ["<" + type(e).__name__ + ">"]
    return kind_of(cuqi, o) + ":" + (",".join(str(n) for n in names) if names else ".")


def _snap(args, kwargs):
    out = []
    for a in list(args) + [kwargs[k] for k in kwargs]:
        out.append(np.array(a, dtype=float, copy=True).tobytes() if isinstance(a, (np.ndarray, list, tuple)) else None)
    return out


def _const_snapshot(obj):
    """the `_constant` of every density an object holds (numbers, by value)"""
    ds = getattr(obj, "_densities", None)
    ds = list(ds) if ds is not None else [obj]
    out = []
    for d in ds:
        try:
            out.append(tuple(np.asarray(getattr(d, "_constant", 0), dtype=float).reshape(-1).tolist()))
        except Exception:  # noqa
            out.append(None)
    return out


def refusal_reason(rem, npos, kwnames):
    """The four conditions of `logd_refuses_iff` (Props/C01_full.lean) for parameter names `rem`:
    returns the first that holds or None for a well-formed call."""
    kw = list(kwnames)
    if npos > len(rem):
        return "toomany"
    if any(n in kw for n in rem[:npos]):
        return "double"
    if any(n not in kw and n not in rem[:npos] for n in rem):
        return "missing"
    if any(k not in rem for k in kw):
        return "unknown"
    return None


# ----------------------------------------------------------------------------- one program
class Program:
    def __init__(self, cuqi, rng, thorough, idx):
        self.cuqi, self.rng, self.thorough, self.idx = cuqi, rng, thorough, idx
        self.tokens = []        # driver call tokens
        self.impl = []          # implementation records, aligned with model records
        self.meta = []          # per record: dict(op, kind-before, mode, what, expect)
        self.fails = []         # oracle failures (key, desc, demanded, got, what)
        self.forms_used = set()
        self.fixed_forms = set()  # non-default representations of the values passed when fixing variables
        self.buffers = {}       # name -> writable ndarray the caller passed when fixing it
        self.scribbled = None   # class of the in-place overwrite done after a conditioning call
        self.evalbuf = {}       # name / ("stack", n) -> the caller's state buffer used for evaluations
        self.buf_reused = False
        self.outputs = []       # (returned object, float at return time, token)
        self.kept = []          # (earlier object, fixed at that time, free names)

    # -- graph
    def setup(self, graph=None):
        rng = self.rng
        if graph is not None:
            self.vs, self.shape = graph, "corpus"
        else:
            self.vs, self.shape = gen_graph(rng, self.thorough)
        self.byname = {v.name: v for v in self.vs}
        self.leafs = {}
        dens_tokens = []
        order = list(self.vs)
        if graph is None:
            rng.shuffle(order)
        self.order = order
        # some data variables enter as likelihoods from the start
        self.pre = {}
        roots = [v for v in self.vs if not any(v.name in w.params() for w in self.vs)]
        for v in roots:
            if graph is None and rng.random() < 0.2 and len(self.vs) - len(self.pre) > 1:
                self.pre[v.name] = 0
        with quiet():
            for v in order:
                ps = v.params()
                entries = []
                for combo in itertools.product(*[range(2)] * (1 + len(ps))):
                    env = {v.name: v.vals[combo[0]]}
                    for p, c in zip(ps, combo[1:]):
                        env[p] = self.byname[p].vals[c]
                    val = leaf(self.cuqi, v, env)
                    self.leafs[(v.name,) + combo] = val
                    entries.append("&".join(enc(env[n]) for n in [v.name] + ps) + "=" + q(val))
                tbl = "|".join(entries)
                pstr = ",".join(ps) if ps else "."
                if v.name in self.pre:
                    dens_tokens.append(f"L;{v.name};{v.dim};{pstr};{enc(v.vals[0])};{tbl}")
                else:
                    dens_tokens.append(f"F;{v.name};{v.dim};{pstr};{tbl}")
            self.dens = []
            for v in order:
                d = build_density(self.cuqi, v)
                if v.name in self.pre:
                    d = d(**{v.name: self._arg(v, 0)})
                self.dens.append(d)
        self.dens_tokens = dens_tokens
        self.fixed = dict(self.pre)          # name -> candidate index, tracked by the harness
        self.desc = {"program": self.idx, "shape": self.shape,
                     "graph": [f"{v.name}[{v.dim}{'/' + v.geom if v.geom else ''}]~{v.family}({','.join(v.params())})" + ("=data" if v.name in self.pre else "") for v in order]}

    def _arg(self, v, i, vary=False):
        """the value passed to the implementation; with vary=True sometimes in another representation of the same numbers"""
        x = v.vals[i]
        form = "default"
        if vary and not getattr(self, "no_vary", False) and not getattr(v, "plain", False) and self.rng.random() < 0.3:
            integral = bool(np.all(x == np.round(x)))
            if v.dim > 1:
                form = self.rng.choice(["list", "f32", "int" if integral else "list", "strided", "negstride", "readonly", "cuqiarray", "tuple"])
            else:
                form = self.rng.choice(["int" if integral else "npfloat", "npfloat", "f32", "0d", "1elem"])
        if form == "f32" and not np.array_equal(x.astype(np.float32).astype(float), x):
            form = "default"            # the same numbers only
        self.forms_used.add(form)
        if v.dim > 1:
            if form == "list":
                return [float(t) for t in x]
            if form == "tuple":
                return tuple(float(t) for t in x)
            if form == "f32":
                return x.astype(np.float32)
            if form == "int":
                return x.astype(np.int64)
            if form == "strided":
                big = np.full(2 * len(x), 99.0); big[::2] = x
                return big[::2]
            if form == "negstride":
                return x[::-1].copy()[::-1]
            if form == "readonly":
                y = x.copy(); y.setflags(write=False)
                return y
            if form == "cuqiarray":
                from cuqi.array import CUQIarray
                return CUQIarray(x.copy())
            return x.copy()
        t = float(x[0])
        return {"int": int(t) if form == "int" else t, "npfloat": np.float64(t), "f32": np.float32(t), "0d": np.array(t),
                "1elem": np.array([t])}.get(form, t)

    def remaining(self):
        return [v.name for v in self.order if v.name not in self.fixed]

    def total(self, assign):
        s = 0.0
        for v in self.vs:
            s += self.leafs[(v.name, assign[v.name]) + tuple(assign[p] for p in v.params())]
        return s

    # -- running one call on the implementation
    def _record(self, token, rec, meta):
        self.tokens.append(token); self.impl.append(rec); self.meta.append(meta)

    # -- staged assembly: a joint built from the pieces of an already conditioned joint plus fresh distributions
    def plan_stage(self):
        rng = self.rng
        seeds = rng.sample(self.vs, rng.randint(1, max(1, len(self.vs) - 1)))
        S1, stack = set(), [v.name for v in seeds]
        while stack:                                   # closed under parents: the first joint must be well-formed
            n = stack.pop()
            if n not in S1:
                S1.add(n); stack += self.byname[n].params()
        S2 = [v for v in self.order if v.name not in S1]
        need = {q_ for v in S2 for q_ in v.params()}
        cand = sorted(n for n in S1 if n not in need)    # fixed in stage 1: nothing of the second group may depend on it
        if not S2 or not cand:
            return None
        A = rng.sample(cand, rng.randint(1, len(cand)))
        groups = [A] if (len(A) < 2 or rng.random() < 0.5) else [A[:len(A) // 2], A[len(A) // 2:]]
        return S1, groups

    def do_stage(self, S1, groups, idx=lambda: 0):
        """J1 = JointDistribution(*S1)(**A...) ; J2 = JointDistribution(*pieces of J1, *fresh densities of the rest).
        Returns False if the program must stop."""
        idx1 = [i for i, v in enumerate(self.order) if v.name in S1]
        idx2 = [i for i, v in enumerate(self.order) if v.name not in S1]
        all_dens, all_tok, all_order, all_vs = self.dens, self.dens_tokens, self.order, self.vs
        self.dens = [all_dens[i] for i in idx1]; self.order = [all_order[i] for i in idx1]
        self.dens_tokens = [all_tok[i] for i in idx1]
        if not self.construct():
            self.fails.append(("new:JointDistribution:raises", self.desc, "a joint distribution", self.impl[0], "well-formed joint refused by the constructor"))
            return False
        for g in groups:
            if kind_of(self.cuqi, self.obj_) == "Posterior":
                break          # (keyword conditioning of the unnamed Posterior: the ordinary generator handles it, known finding)
            if not self.call_cond([], [(n, idx()) for n in g], "keyword", "valid"):
                return False
        self.kept = []
        kb = kind_of(self.cuqi, self.obj_)
        if kb == "Posterior":
            # a Posterior (no name of its own) is not used as a component: go on as an ordinary program on the first joint
            self.vs = [v for v in all_vs if v.name in S1]
            return True
        pieces = list(self.obj_._densities) if kb in ("JointDistribution", "MultipleLikelihoodPosterior") else [self.obj_]
        self.staged = len(self.tokens)
        self.tok1, self.tok2 = self.dens_tokens, [all_tok[i] for i in idx2]
        self.dens = pieces + [all_dens[i] for i in idx2]
        self.order = self.order + [all_order[i] for i in idx2]
        self.shape += "+staged"
        self.desc["shape"] = self.shape
        self.desc["staged"] = {"first_joint": sorted(S1), "fixed_there": [list(g) for g in groups], "piece_kinds": [kind_of(self.cuqi, t) for t in pieces]}
        if not self.construct():
            self.fails.append(("new:JointDistribution:staged:raises", dict(self.desc), "a joint distribution", self.impl[-1],
                               "a joint assembled from the densities of a conditioned joint and fresh distributions is refused"))
            return False
        return True

    def construct(self):
        from cuqi.distribution import JointDistribution
        try:
            with quiet():
                self.obj_ = JointDistribution(*self.dens)
            rec = describe(self.cuqi, self.obj_)
        except Exception as e:  # noqa
            self.obj_ = None
            rec = "err:" + type(e).__name__
        self.impl.append(rec); self.meta.append({"op": "new", "kind": "-", "mode": "-", "what": "valid"})
        return self.obj_ is not None

    def call_cond(self, pos, kw, mode, what):
        """pos: list of (name-or-None, idx); kw: list of (name, idx); values are candidate indices"""
        obj = self.obj_
        kb = kind_of(self.cuqi, obj)
        vary = what == "valid"
        self.forms_used = set()
        pargs = [self._arg(self.byname[n], i, vary) if n in self.byname else 1.0 for n, i in pos]
        kwargs = {k: (self._arg(self.byname[k], i, vary) if k in self.byname else 1.0) for k, i in kw}
        forms = sorted(self.forms_used - {"default"})
        # calls about which the property says nothing are probes: the result is compared, the object kept
        token = ("C;" if what == "valid" else "c;") + enc_pos(pargs) + ";" + enc_kw([(k, kwargs[k]) for k, _ in kw])
        before = _snap(pargs, kwargs)
        pre_consts = _const_snapshot(obj)          # constants of the object's densities BEFORE the call (see finish())
        try:
            with quiet():
                new = obj(*pargs, **kwargs)
            rec = describe(self.cuqi, new)
            ok = True
        except Exception as e:  # noqa
            rec = "err:" + type(e).__name__
            ok = False
            if what == "valid" and os.environ.get("C01_TRACE"):
                import traceback; traceback.print_exc()
        self._record(token, rec, {"op": "cond", "kind": kb, "mode": mode, "what": what})
        if _snap(pargs, kwargs) != before:
            self.fails.append((f"mutates-caller:cond:{kb}", {**self.desc, "call": token, "record": len(self.impl) - 1}, "arguments unchanged",
                               "changed", "a conditioning call writes into an array passed by the caller"))
        if what == "valid" and ok:
            self.fixed_forms |= set(forms)
            self.last_fixed = []
            for (n, _), a in list(zip(pos, pargs)) + [((k, 0), kwargs[k]) for k, _ in kw]:
                if n in self.byname and n not in self.fixed:
                    self.last_fixed.append(n)
                    if isinstance(a, np.ndarray) and a.flags.writeable and a.ndim >= 1:
                        self.buffers[n] = a
            if self.scribbled is None and self.rng.random() < 0.3:
                self.kept.append((obj, dict(self.fixed), self.remaining(), pre_consts))
        if what == "double" and ok:
            rem = self.remaining()
            if any(k in rem[:len(pos)] for k, _ in kw):      # a keyword names a parameter occupied by a positional value
                self.fails.append((f"cond:{kb}:malformed:double:accepted", {**self.desc, "call": token, "record": len(self.impl) - 1,
                                    "fixed": dict(self.fixed)}, "an error", rec,
                                   "a conditioning call with a doubly specified variable (position and keyword) returns an object"))
        if what == "valid":
            if ok:
                for n, i in list(pos) + list(kw):
                    self.fixed.setdefault(n, i)
            else:
                key = f"cond:{kb}:{mode}:raises" + ("" if mode == "keyword:unnamed" else self._formsuffix(forms))
                self.fails.append((key, {**self.desc, "call": token, "record": len(self.impl) - 1}, "conditioned object", rec,
                                   "a valid conditioning call is refused"))
        if ok and what == "valid":
            self.obj_ = new
        return ok

    def _buf(self, key, value):
        """the caller's persistent state buffer for `key`, updated IN PLACE to `value` (same ndarray object every time)"""
        value = np.asarray(value, dtype=float).reshape(-1)
        b = self.evalbuf.get(key)
        if b is None or b.shape != value.shape:
            b = self.evalbuf[key] = np.zeros(value.shape)
        else:
            self.buf_reused = True
        b[...] = value
        return b

    def call_logd(self, pos, kw, mode, what, assign=None, raw_pos=None, reuse=None):
        obj = self.obj_
        kb = kind_of(self.cuqi, obj)
        vary = what == "valid"
        if reuse is None:
            reuse = what == "valid" and self.rng.random() < 0.3
        self.forms_used = set()
        self.buf_reused = False
        if reuse:
            # Gibbs / MCMC style caller: one state array per variable (one state vector for the stacked view) that is
            # overwritten in place between successive evaluations and passed again as the same object
            pargs = ([self._buf(("stack", len(v)), v) for v in raw_pos] if raw_pos is not None else
                     [self._buf(n, self.byname[n].vals[i]) if n in self.byname else 1.0 for n, i in pos])
            kwargs = {k: (self._buf(k, self.byname[k].vals[i]) if k in self.byname else 1.0) for k, i in kw}
        else:
            if raw_pos is not None:
                pargs = raw_pos
            else:
                pargs = [self._arg(self.byname[n], i, vary) if n in self.byname else 1.0 for n, i in pos]
            kwargs = {k: (self._arg(self.byname[k], i, vary) if k in self.byname else 1.0) for k, i in kw}
        forms = sorted(self.forms_used - {"default"})
        fv = getattr(self, "_foreign_value", None)
        if fv is not None and fv[0] in kwargs:
            kwargs[fv[0]] = self._arg(fv[1], fv[2])
        token = "E;" + enc_pos(pargs) + ";" + enc_kw([(k, kwargs[k]) for k, _ in kw])
        before = _snap(pargs, kwargs)
        try:
            with quiet():
                val = obj.logd(*pargs, **kwargs)
            arr = np.asarray(val, dtype=float).reshape(-1)
            rec = ("val", float(arr[0])) if arr.size == 1 else ("val", [float(t) for t in arr])
            if arr.size == 1:
                self.outputs.append((val, float(arr[0]), token))
        except Exception as e:  # noqa
            rec = "err:" + type(e).__name__
            if what == "valid" and os.environ.get("C01_TRACE"):
                import traceback; traceback.print_exc()
        self._record(token, rec, {"op": "logd", "kind": kb, "mode": mode, "what": what})
        if _snap(pargs, kwargs) != before:
            self.fails.append((f"mutates-caller:logd:{kb}", {**self.desc, "call": token, "record": len(self.impl) - 1}, "arguments unchanged",
                               "changed", "an evaluation writes into an array passed by the caller"))
        d = {**self.desc, "call": token, "record": len(self.impl) - 1, "fixed": dict(self.fixed)}
        if what == "valid":
            full = dict(self.fixed); full.update(assign)
            want = self.total(full)
            if not (isinstance(rec, tuple) and isinstance(rec[1], float) and close(rec[1], want, TOL)):
                key = f"logd:{kb}:{mode}:" + ("raises" if isinstance(rec, str) else "value") + self._formsuffix(forms) + (":samebuffer" if self.buf_reused else "")
                if self.scribbled and not isinstance(rec, str):
                    # the caller overwrote (in place) an array it had passed when fixing a variable: the object must
                    # still stand for the values it was given
                    key = f"inplace:{self.scribbled}:logd"
                    d["overwritten"] = self.scribbled_name
                self.fails.append((key, d, want, rec if isinstance(rec, str) else rec[1],
                                   "log-density of the conditioned object is not the joint log-density at the complete assignment"))
        else:
            sound = True
            if raw_pos is None:   # (stacked calls are classified by their length instead)
                sound = refusal_reason(self.remaining(), len(pargs), [k for k, _ in kw]) is not None
            if isinstance(rec, tuple) and sound:
                key = f"logd:{kb}:malformed:{what}:accepted"
                self.fails.append((key, d, "an error", rec[1], f"evaluation with a {what} variable returns a number"))

    def call_query(self):
        """accessors of a joint: _get_fixed_variables(), dim, get_density(name) for every density (tie); oracle: the fixed
        variables and the parameter names partition the variables of the model"""
        from cuqi.distribution import Distribution
        from cuqi.likelihood import Likelihood
        obj = self.obj_
        kb = kind_of(self.cuqi, obj)
        try:
            with quiet():
                gf = getattr(obj, "_get_fixed_variables", None)     # (private helper; same information from the densities if it is renamed)
                fixed = [str(t) for t in gf()] if gf is not None else [str(d.name) for d in obj._densities if not isinstance(d, Distribution)]
                dim = obj.dim
                dims = [int(t) for t in dim] if isinstance(dim, (list, tuple)) else [int(dim)]
                dens = []
                for d in obj._densities:
                    g = obj.get_density(d.name)
                    dens.append(f"{d.name}=" + ("L" if isinstance(g, Likelihood) else ("D" if isinstance(g, Distribution) else "E")))
                names = [str(t) for t in obj.get_parameter_names()]
            rec = "q:" + (",".join(fixed) or ".") + "!" + (",".join(str(t) for t in dims) or "_") + "!" + (",".join(dens) or ".")
            present = sorted(str(d.name) for d in obj._densities)   # (a staged joint holds fixed variables of the first joint inside constants)
            if sorted(fixed + names) != present:
                self.fails.append((f"query:{kb}:partition", {**self.desc, "calls": list(self.tokens), "record": len(self.impl)},
                                   present, sorted(fixed + names), "fixed variables and parameter names do not partition the densities of the joint"))
        except Exception as e:  # noqa
            rec = "err:" + type(e).__name__
        self._record("Q", rec, {"op": "query", "kind": kb, "mode": "-", "what": "valid"})

    def call_simple(self, token, fn, what):
        obj = self.obj_
        kb = kind_of(self.cuqi, obj)
        try:
            with quiet():
                new = fn(obj)
            rec = describe(self.cuqi, new); ok = True
        except Exception as e:  # noqa
            rec = "err:" + type(e).__name__; ok = False
        self._record(token, rec, {"op": token[0], "kind": kb, "mode": "-", "what": what})
        if ok:
            self.obj_ = new
        return ok

    # -- call generators
    def gen_eval(self, malformed=None):
        rng = self.rng
        rem = self.remaining()
        kb = kind_of(self.cuqi, self.obj_)
        assign = {n: (1 if rng.random() < 0.25 else 0) for n in rem}
        if kb == "_StackedJointDistribution":
            vec = np.concatenate([self.byname[n].vals[assign[n]] for n in rem]) if rem else np.zeros(0)
            if malformed is None:
                self.call_logd([], [], "stacked", "valid", assign, raw_pos=[vec])
            elif malformed == "short":
                if len(vec) == 0:
                    return
                cut = self.byname[rem[-1]].dim if rng.random() < 0.6 else 1
                self.call_logd([], [], "stacked", "short", raw_pos=[vec[:len(vec) - cut]])
            elif malformed == "long":
                extra = np.array([0.5] * rng.randint(1, 2))
                self.call_logd([], [], "stacked", "long", raw_pos=[np.concatenate([vec, extra])])
            elif malformed == "unknown":
                self.call_logd([], [(n, assign[n]) for n in rem], "stacked", "keyword-to-stacked")
            return
        if malformed is None:
            mode = rng.choice(["keyword", "keyword", "positional", "mixed"])
            if mode == "keyword" or not rem:
                ks = list(rem); rng.shuffle(ks)
                self.call_logd([], [(n, assign[n]) for n in ks], "keyword", "valid", assign)
            elif mode == "positional" or kb in ("Posterior", "Distribution", "Likelihood"):
                self.call_logd([(n, assign[n]) for n in rem], [], "positional", "valid", assign)
            else:
                m = rng.randint(1, len(rem))
                ks = rem[m:]; rng.shuffle(ks)
                self.call_logd([(n, assign[n]) for n in rem[:m]], [(n, assign[n]) for n in ks], "mixed", "valid", assign)
            return
        if malformed == "missing":
            if not rem:
                return
            drop = rng.choice(rem)
            ks = [n for n in rem if n != drop]
            if rng.random() < 0.5 or kb in ("Posterior", "Distribution"):
                self.call_logd([], [(n, assign[n]) for n in ks], "keyword", "missing")
            else:
                self.call_logd([(n, assign[n]) for n in rem[:-1]], [], "positional", "missing")
        elif malformed == "unknown":
            extra = UNKNOWN
            if self.fixed and rng.random() < 0.5:
                extra = rng.choice(sorted(self.fixed))     # a variable that is already fixed is unknown to the object
            ks = [(n, assign[n]) for n in rem] + [(extra, 1)]
            rng.shuffle(ks)
            self.call_logd([], ks, "keyword", "unknown")
        elif malformed == "double":
            if not rem:
                return
            if kb in ("Posterior", "Distribution"):
                self.call_logd([(rem[0], assign[rem[0]])], [(rem[0], assign[rem[0]])], "mixed", "double")
            else:
                m = rng.randint(1, len(rem))
                dup = rng.choice(rem[:m])
                ks = [(n, assign[n]) for n in rem[m:]] + [(dup, 1 - assign[dup])]
                self.call_logd([(n, assign[n]) for n in rem[:m]], ks, "mixed", "double")
        elif malformed == "toomany":
            self.call_logd([(n, assign[n]) for n in rem] + [(None, 0)], [], "positional", "unknown")
        elif malformed == "renamed":
            # one free variable is passed under a foreign name (unknown, or already fixed): missing + unknown;
            # with a single free variable this is a ONE-keyword call
            if not rem:
                return
            foreign = rng.choice(sorted(self.fixed)) if (self.fixed and rng.random() < 0.6) else UNKNOWN
            victim = rng.choice(rem)
            m = rng.randint(0, len(rem) - 1) if kb not in ("Posterior", "Distribution", "Likelihood") else 0
            if victim in rem[:m]:
                m = rem.index(victim)
            ks = [((foreign, assign[n]) if n == victim else (n, assign[n])) for n in rem[m:]]
            rng.shuffle(ks)
            # the foreign key carries the *victim's* value (so a code path that ignores names gets a usable value)
            self._foreign_value = (foreign, self.byname[victim], assign[victim])
            self.call_logd([(n, assign[n]) for n in rem[:m]], ks, "mixed" if m else "keyword", "renamed")
            self._foreign_value = None
        elif malformed == "double-shift":
            # a keyword names a parameter that a positional value occupies, another parameter is missing, so that
            # the number of values equals the number of parameters
            if len(rem) < 2:
                return
            m = rng.randint(1, len(rem) - 1)
            dup = rng.choice(rem[:m])
            rest = rem[m:]
            drop = rng.choice(rest)
            ks = [(dup, assign[dup])] + [(n, assign[n]) for n in rest if n != drop]
            rng.shuffle(ks)
            self.call_logd([(n, assign[n]) for n in rem[:m]], ks, "mixed", "double")
        elif malformed == "fixed-only":
            # only already fixed / unknown names, every free variable missing
            pool = sorted(self.fixed) + [UNKNOWN]
            ks = [(k, 0) for k in rng.sample(pool, rng.randint(1, min(2, len(pool))))]
            self.call_logd([], ks, "keyword", "missing")

    def gen_cond(self):
        rng = self.rng
        rem = self.remaining()
        kb = kind_of(self.cuqi, self.obj_)
        r = rng.random()
        if not rem:
            # everything fixed: further calls must leave the object alone
            self.call_cond([], [], "empty", "valid")
            return
        if kb == "Posterior":
            n = rem[0]
            if rng.random() < 0.2:
                self.call_cond([(n, 0)], [(n, 1)], "mixed", "double")
            c = rng.choice(["unnamed-keyword", "named-keyword", "positional", "positional"])
            if c == "named-keyword":
                self.call_simple("N;" + n, lambda o: (setattr(o, "name", n), o)[1], "valid")
                self.call_cond([], [(n, 0)], "keyword:named", "valid")
            elif c == "positional":
                self.call_cond([(n, 0)], [], "positional", "valid")
            else:
                self.call_cond([], [(n, 0)], "keyword:unnamed", "valid")
            return
        if r < 0.08:
            self.call_cond([], [], "empty", "valid"); return
        if r < 0.14:      # ignored / refused keywords (no demand from the property: tie only)
            extra = rng.choice(sorted(self.fixed)) if (self.fixed and rng.random() < 0.6) else UNKNOWN
            self.call_cond([], [(extra, 1)], "keyword", "foreign-key"); return
        if r < 0.20:
            if len(rem) >= 2 and rng.random() < 0.6 and kb not in ("Distribution", "Likelihood"):
                m = rng.randint(1, len(rem) - 1)
                dup = rng.choice(rem[:m])
                ks = [(dup, 1)] + [(n, 0) for n in rng.sample(rem[m:], rng.randint(0, len(rem) - m - 1))]
                rng.shuffle(ks)
                self.call_cond([(n, 0) for n in rem[:m]], ks, "mixed", "double"); return
            self.call_cond([(rem[0], 0)], [(rem[0], 1)], "mixed", "double"); return
        if r < 0.23:
            self.call_cond([(n, 0) for n in rem] + [(None, 0)], [], "positional", "toomany"); return
        idx = lambda: 0 if rng.random() < 0.85 else 1
        mode = rng.choice(["keyword", "keyword", "keyword", "positional", "mixed"])
        if kb in ("Distribution", "Likelihood"):
            mode = rng.choice(["keyword", "positional"])
        if mode == "keyword":
            k = rng.randint(1, len(rem))
            ks = rng.sample(rem, k)
            self.call_cond([], [(n, idx()) for n in ks], "keyword", "valid")
        elif mode == "positional":
            m = rng.randint(1, len(rem))
            self.call_cond([(n, idx()) for n in rem[:m]], [], "positional", "valid")
        else:
            m = rng.randint(1, len(rem))
            rest = rem[m:]
            ks = rng.sample(rest, rng.randint(0, len(rest))) if rest else []
            self.call_cond([(n, idx()) for n in rem[:m]], [(n, idx()) for n in ks], "mixed", "valid")

    def run(self):
        rng = self.rng
        self.setup()
        if rng.random() < 0.04 and len(self.dens) > 1:
            # ill-formed joint: a prior is missing or a name is used twice -> the constructor must refuse
            if rng.random() < 0.5:
                k = rng.randrange(len(self.dens))
                del self.dens[k]; del self.dens_tokens[k]; del self.order[k]
            else:
                self.dens.append(self.dens[0]); self.dens_tokens.append(self.dens_tokens[0])
            self.desc["ill_formed"] = True
            self.construct()
            return
        plan = self.plan_stage() if (rng.random() < 0.2 and not self.pre and len(self.vs) >= 2) else None
        if plan is not None:
            if not self.do_stage(plan[0], plan[1], idx=lambda: 0 if rng.random() < 0.8 else 1):
                return
        else:
            if not self.construct():
                self.fails.append(("new:JointDistribution:raises", self.desc, "a joint distribution", self.impl[0],
                                   "well-formed joint refused by the constructor"))
                return
            if rng.random() < 0.15:
                self.run_problem()
                return
        stacked_done = False
        steps = rng.randint(2, 7)
        for _ in range(steps):
            r = rng.random()
            kb = kind_of(self.cuqi, self.obj_)
            is_joint = kb in ("JointDistribution", "MultipleLikelihoodPosterior", "_StackedJointDistribution")
            if r < 0.34:
                self.gen_eval()
            elif r < 0.50:
                if kb == "_StackedJointDistribution":
                    self.gen_eval(rng.choice(["short", "long", "short", "unknown"]))
                else:
                    self.gen_eval(rng.choice(["missing", "unknown", "double", "toomany", "renamed", "renamed", "double-shift", "fixed-only"]))
            elif r < 0.62 and r >= 0.58 and is_joint:
                self.call_query()
            elif r < 0.58 and is_joint and not stacked_done:
                stacked_done = self.call_simple("S", lambda o: o._as_stacked(), "valid")
                self.gen_eval()
            else:
                self.gen_cond()
                if rng.random() < 0.25:
                    self.scribble()
                if rng.random() < 0.7:
                    self.gen_eval()
        self.gen_eval()
        self.finish()
        # every final object (of whatever kind) also sees the malformed stream
        for m in rng.sample(["missing", "unknown", "double", "toomany", "renamed", "double-shift", "fixed-only"], 2):
            if kind_of(self.cuqi, self.obj_) == "_StackedJointDistribution":
                m = rng.choice(["short", "long", "unknown"])
            self.gen_eval(m)

    # -- the BayesianProblem route (cuqi/problem/_problem.py)
    def prob_fix(self, first, names):
        """BayesianProblem(*densities, **data) (first=True) or problem.set_data(**data)"""
        from cuqi.problem import BayesianProblem
        kwargs = {k: self._arg(self.byname[k], 0) for k in names}
        kb = "-" if first else kind_of(self.cuqi, self.problem._target)
        token = ("C;.;" if first else "D;.;") + enc_kw([(k, kwargs[k]) for k in names])
        valid = first or kb in ("JointDistribution", "MultipleLikelihoodPosterior")
        try:
            with quiet():
                if first:
                    self.problem = BayesianProblem(*self.dens, **kwargs)
                else:
                    self.problem.set_data(**kwargs)
            rec = describe(self.cuqi, self.problem._target); ok = True
        except Exception as e:  # noqa
            rec = "err:" + type(e).__name__; ok = False
        self._record(token, rec, {"op": "problem-init" if first else "set_data", "kind": kb, "mode": "keyword",
                                  "what": "valid" if valid else "target-not-joint"})
        if ok:
            for n in names:
                self.fixed.setdefault(n, 0)
            self.obj_ = self.problem._target
        elif valid:
            self.fails.append((f"problem:{'init' if first else 'set_data'}:{kb}:raises", {**self.desc, "call": token, "record": len(self.impl) - 1},
                               "conditioned target", rec, "fixing variables through the BayesianProblem API is refused"))
        return ok

    def prob_eval(self, op, pos, kw, what, want=None):
        """problem.posterior / .likelihood / .prior followed by .logd"""
        acc = {"P": "posterior", "AL": "likelihood", "AP": "prior"}[op]
        kb = kind_of(self.cuqi, self.problem._target)
        pargs = [self._arg(self.byname[n], i) for n, i in pos]
        kwargs = {k: (self._arg(self.byname[k], i) if k in self.byname else 1.0) for k, i in kw}
        fv = getattr(self, "_foreign_value", None)
        if fv is not None and fv[0] in kwargs:
            kwargs[fv[0]] = self._arg(fv[1], fv[2])
        token = op + ";" + enc_pos(pargs) + ";" + enc_kw([(k, kwargs[k]) for k, _ in kw])
        try:
            with quiet():
                val = getattr(self.problem, acc).logd(*pargs, **kwargs)
            arr = np.asarray(val, dtype=float).reshape(-1)
            rec = ("val", float(arr[0])) if arr.size == 1 else ("val", [float(t) for t in arr])
        except Exception as e:  # noqa
            rec = "err:" + type(e).__name__
        self._record(token, rec, {"op": "problem." + acc, "kind": kb, "mode": "positional" if pos else "keyword", "what": what})
        d = {**self.desc, "call": token, "record": len(self.impl) - 1, "fixed": dict(self.fixed)}
        if what == "valid":
            if not (isinstance(rec, tuple) and isinstance(rec[1], float) and close(rec[1], want, TOL)):
                self.fails.append((f"problem:{acc}:logd:" + ("raises" if isinstance(rec, str) else "value"), d, want,
                                   rec if isinstance(rec, str) else rec[1],
                                   f"problem.{acc}.logd is not the corresponding part of the joint log-density at the complete assignment"))
        elif what in ("renamed", "missing", "unknown", "double"):
            if isinstance(rec, tuple):
                self.fails.append((f"problem:{acc}:logd:malformed:{what}:accepted", d, "an error", rec[1],
                                   f"evaluation with a {what} variable returns a number"))

    def run_problem(self):
        """data only / data + hyper-parameters, through the constructor and one or several set_data calls"""
        rng = self.rng
        self.desc["route"] = "BayesianProblem"
        self.shape += "+problem"
        names = self.remaining()
        target = rng.choice(names)
        others = [n for n in names if n != target]
        rng.shuffle(others)
        if len(others) > 1 and rng.random() < 0.12:
            others.pop()                       # something besides the target stays free: no Posterior
        ngroups = rng.randint(1, 3)
        groups = [[] for _ in range(ngroups)]
        for n in others:
            groups[rng.randrange(ngroups)].append(n)
        if not self.prob_fix(True, groups[0]):
            return
        for g in groups[1:]:
            if g or rng.random() < 0.3:
                self.prob_fix(False, g)
        kb = kind_of(self.cuqi, self.problem._target)
        rem = self.remaining()
        if kb != "Posterior" or rem != [target]:
            # accessors must agree with the model (they refuse unless the target is a Posterior)
            self.prob_eval("P", [], [(n, 0) for n in rem], "no-posterior")
            if rng.random() < 0.5:
                self.prob_fix(False, [rem[0]] if rem else [])
            self.gen_eval()
            return
        T = self.byname[target]
        liks = [v for v in self.vs if v.name != target and target in v.params()]
        for _ in range(rng.randint(2, 4)):
            i = 1 if rng.random() < 0.3 else 0
            full = dict(self.fixed); full[target] = i
            pos, kw = ([(target, i)], []) if rng.random() < 0.5 else ([], [(target, i)])
            self.prob_eval("P", pos, kw, "valid", self.total(full))
            if rng.random() < 0.6 and len(liks) == 1:
                L = liks[0]
                self.prob_eval("AL", pos, kw, "valid", self.leafs[(L.name, full[L.name]) + tuple(full[p] for p in L.params())])
                self.prob_eval("AP", pos, kw, "valid", self.leafs[(T.name, i) + tuple(full[p] for p in T.params())])
        # malformed evaluations of the posterior handed out by the problem
        foreign = rng.choice(sorted(self.fixed)) if (self.fixed and rng.random() < 0.6) else UNKNOWN
        self._foreign_value = (foreign, T, 0)
        self.prob_eval("P", [], [(foreign, 0)], "renamed")
        self._foreign_value = None
        self.prob_eval("P", [(target, 0)], [(target, 1)], "double")
        self.prob_eval("P", [], [(target, 0), (UNKNOWN, 0)], "unknown")
        # get_components(): the data handed out is the value the likelihood's variable was fixed to
        if len(liks) == 1:
            try:
                with quiet():
                    model, data, info = self.problem.get_components()
                good = np.array_equal(np.asarray(data, dtype=float).reshape(-1), liks[0].vals[self.fixed[liks[0].name]])
                got = str(np.asarray(data).tolist())[:80]
            except Exception as e:  # noqa
                good, got = False, "err:" + type(e).__name__
            if not good:
                self.fails.append(("problem:get_components:data", dict(self.desc), str(liks[0].vals[self.fixed[liks[0].name]].tolist()), got,
                                   "get_components() does not hand out the observed data"))
        self.prob_fix(False, [target])         # data already set: refused (tie)
        self.gen_eval()                        # the target itself, as any other reduced object

    def _formsuffix(self, forms):
        """input class of a failure: the non-float64 / non-plain-ndarray representations involved (this call and the fixed values)"""
        fs = sorted(set(forms) | self.fixed_forms)
        return (":form=" + "+".join(fs)) if fs else ""

    def scribble(self):
        """Gibbs-style state buffer: overwrite in place ONE array that was passed when fixing a variable in the last call"""
        cands = [n for n in getattr(self, "last_fixed", []) if n in self.buffers]
        if not cands or self.scribbled:
            return
        n = self.rng.choice(cands)
        v = self.byname[n]
        flags = []
        flags.append("evaluated" if all(p in self.fixed for p in v.params()) else "likdata")
        for w in self.vs:
            if w.name == n:
                continue
            for sp in w.attrs.values():
                if n in sp.parents:
                    if getattr(sp, "identity", False):
                        flags.append("alias")          # the attribute IS the caller's array
                    elif any(p not in self.fixed for p in sp.parents):
                        flags.append("partial")        # functools.partial keeps the caller's array
        self.scribbled = "+".join(sorted(set(flags)))
        self.scribbled_name = n
        self.buffers[n][...] = self.buffers[n] * 3.0 + 7.0
        self.kept = []

    def finish(self):
        """G8: everything returned earlier must still be what it was; earlier objects still evaluate as they did"""
        for val, f0, token in self.outputs:
            now = float(np.asarray(val, dtype=float).reshape(-1)[0])
            if now != f0:
                self.fails.append(("retained:logd-output", {**self.desc, "call": token}, f0, now,
                                   "a number returned by logd changed after later calls (the returned array is a view of internal state)"))
                break
        for obj, fixed, rem, csnap in self.kept[:3]:
            assign = {n: 0 for n in rem}
            full = dict(fixed); full.update(assign)
            want = self.total(full)
            kb = kind_of(self.cuqi, obj)
            try:
                with quiet():
                    if kb == "_StackedJointDistribution":
                        got = obj.logd(np.concatenate([self.byname[n].vals[0] for n in rem]) if rem else np.zeros(0))
                    else:
                        got = obj.logd(**{n: self._arg(self.byname[n], 0) for n in rem})
                got = float(np.asarray(got, dtype=float).reshape(-1)[0])
            except Exception as e:  # noqa
                got = "err:" + type(e).__name__
            if not (isinstance(got, float) and close(got, want, TOL)):
                # the constants stored on the densities of the kept object were changed by a later call on ANOTHER object:
                # `_add_constants_to_density` does `density._constant += ...` in place on an ndarray shared with the shallow copy
                shared = isinstance(got, float) and _const_snapshot(obj) != csnap
                self.fails.append((f"retained:object:{kb}:logd" + (":shared-constant" if shared else "") + ((":raises" + self._formsuffix([])) if isinstance(got, str) else ""),
                                   {**self.desc, "fixed": fixed, "constants_before": [str(t) for t in csnap], "constants_now": [str(t) for t in _const_snapshot(obj)]} if shared else {**self.desc, "fixed": fixed}, want, got,
                                   "an object obtained earlier no longer evaluates to its joint log-density after later conditioning calls on it"))

    def line(self):
        st = getattr(self, "staged", None)
        if st is not None:
            return ("prog2 " + " ".join(self.tok1) + " -- " + " ".join(self.tokens[:st]) + " ++ " + " ".join(self.tok2) + " -- " + " ".join(self.tokens[st:]))
        return "prog " + " ".join(self.dens_tokens) + " -- " + " ".join(self.tokens)


def docstring_graph():
    """y | x, s ; x | z ; z ; s  (the class docstring's model with one more hyper-parameter)"""
    A = np.array([[1., 2., 0.], [0., 1., 1.], [1., 0., 1.], [2., 1., 0.]])
    y, x, z, s_ = Var("y", 4, "vec"), Var("x", 3, "vec"), Var("z", 1, "pos"), Var("s", 1, "pos")
    y.family = "Gaussian"
    y.attrs = {"mean": Spec(["x"], lambda x: A @ np.asarray(x, dtype=float)), "cov": Spec(["s"], lambda s: 1.0 / float(np.asarray(s).reshape(-1)[0]))}
    x.family = "Gaussian"
    x.attrs = {"mean": Spec([], lambda: np.zeros(3)), "cov": Spec(["z"], lambda z: 1.0 / float(np.asarray(z).reshape(-1)[0]))}
    z.family = "Gamma"; z.attrs = {"shape": Spec([], lambda: 1.0), "rate": Spec([], lambda: 1.0)}
    s_.family = "Gamma"; s_.attrs = {"shape": Spec([], lambda: 2.0), "rate": Spec([], lambda: 0.5)}
    y.vals = [np.array([1., 2., 3., 4.]), np.array([0., 1., 0., 1.])]
    x.vals = [np.array([.5, -1., 2.]), np.array([1., 1., 0.])]
    z.vals = [np.array([2.0]), np.array([0.5])]
    s_.vals = [np.array([0.5]), np.array([4.0])]
    return [y, x, z, s_]


def corpus(cuqi):
    """fixed programs run before the generated ones: the docstring model through every kind of
    object, and the witnesses of the known findings (posterior by keyword, stacked length)"""
    out = []
    def prog(idx, script):
        p = Program(cuqi, random.Random(f"C01-corpus-{idx}"), False, f"corpus-{idx}")
        p.no_vary = True            # corpus programs: plain float64 arrays / python floats only
        p.setup(docstring_graph())
        if p.construct():
            script(p)
        out.append(p)
    A0 = {"y": 0, "x": 0, "z": 0, "s": 0}
    def s0(p):   # posterior: keyword (known finding), positional, named
        p.call_logd([], [(n, 0) for n in "sxzy"], "keyword", "valid", A0)
        p.call_cond([], [("y", 0), ("z", 0), ("s", 0)], "keyword", "valid")
        p.call_logd([], [("x", 0)], "keyword", "valid", {"x": 0})
        p.call_logd([("x", 1)], [], "positional", "valid", {"x": 1})
        p.call_cond([], [("x", 0)], "keyword:unnamed", "valid")
        p.call_simple("N;x", lambda o: (setattr(o, "name", "x"), o)[1], "valid")
        p.call_cond([], [("x", 0)], "keyword:named", "valid")
        p.call_logd([], [], "keyword", "valid", {})
    def s1(p):   # several steps, different order, positional last step
        p.call_cond([], [("s", 0)], "keyword", "valid")
        p.call_cond([("y", 0)], [("z", 0)], "mixed", "valid")
        p.call_logd([("x", 0)], [], "positional", "valid", {"x": 0})
        p.call_cond([("x", 0)], [], "positional", "valid")
        p.call_logd([], [], "keyword", "valid", {})
    def s2(p):   # stacked: right length, too short (z and s / only s missing), too long
        p.call_cond([], [("y", 0)], "keyword", "valid")
        p.call_simple("S", lambda o: o._as_stacked(), "valid")
        v = np.concatenate([p.byname[n].vals[0] for n in "xzs"])
        p.call_logd([], [], "stacked", "valid", {"x": 0, "z": 0, "s": 0}, raw_pos=[v])
        p.call_logd([], [], "stacked", "short", raw_pos=[v[:4]])
        p.call_logd([], [], "stacked", "short", raw_pos=[v[:3]])
        p.call_logd([], [], "stacked", "long", raw_pos=[np.concatenate([v, [1.0]])])
        p.call_cond([], [("x", 0), ("z", 0), ("s", 0)], "keyword", "valid")
        p.call_logd([], [], "stacked", "long", raw_pos=[np.array([1.0, 2.0])])
    def s3(p):   # distribution left (data free), refusals at the joint
        p.call_logd([], [("y", 0), ("x", 0), ("z", 0)], "keyword", "missing")
        p.call_logd([], [("y", 0), ("x", 0), ("z", 0), ("s", 0), (UNKNOWN, 0)], "keyword", "unknown")
        p.call_logd([("y", 0), ("x", 0)], [("z", 0), ("s", 0), ("y", 1)], "mixed", "double")
        p.call_cond([], [("x", 1), ("s", 0), ("z", 0)], "keyword", "valid")
        p.call_logd([], [("y", 0)], "keyword", "valid", {"y": 0})
        p.call_cond([], [("y", 1)], "keyword", "valid")
        p.call_logd([], [], "keyword", "valid", {})
    for i, sc in enumerate([s0, s1, s2, s3]):
        prog(i, sc)
    # --- the same array objects passed to successive evaluations and updated in place in between
    def s4(p):   # Posterior
        p.call_cond([], [("y", 0), ("z", 0), ("s", 0)], "keyword", "valid")
        for i, kwmode in [(0, False), (1, False), (0, True), (1, True), (0, False)]:
            if kwmode:
                p.call_logd([], [("x", i)], "keyword", "valid", {"x": i}, reuse=True)
            else:
                p.call_logd([("x", i)], [], "positional", "valid", {"x": i}, reuse=True)
    def s5(p):   # conditioned joint (likelihood y | x, s still has two parameters)
        p.call_cond([], [("y", 0)], "keyword", "valid")
        for a, mode in [((0, 0, 0), "keyword"), ((1, 0, 0), "keyword"), ((1, 0, 1), "keyword"), ((0, 1, 1), "positional"),
                        ((1, 1, 1), "positional"), ((1, 1, 0), "mixed"), ((0, 1, 0), "mixed")]:
            asg = dict(zip("xzs", a))
            if mode == "keyword":
                p.call_logd([], [(n, asg[n]) for n in "szx"], mode, "valid", asg, reuse=True)
            elif mode == "positional":
                p.call_logd([(n, asg[n]) for n in "xzs"], [], mode, "valid", asg, reuse=True)
            else:
                p.call_logd([("x", asg["x"])], [("s", asg["s"]), ("z", asg["z"])], mode, "valid", asg, reuse=True)
    def s6(p):   # stacked view: one state vector
        p.call_cond([], [("y", 0)], "keyword", "valid")
        p.call_simple("S", lambda o: o._as_stacked(), "valid")
        for a in [(0, 0, 0), (1, 0, 0), (1, 1, 0), (0, 1, 0), (0, 1, 1), (0, 0, 0)]:
            asg = dict(zip("xzs", a))
            v = np.concatenate([p.byname[n].vals[asg[n]] for n in "xzs"])
            p.call_logd([], [], "stacked", "valid", asg, raw_pos=[v], reuse=True)
    for i, sc in enumerate([s4, s5, s6]):
        prog(4 + i, sc)
    def s7(p):   # MultipleLikelihoodPosterior, and its stacked view
        p.call_cond([], [("y1", 0), ("y2", 0)], "keyword", "valid")
        for i, kwmode in [(0, True), (1, True), (0, False), (1, False), (0, True)]:
            if kwmode:
                p.call_logd([], [("x", i)], "keyword", "valid", {"x": i}, reuse=True)
            else:
                p.call_logd([("x", i)], [], "positional", "valid", {"x": i}, reuse=True)
        p.call_simple("S", lambda o: o._as_stacked(), "valid")
        for i in (0, 1, 0):
            p.call_logd([], [], "stacked", "valid", {"x": i}, raw_pos=[p.byname["x"].vals[i].copy()], reuse=True)
    # --- successive evaluations that differ only by a hyper-parameter change below np.allclose's tolerances
    def near_graph():
        g = docstring_graph()
        g[2].vals = [np.array([2.0]), np.array([2.0 * (1 + 2.0 ** -17)])]     # z: relative change 7.6e-6
        g[3].vals = [np.array([1e-9]), np.array([2e-9])]                       # s: absolute change 1e-9
        return g
    def s8(p):   # the unconditioned joint, then the joint conditioned on the data, then its stacked view
        seq = [(0, 0), (1, 0), (1, 1), (0, 1), (0, 0)]
        for zi, si in seq:
            asg = {"y": 0, "x": 0, "z": zi, "s": si}
            p.call_logd([], [(n, asg[n]) for n in "yxzs"], "keyword", "valid", asg, reuse=False)
        p.call_cond([], [("y", 0)], "keyword", "valid")
        for k, (zi, si) in enumerate(seq):
            asg = {"x": k % 2, "z": zi, "s": si}
            if k % 2:
                p.call_logd([(n, asg[n]) for n in "xzs"], [], "positional", "valid", asg, reuse=False)
            else:
                p.call_logd([], [(n, asg[n]) for n in "zsx"], "keyword", "valid", asg, reuse=False)
        p.call_simple("S", lambda o: o._as_stacked(), "valid")
        for zi, si in seq:
            asg = {"x": 0, "z": zi, "s": si}
            p.call_logd([], [], "stacked", "valid", asg, raw_pos=[np.concatenate([p.byname[n].vals[asg[n]] for n in "xzs"])], reuse=False)
    pn = Program(cuqi, random.Random("C01-corpus-8"), False, "corpus-8")
    pn.no_vary = True
    pn.setup(near_graph())
    if pn.construct():
        s8(pn)
    out.append(pn)
    # --- a hyper-parameter called like the mutable variable it enters, through a callable that is not the identity,
    #     and one standing directly in a mutable variable that is None
    def s9(p):
        A0 = {"y": 0, "x": 0, "std": 0, "rate": 0}
        p.call_logd([], [(n, 0) for n in ["rate", "y", "std", "x"]], "keyword", "valid", A0, reuse=False)
        p.call_cond([], [("std", 1)], "keyword", "valid")
        p.call_logd([], [("y", 0), ("x", 1), ("rate", 0)], "keyword", "valid", {"y": 0, "x": 1, "rate": 0}, reuse=False)
        p.call_cond([], [("y", 0)], "keyword", "valid")
        p.call_logd([("x", 0), ("rate", 1)], [], "positional", "valid", {"x": 0, "rate": 1}, reuse=False)
        p.call_cond([], [("rate", 0)], "keyword", "valid")
        p.call_logd([("x", 0)], [], "positional", "valid", {"x": 0}, reuse=False)
        p.call_logd([], [("x", 1)], "keyword", "valid", {"x": 1}, reuse=False)
    pa = Program(cuqi, random.Random("C01-corpus-9"), False, "corpus-9")
    pa.no_vary = True
    pa.setup(attrname_graph())
    if pa.construct():
        s9(pa)
    out.append(pa)
    # --- staged assembly: x | z conditioned on z in a first joint (a Distribution carrying log p(z)), used as the prior of a second joint
    def s10(p):
        if not p.do_stage({"x", "z"}, [["z"]]):
            return
        A0 = {"y": 0, "x": 0, "s": 0}
        p.call_logd([], [(n, 0) for n in ["y", "s", "x"]], "keyword", "valid", A0, reuse=False)
        p.call_cond([], [("s", 0)], "keyword", "valid")
        p.call_cond([], [("y", 0)], "keyword", "valid")
        p.call_logd([("x", 0)], [], "positional", "valid", {"x": 0}, reuse=False)
        p.call_logd([], [("x", 1)], "keyword", "valid", {"x": 1}, reuse=False)
        p.call_cond([("x", 1)], [], "positional", "valid")
        p.call_logd([], [], "keyword", "valid", {})
    ps = Program(cuqi, random.Random("C01-corpus-10"), False, "corpus-10")
    ps.no_vary = True
    ps.setup(docstring_graph())
    s10(ps)
    out.append(ps)
    pm = Program(cuqi, random.Random("C01-corpus-7"), False, "corpus-7")
    pm.no_vary = True
    pm.setup(multi_graph())
    if pm.construct():
        s7(pm)
    out.append(pm)
    return out


def attrname_graph():
    """y | x ; x | std ~ Normal(0, std=lambda std: 0.1 + std) ; std | rate ~ Gamma(2, rate=None) ; rate ~ Normal(1, 0.5)
    (a variable must not be called like a mutable variable of its OWN distribution: `Gamma(3, 2, name="rate")` cannot be fixed by keyword)"""
    A = np.array([[1., 2., 0.], [.5, -1., 1.], [3., .25, -2.]])
    y, x, sd, rt = Var("y", 3, "vec"), Var("x", 3, "vec"), Var("std", 1, "pos"), Var("rate", 1, "pos")
    y.family = "Gaussian"
    y.attrs = {"mean": Spec(["x"], lambda x: A @ np.asarray(x, dtype=float)), "cov": Spec([], lambda: 0.5)}
    x.family = "Normal"
    x.attrs = {"mean": Spec([], lambda: np.zeros(3)), "std": Spec(["std"], lambda std: 0.125 + float(np.asarray(std).reshape(-1)[0]))}
    sd.family = "Gamma"
    sd.attrs = {"shape": Spec([], lambda: 2.0), "rate": Spec(["rate"], lambda s: float(np.asarray(s).reshape(-1)[0]))}
    sd.attrs["rate"].none = True
    rt.family = "Normal"; rt.attrs = {"mean": Spec([], lambda: np.array([1.0])), "std": Spec([], lambda: 0.5)}
    y.vals = [np.array([.5, 1.5, -2.]), np.array([0., 1., 0.])]
    x.vals = [np.array([1., .25, -.5]), np.array([.5, 0., 1.])]
    sd.vals = [np.array([0.75]), np.array([2.0])]
    rt.vals = [np.array([1.0]), np.array([0.5])]
    return [y, x, sd, rt]


def multi_graph():
    """y1 | x ; y2 | x ; x   (two data sets over one parameter -> MultipleLikelihoodPosterior)"""
    A = np.array([[1., 2., 0.], [0., 1., 1.]])
    B = np.array([[1., 0., 1.], [2., 1., 0.], [0., 1., 1.]])
    y1, y2, x = Var("y1", 2, "vec"), Var("y2", 3, "vec"), Var("x", 3, "vec")
    y1.family = "Gaussian"
    y1.attrs = {"mean": Spec(["x"], lambda x: A @ np.asarray(x, dtype=float)), "cov": Spec([], lambda: 2.0)}
    y2.family = "Laplace"
    y2.attrs = {"location": Spec(["x"], lambda x: B @ np.asarray(x, dtype=float)), "scale": Spec([], lambda: 0.5)}
    x.family = "Gaussian"
    x.attrs = {"mean": Spec([], lambda: np.zeros(3)), "cov": Spec([], lambda: 4.0)}
    y1.vals = [np.array([1., 2.]), np.array([0., 1.])]
    y2.vals = [np.array([1., 0., -1.]), np.array([2., 2., 0.])]
    x.vals = [np.array([.5, -1., 2.]), np.array([1., 1., 0.])]
    return [y1, y2, x]


def compare(model_rec, impl_rec):
    """None if equal, else short description"""
    if model_rec == "?":
        return None
    if isinstance(impl_rec, str) and (impl_rec.startswith("q:") or model_rec.startswith("q:")):
        return None if model_rec == impl_rec else "accessor results differ (fixed variables ! dim ! density kinds by name)"
    if isinstance(impl_rec, tuple):
        if not model_rec.startswith("val:"):
            return "model refuses / changes object, implementation returns a number"
        if not isinstance(impl_rec[1], float):
            return "implementation returns a non-scalar"
        from fractions import Fraction
        return None if close(impl_rec[1], float(Fraction(model_rec[4:])), TOL) else "values differ"
    if impl_rec.startswith("err:"):
        return None if model_rec.startswith("err:") else "implementation raises, model does not"
    if model_rec.startswith("err:") or model_rec.startswith("val:"):
        return "model refuses, implementation does not"
    return None if model_rec == impl_rec else "kind / parameter names differ"


def run_programs(ctx, cuqi, indices, thorough, with_corpus=True):
    progs = corpus(cuqi) if with_corpus else []
    for k in indices:
        p = Program(cuqi, random.Random(f"C01-{ctx.seed}-{k}"), thorough, k)
        try:
            p.run()
        except Exception as e:  # noqa  (a crash of the harness itself on this program)
            import traceback
            ctx.note(f"program {k}: harness error {type(e).__name__}: {e} :: {traceback.format_exc()[-300:]}")
            continue
        progs.append(p)
    outs = ctx.lean.drive([p.line() for p in progs])
    errclass = {}
    nmiss = 0
    for p, out in zip(progs, outs):
        nontrivial = len(p.impl) > 2
        ctx.case(f"program:{p.shape}" + (":ill-formed" if p.desc.get("ill_formed") else ""), {**p.desc, "calls": p.tokens}, nontrivial)
        mrecs = out.split(";")
        fail_by_rec = {}
        confirmed = None
        for (key, d, want, got, what) in p.fails:
            if key.startswith("retained:object") and isinstance(p.idx, int):
                # a failure must be replayable: re-run the same program; a deviation of a retained object that does not
                # recur on the identical program is recorded as a note, not reported (no concrete failing input to show)
                if confirmed is None:
                    p2 = Program(cuqi, random.Random(f"C01-{ctx.seed}-{p.idx}"), thorough, p.idx)
                    try:
                        p2.run()
                        confirmed = {f[0] for f in p2.fails}
                    except Exception:  # noqa
                        confirmed = set()
                if key not in confirmed:
                    ctx.note(f"program {p.idx}: {key} (demanded {want}, got {got}) did not recur when the identical program was re-run; not reported")
                    continue
            ctx.fail(key, d, want, got, what)
            fail_by_rec.setdefault(d.get("record"), key)
        if out == "bad-op" or len(mrecs) != len(p.impl):
            # constructor refused in the model: remaining records do not exist
            if not (len(mrecs) == 1 and mrecs[0].startswith("err:") and p.impl[0].startswith("err:")):
                ctx.disagree("tie:protocol", p.desc, out[:200], str(p.impl)[:200], "record count differs")
            continue
        for i, (mr, ir, meta) in enumerate(zip(mrecs, p.impl, p.meta)):
            hk = f"{meta['op']}:{meta['kind']}:{meta['mode']}:{meta['what']}"
            ctx.kinds["call:" + hk] = ctx.kinds.get("call:" + hk, 0) + 1
            if mr == "?":
                nmiss += 1
            if isinstance(ir, str) and ir.startswith("err:") and mr.startswith("err:") and ir != mr:
                errclass[f"{mr}|{ir}"] = errclass.get(f"{mr}|{ir}", 0) + 1
            why = compare(mr, ir)
            if why:
                key = fail_by_rec.get(i) or f"tie:{meta['op']}:{meta['kind']}:{meta['mode']}:{meta['what']}"
                ctx.disagree(key, {**p.desc, "calls": p.tokens, "record": i}, mr, ir if isinstance(ir, str) else ir[1], why)
                break   # later records depend on this one
    return errclass, nmiss


def run(ctx):
    cuqi = import_cuqi()
    MARGIN.update({"comparisons": 0, "max_passing_deviation": 0.0, "min_failing_deviation": None})
    thorough = ctx.tier == "thorough"
    nprog = 1000 * (ctx.scale if thorough else 1)
    ctx.trusted += ["leaf oracle: log-density of each original factor computed from a fresh fully specified cuqi distribution (Family(values).logpdf)",
                    "numpy (stacking of vectors)"]
    ctx.assumptions += ["every distribution is given an explicit name (no stack-based name inference); the Posterior created by the reduction has no name until one is set",
                        "a variable is not called like a mutable variable of its OWN distribution, nor like 'args'/'kwargs'/'_main_parameter'; a hyper-parameter called like a mutable variable of a child enters that child through exactly that variable (callable argument or None attribute; other collisions: attribute stream, known finding attr:collision-other)",
                        "geometries of prior and forward model are consistent (default geometries)",
                        "float log-densities compared with the model's exact sum at rel+abs 1e-12 (largest error observed on the unchanged tree: 4e-16)"]
    errclass, nmiss = run_programs(ctx, cuqi, range(nprog), thorough)
    ctx.extra_cov["error_class_differences(model|impl)"] = errclass
    ctx.extra_cov["model_leaf_outside_table"] = nmiss
    # attribute-level stream (Model/C01_attrs.lean): one distribution, its mutable variables, conditioning / evaluation programs
    from harness.props.c01_attrs import run_attr_programs
    run_attr_programs(ctx, cuqi, 400 * (ctx.scale if thorough else 1))
    mp = MARGIN["max_passing_deviation"]
    ctx.extra_cov["value_margin"] = {"tolerance(rel+abs)": TOL, **MARGIN,
                                     "margin_factor(tolerance/max_passing_deviation)": (TOL / mp) if mp > 0 else "inf",
                                     "note": "deviation = |impl - expected| / (1 + max(|impl|, |expected|)); failing deviations belong to known findings / seeded defects and are far above the tolerance"}


def replay(ctx, payload):
    """re-run the program of a replay file on the current tree and print what the oracle says"""
    cuqi = import_cuqi()
    case = payload.get("failure", payload.get("disagreement", {})).get("case", {})
    k = case.get("program")
    if k is None:
        print("replay: no program index in", payload.get("key")); return 2
    ctx.seed = payload.get("seed", ctx.seed)
    p = Program(cuqi, random.Random(f"C01-{ctx.seed}-{k}"), payload.get("tier") == "thorough", k)
    p.run()
    print(json.dumps({"graph": p.desc, "calls": p.tokens, "impl": [r if isinstance(r, str) else r[1] for r in p.impl]}, indent=1, default=str))
    for f in p.fails:
        print("ORACLE-FAIL", f[0], f[2], f[3], f[4])
    return 1 if p.fails else 0
