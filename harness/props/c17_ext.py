"""C17 — session-3 extension streams (helper module of harness/props/c17.py).

* instance_histories: histories over SEVERAL problem instances built from the same options: what one instance hands out
  (exactSolution / exactData / data / Miscellaneous PSF) is modified in place; every other instance and every instance
  built later must be unaffected (each shipped test problem is self-contained: exactData = model(exactSolution) and the
  exact solution is the stated phantom, whatever happened to other instances before).
"""
import numpy as np
from harness.core import quiet


def _mrg(ctx, name, a, b, tol):
    """record the largest observed deviation relative to the tolerance of a floating-point comparison (scale-free, like vrel)"""
    try:
        a, b = np.asarray(a, dtype=float).ravel(), np.asarray(b, dtype=float).ravel()
        if a.shape != b.shape or a.size == 0 or not (np.all(np.isfinite(a)) and np.all(np.isfinite(b))):
            return
        sc = max(float(np.max(np.abs(a))), float(np.max(np.abs(b))))
        dev = 0.0 if sc == 0 else float(np.max(np.abs(a - b))) / sc
        m = ctx.extra_cov.setdefault("margins_dev_over_tol", {})
        m[name] = max(m.get(name, 0.0), dev / tol)
    except Exception:
        pass


def _same(a, b):
    a, b = np.asarray(a), np.asarray(b)
    if a.shape != b.shape:
        return False
    if a.dtype.kind == "f" or b.dtype.kind == "f":
        return bool(np.array_equal(np.isnan(a), np.isnan(b)) and np.array_equal(np.nan_to_num(a), np.nan_to_num(b)))
    return bool(np.array_equal(a, b))


def _handed_out(tp):
    out = {}
    for a in ("exactSolution", "exactData", "data"):
        v = getattr(tp, a, None)
        if v is not None and isinstance(v, np.ndarray):
            out[a] = v
    misc = getattr(tp, "Miscellaneous", None)
    if isinstance(misc, dict) and isinstance(misc.get("PSF"), np.ndarray):
        out["Miscellaneous.PSF"] = misc["PSF"]
    return out


def _instance_history(ctx, H, name, desc, build, is_par):
    d = {**desc, "check": "instance-history"}
    ctx.case("instance-history", d)
    with quiet():
        A, B = build(), build()
    ref = {k: np.array(v, copy=True) for k, v in _handed_out(B).items()}
    refA = _handed_out(A)
    for k in ref:
        if k in refA and not _same(refA[k], ref[k]):
            ctx.fail(f"{name}:history:instances:construction-not-reproducible:{k}", d, "identical problems from identical options and random stream", "differ",
                     "two problems built from the same options under the same scripted stream differ")
            return
    kw = {} if is_par else {"is_par": False}

    def consistent(tag):
        """B is untouched and still internally consistent"""
        now = _handed_out(B)
        for k2, v0 in ref.items():
            if not _same(now[k2], v0):
                ctx.fail(f"{name}:history:instances:{tag}:changes-other-instance:{k2}", {**d, "modified": tag, "changed": k2},
                         [float(x) for x in np.asarray(v0, dtype=float).ravel()[:6]], [float(x) for x in np.asarray(now[k2], dtype=float).ravel()[:6]],
                         f"modifying {tag} of one problem instance in place changed {k2} of ANOTHER instance built from the same options (shared buffer)")
                return False
        if "exactSolution" in now and "exactData" in now:
            with quiet():
                try:
                    yf = H.A1(B.model.forward(B.exactSolution, **kw))
                except Exception:
                    yf = None
            if yf is not None and np.all(np.isfinite(yf)) and not H.vrel(H.A1(B.exactData), yf, 1e-10):
                ctx.fail(f"{name}:history:instances:{tag}:exactData-not-forward-of-exactSolution", {**d, "modified": tag}, list(yf[:6]), list(H.A1(B.exactData)[:6]),
                         "after another instance was modified, exactData of this instance is no longer model.forward(exactSolution)")
                return False
        return True

    ok = True
    for attr, arr in list(_handed_out(A).items()):
        try:
            v = np.asarray(arr)
            if v.dtype.kind != "f":
                continue
            v *= 3.0                       # in place, as a user rescaling the ground truth of problem A
            v += 1.0
        except (ValueError, TypeError) as e:        # read-only buffer: nothing can leak
            ctx.note(f"{name}: {attr} of an instance is not writable in place ({repr(e)[:60]})")
            continue
        ctx.extra_cov.setdefault("instance_history_modified", {}).setdefault(attr, 0)
        ctx.extra_cov["instance_history_modified"][attr] += 1
        if not consistent("A." + attr):
            ok = False
            break
    # a problem built AFTERWARDS from the same options is the documented one (the same as before the modifications)
    with quiet():
        C = build()
    nowC = _handed_out(C)
    for k2, v0 in ref.items():
        if k2 not in nowC or not _same(nowC[k2], v0):
            ctx.fail(f"{name}:history:instances:later-instance-differs:{k2}", {**d, "differs": k2},
                     [float(x) for x in np.asarray(v0, dtype=float).ravel()[:6]],
                     [float(x) for x in np.asarray(nowC.get(k2, np.zeros(0)), dtype=float).ravel()[:6]],
                     f"a problem built after another instance was modified in place has a different {k2} than the same options gave before (state leaks between instances)")
            ok = False
            break
    return ok


def instance_histories(ctx, cuqi, T):
    import harness.props.c17 as H
    from cuqi.testproblem import Deconvolution1D, Deconvolution2D, Heat1D, Poisson1D, Abel1D, WangCubic
    from cuqi.geometry import Continuous1D, StepExpansion

    def b(cls, seed, **kw):
        def build():
            with H.scripted(seed):
                return cls(**{k: (v.copy() if isinstance(v, np.ndarray) else (v() if callable(v) and k in ("field_type",) else v)) for k, v in kw.items()})
        return build

    builds = []
    for k, ph in enumerate(H.PHANTOMS):
        par = None if ph in ("bumps", "pc", "skyscraper") else (None, 4, 6)[k % 3]
        builds.append(("Deconvolution1D", {"dim": 16, "phantom": ph, "phantom_param": par, "BC": H.BC1[k % 5]},
                       b(Deconvolution1D, 71 + k, dim=16, PSF=np.array([1.0, 2.0, 4.0]), BC=H.BC1[k % 5], phantom=ph, phantom_param=par, noise_std=0.25), True))
    builds.append(("Deconvolution1D", {"dim": 16, "phantom": "Square", "named PSF": "Moffat"},
                   b(Deconvolution1D, 81, dim=16, PSF="Moffat", PSF_param=2.0, PSF_size=5, phantom="Square", noise_std=0.25), True))
    builds.append(("Deconvolution1D", {"dim": 16, "legacy": True, "phantom": "sinc"}, b(Deconvolution1D, 82, dim=16, use_legacy=True, phantom="sinc", noise_std=0.25), True))
    builds.append(("Deconvolution1D", {"dim": 12, "legacy": True, "phantom": "square", "PSF": "vonMises"},
                   b(Deconvolution1D, 83, dim=12, use_legacy=True, PSF="vonMises", phantom="square", phantom_param=4, noise_std=0.25), True))
    builds.append(("Deconvolution1D", {"dim": 6, "phantom": "ndarray"}, b(Deconvolution1D, 84, dim=6, PSF=np.array([1.0, 2.0, 1.0]), phantom=np.array([1.0, 3, 0, -2, 5, 1]), noise_std=0.25), True))
    builds.append(("Deconvolution2D", {"dim": 4, "phantom": "cookie", "PSF": "Gauss", "PSF_size": 3}, b(Deconvolution2D, 85, dim=4, PSF="Gauss", PSF_size=3, phantom="cookie", noise_std=0.25), True))
    builds.append(("Deconvolution2D", {"dim": 4, "phantom": "satellite", "PSF": "Defocus", "PSF_size": 5, "PSF_param": 2},
                   b(Deconvolution2D, 86, dim=4, PSF="Defocus", PSF_size=5, PSF_param=2, phantom="satellite", BC="zero", noise_std=0.25), True))
    builds.append(("Poisson1D", {"dim": 6}, b(Poisson1D, 87, dim=6, SNR=50), False))
    builds.append(("Poisson1D", {"dim": 7, "field": "Step"}, b(Poisson1D, 88, dim=7, field_type="Step", field_params={"n_steps": 3}, SNR=50), False))
    builds.append(("Heat1D", {"dim": 5}, b(Heat1D, 89, dim=5, max_time=0.05, SNR=50), False))
    builds.append(("Heat1D", {"dim": 6, "field": "Step"}, b(Heat1D, 90, dim=6, max_time=0.05, field_type="Step", field_params={"n_steps": 2}, SNR=50), False))
    builds.append(("Abel1D", {"dim": 5}, b(Abel1D, 91, dim=5, SNR=50), False))
    builds.append(("WangCubic", {"data": "array([2.])"}, b(WangCubic, 92, data=np.array([2.0]), noise_std=0.5), True))
    for name, desc, build, is_par in builds:
        try:
            _instance_history(ctx, H, name, {"problem": name, **desc}, build, is_par)
        except Exception as e:
            import traceback
            if "/cuqi/" not in traceback.format_exc():
                raise
            ctx.fail(f"{name}:history:instances:crash", {"problem": name, **desc}, "the instance history runs", repr(e)[:160], "building / modifying problem instances raised")


# ----------------------------------------------------------------------------- named PSF builders inside the model
def _gtab(p, nmax):
    import math
    return [math.exp(-0.5 * (n / (float(p) ** 2))) for n in range(nmax + 1)]


def _ambiguous_radius(p):
    """Defocus: `aa > PSF_param**2` compares integers with the float square; when the exact square of the float radius is
    within rounding of an integer without being one (sqrt(2), sqrt(5)), float rounding decides — not sent to the exact model"""
    from fractions import Fraction
    e = Fraction(float(p)) ** 2
    return e.denominator != 1 and abs(e - round(e)) < Fraction(1, 10 ** 9)


def psf_streams(ctx, cuqi, T, B):
    """tie of Model/C17_psf.lean: named PSFs (Gauss via the exp leaf, Moffat and Defocus exactly) through the option glue
    (PSF_size None -> dim, PSF_param None -> 10, names after lower()), 1-D and 2-D, direct builders and end-to-end
    (stored Deconvolution1D matrix, Deconvolution2D.Miscellaneous['PSF'])."""
    import harness.props.c17 as H
    from harness.core import q, qv
    from cuqi.testproblem import Deconvolution1D, Deconvolution2D
    rng = ctx.rng
    thorough = ctx.tier == "thorough"
    cov = ctx.extra_cov.setdefault("psf_model", {})

    def bump(k):
        cov[k] = cov.get(k, 0) + 1

    # ---------------- 1-D
    cases1 = []
    for nm in ("Gauss", "moffat", "Defocus"):
        for (dim, size, par) in ((7, None, None), (8, None, 2.0), (9, 5, 1.0), (10, 4, 1.5), (6, 1, 2.0), (6, 2, 0.75), (5, 9, 3.0), (12, 7, 2.5), (6, 3, 1e6), (11, 6, 1.0)):
            cases1.append((dim, nm, par, size))
    cases1 += [(6, "gauss", 1e-3, 3), (6, "MOFFAT", 0.5, 5), (8, "defocus", 0, 3), (8, "Defocus", 0.0, None), (6, "defocus", 0.5, 1), (6, "defocus", 0.5, 3), (6, "defocus", 0.99, 2),
               (8, "defocus", 1, 7), (8, "defocus", 2, 7), (9, "defocus", 3, None), (8, "defocus", 4, 6), (8, "defocus", 2 ** 0.5, 7), (8, "defocus", 5 ** 0.5, 9), (7, "defocus", 100.0, 5),
               (6, "gaussian", 1.0, 3), (6, "defocused", 1.0, 3), (6, "", 1.0, 3)]
    for _ in range(40 * (5 if thorough else 1)):
        dim = rng.choice([5, 6, 7, 8, 9, 10, 12] + ([16, 24, 33] if thorough else []))
        cases1.append((dim, rng.choice(["gauss", "Gauss", "moffat", "Moffat", "defocus", "Defocus", "DEFOCUS"]), rng.choice([None, 1, 1.0, 2, 2.5, 0.75, 3.0, 0.5, 4, 1.25]),
                       rng.choice([None, None, 1, 2, 3, 4, 5, 6, 7, 9, dim + 1])))
    lines, jobs = [], []
    for (dim, nm, par, size) in cases1:
        s_eff = dim if size is None else size
        p_eff = 10 if par is None else par
        low = nm.lower()
        desc = {"problem": "Deconvolution1D", "dim": dim, "PSF": nm, "PSF_param": par, "PSF_size": size}
        if low == "defocus" and _ambiguous_radius(p_eff):
            bump("1d:defocus:rounding-decides(skipped)")
            continue
        gt = qv(_gtab(p_eff, (s_eff // 2 + 1) ** 2)) if low == "gauss" else "_"
        ptok = "none" if par is None else q(par)
        stok = "none" if size is None else str(size)
        bc = H.BC1[(dim + s_eff) % 5]
        # direct builder (private helper; skipped with a note if it is not callable this way)
        direct = None
        fn = {"gauss": getattr(T, "_GaussPSF_1D", None), "moffat": getattr(T, "_MoffatPSF_1D", None), "defocus": getattr(T, "_DefocusPSF_1D", None)}.get(low)
        if fn is not None:
            with quiet():
                try:
                    P_, c_ = fn(s_eff, par)
                    direct = ("ok", np.asarray(P_, dtype=float), int(c_))
                except TypeError as e:
                    direct = None
                except Exception as e:
                    direct = ("raises", type(e).__name__)
        # end to end
        ph = np.array([float((3 * i) % 7 - 2) for i in range(dim)])
        with quiet():
            try:
                with H.scripted(900 + dim):
                    tp = Deconvolution1D(dim=dim, PSF=nm, PSF_param=par, PSF_size=size, BC=bc, phantom=ph, noise_std=0.25)
                e2e = ("ok", H.dense(tp.model.get_matrix()))
            except Exception as e:
                e2e = ("raises", type(e).__name__)
        lines += [f"psf1 {dim} {nm or '_'} {ptok} {stok} {gt}", f"dc1n {bc} {dim} {nm or '_'} {ptok} {stok} {gt}"]
        jobs.append((desc, low, s_eff, p_eff, direct, e2e, bc))
    B.add(lines, lambda outs, jobs=jobs: [_psf1_job(ctx, H, bump, outs[2 * k], outs[2 * k + 1], *job) for k, job in enumerate(jobs)])
    _psf_2d(ctx, cuqi, T, B, H, bump, rng, thorough)


def _psf1_job(ctx, H, bump, o_psf, o_mat, desc, low, s_eff, p_eff, direct, e2e, bc):
    if True:
        ctx.case("psf1d-model", desc)
        kname = low if low in ("gauss", "moffat", "defocus") else "unknown"
        key = f"tie:Deconvolution1D:PSF:{kname}"
        bump(f"1d:{kname}:" + o_psf.split("=")[0].split(":")[0])

        def doc_ref():
            if low in ("gauss", "moffat"):
                return H.doc_psf(low, s_eff, p_eff, 1)
            return H.doc_defocus(s_eff, p_eff, 1, s_eff // 2 - 1)       # at the centre the code uses (off-centre: known finding)

        def oracle(what, Pimpl):
            ref = doc_ref()
            if Pimpl is None or ref is None or Pimpl.shape != ref.shape or not np.allclose(Pimpl, ref, rtol=1e-12, atol=1e-15, equal_nan=True):
                ctx.fail(key + what, desc, None if ref is None else [float(v) for v in ref[:7]], None if Pimpl is None else [float(v) for v in Pimpl[:7]],
                         "named PSF is not the documented profile (normalised, centred on entry size//2)")
        # --- builder
        if direct is not None:
            if o_psf.startswith("raises:"):
                if direct[0] != "raises":
                    ctx.disagree(key + ":builder", desc, o_psf, "returned an array", "model: the builder raises")
                    oracle(":builder", direct[1])
                elif direct[1] != o_psf.split(":", 1)[1]:
                    ctx.note(f"PSF builder raises {direct[1]}, model {o_psf} at {desc}")
            elif direct[0] == "raises":
                ctx.disagree(key + ":builder", desc, o_psf[:80], "raises " + direct[1], "the builder raised where the model returns a PSF")
                if not (low == "defocus" and p_eff == 0):
                    ctx.fail(key + ":builder", desc, "a PSF array", "raises " + direct[1], "the PSF builder raises for a documented option combination")
            elif o_psf == "nan":
                if not np.all(np.isnan(direct[1])):
                    ctx.disagree(key + ":builder", desc, "nan (empty support: 0/0)", [float(v) for v in direct[1][:7]])
                    oracle(":builder", direct[1])
            elif o_psf.startswith("P="):
                r = H.kv(o_psf)
                Pm = H.fvec(r["P"])
                _mrg(ctx, "psf1-builder(1e-12)", direct[1], Pm, 1e-12)
                if direct[1].shape != Pm.shape or not H.vrel(direct[1], Pm, 1e-12) or np.any(np.isnan(direct[1])):
                    ctx.disagree(key + ":builder", desc, r["P"][:120], [float(v) for v in direct[1][:7]], "PSF array")
                    oracle(":builder", direct[1])
                elif int(r["c"]) != direct[2]:
                    ctx.disagree(key + ":builder:center", desc, int(r["c"]), direct[2], "reported centre")
                    if low != "defocus" and direct[2] != s_eff // 2:
                        ctx.fail(key + ":builder:center", desc, s_eff // 2, direct[2], "the reported PSF centre is not the entry size//2 on which the convolution centres the kernel")
            else:
                ctx.note(f"driver refused psf1 line at {desc}: {o_psf[:60]}")
        # --- stored matrix through the constructor (option glue + assembly)
        if o_mat.startswith("raises:") or o_mat == "err":
            if e2e[0] != "raises":
                ctx.disagree(key + ":matrix", desc, o_mat, "constructed", "model: the constructor raises")
                ctx.fail(key + ":matrix", desc, "a refusal (undocumented PSF name / PSF_param = 0)", "constructed", "the constructor accepts an option the documentation does not list")
        elif o_mat == "nan":
            if e2e[0] == "ok" and not np.all(np.isnan(e2e[1])):
                ctx.disagree(key + ":matrix", desc, "nan", str(e2e[1].tolist())[:120])
                oracle(":matrix", direct[1] if direct and direct[0] == "ok" else None)
        elif o_mat.startswith("asm="):
            if e2e[0] == "raises":
                ctx.disagree(key + ":matrix", desc, o_mat[:80], "raises " + e2e[1])
                ctx.fail(key + ":matrix", desc, "a constructed problem", "raises " + e2e[1], "the constructor raises for a documented named PSF")
            else:
                Am = H.fmat(H.kv(o_mat)["asm"], desc["dim"])
                _mrg(ctx, "named-psf-matrix(1e-12)", e2e[1], Am, 1e-12)
                if not H.meq(e2e[1], Am, 1e-12):
                    ctx.disagree(key + ":matrix", desc, o_mat[:160], str(e2e[1].tolist())[:160], "stored matrix for a named PSF")
                    # oracle: the stored matrix is assembled from the documented PSF by scipy called directly (rows = conv(e_i): known transposition)
                    from scipy.ndimage import convolve1d as _c1
                    mode = {"zero": "constant", "periodic": "wrap", "mirror": "mirror", "reflect": "reflect", "nearest": "nearest"}[bc]
                    ref = doc_ref()
                    Aref = None if ref is None else np.array([_c1(e, ref, mode=mode) for e in np.eye(desc["dim"])])
                    if Aref is None or not (H.meq(e2e[1], Aref, 1e-11) or H.meq(e2e[1], Aref.T, 1e-11)):
                        ctx.fail(key + ":matrix", desc, None if Aref is None else str(Aref.tolist())[:160], str(e2e[1].tolist())[:160],
                                 "forward model is not the convolution with the documented named PSF (stated PSF_param / PSF_size / default)")
        else:
            ctx.note(f"driver refused dc1n line at {desc}: {o_mat[:60]}")



def _psf_2d(ctx, cuqi, T, B, H, bump, rng, thorough):
    from harness.core import q, qv
    from cuqi.testproblem import Deconvolution2D
    cases2 = []
    for nm in ("Gauss", "moffat", "Defocus"):
        for (size, par) in ((3, 2.56), (5, 1.0), (4, 1.0), (1, 2.0), (7, 2.0), (2, 0.75), (6, 1.5)):
            cases2.append((nm, par, size))
    cases2 += [("defocus", 0, 3), ("defocus", 1, 7), ("defocus", 2, 7), ("defocus", 3, 9), ("defocus", 2, 6), ("defocus", 0.5, 1), ("defocus", 0.5, 3), ("defocus", 2 ** 0.5, 5),
               ("defocus", 5 ** 0.5, 9), ("Defocus", 2.56, 21), ("gaussian", 1.0, 3)]
    if thorough:            # the constructor's default PSF_size = 21 (the exact model normalises every entry separately: O(size^4))
        cases2 += [("Gauss", 2.56, 21), ("moffat", 2.56, 21)]
    for _ in range(15 * (4 if thorough else 1)):
        cases2.append((rng.choice(["gauss", "Moffat", "defocus", "Defocus"]), rng.choice([1, 1.0, 2, 2.5, 0.75, 3.0, 1.25, 2.56]), rng.choice([1, 2, 3, 4, 5, 6, 7])))
    lines, jobs = [], []
    for (nm, par, size) in cases2:
        low = nm.lower()
        desc = {"problem": "Deconvolution2D", "dim": 3, "PSF": nm, "PSF_param": par, "PSF_size": size}
        if low == "defocus" and _ambiguous_radius(par):
            bump("2d:defocus:rounding-decides(skipped)")
            continue
        gt = qv(_gtab(par, 2 * (size // 2 + 1) ** 2)) if low == "gauss" else "_"
        with quiet():
            try:
                with H.scripted(950 + size):
                    tp = Deconvolution2D(dim=3, PSF=nm, PSF_param=par, PSF_size=size, BC=H.BC2[size % 5], phantom=np.arange(1.0, 10).reshape(3, 3), noise_std=0.25)
                e2e = ("ok", np.asarray(tp.Miscellaneous["PSF"], dtype=float))
            except Exception as e:
                e2e = ("raises", type(e).__name__)
        cdir = None
        fn = {"gauss": getattr(T, "_GaussPSF", None), "moffat": getattr(T, "_MoffatPSF", None), "defocus": getattr(T, "_DefocusPSF", None)}.get(low)
        if fn is not None and e2e[0] == "ok":
            with quiet():
                try:
                    r_ = fn(np.array([size, size]), par, 1) if low == "moffat" else fn(np.array([size, size]), par)
                    cdir = tuple(int(v) for v in r_[1])
                except Exception:
                    cdir = None
        lines.append(f"psf2 {nm} {q(par)} {size} {gt}")
        jobs.append((desc, low, size, par, e2e, cdir))
    B.add(lines, lambda outs, jobs=jobs: [_psf2_job(ctx, H, bump, o, *job) for job, o in zip(jobs, outs)])
    _doc_defocus(ctx, B, H)


def _psf2_job(ctx, H, bump, o, desc, low, size, par, e2e, cdir):
    if True:
        ctx.case("psf2d-model", desc)
        kname = low if low in ("gauss", "moffat", "defocus") else "unknown"
        key = f"tie:Deconvolution2D:PSF:{kname}"
        bump(f"2d:{kname}:" + o.split("=")[0].split(":")[0])

        def oracle2(Pimpl):
            ref = H.doc_psf(low, size, par, 2) if low in ("gauss", "moffat") else H.doc_defocus(size, par, 2, size // 2 - 1)
            if Pimpl is None or ref is None or Pimpl.shape != ref.shape or not np.allclose(Pimpl, ref, rtol=1e-12, atol=1e-15, equal_nan=True):
                ctx.fail(key + ":builder", desc, None if ref is None else str(ref.tolist())[:160], None if Pimpl is None else str(Pimpl.tolist())[:160],
                         "named 2-D PSF is not the documented profile (normalised, centred on pixel (size//2, size//2))")
        if o.startswith("raises:"):
            if e2e[0] != "raises":
                ctx.disagree(key + ":builder", desc, o, "constructed", "model: the constructor raises")
                ctx.fail(key + ":builder", desc, "a refusal (undocumented PSF name / PSF_param = 0)", "constructed", "the constructor accepts an option the documentation does not list")
            elif e2e[1] != o.split(":", 1)[1]:
                ctx.note(f"Deconvolution2D raises {e2e[1]}, model {o} at {desc}")
        elif e2e[0] == "raises":
            ctx.disagree(key + ":builder", desc, o[:80], "raises " + e2e[1])
            ctx.fail(key + ":builder", desc, "a constructed problem", "raises " + e2e[1], "the constructor raises for a documented named PSF")
        elif o == "nan":
            if not np.all(np.isnan(e2e[1])):
                ctx.disagree(key + ":builder", desc, "nan (empty support: 0/0)", str(e2e[1].tolist())[:120])
                oracle2(e2e[1])
        elif o.startswith("P="):
            r = H.kv(o)
            Pm = H.fmat(r["P"], size)
            _mrg(ctx, "psf2-builder(1e-12)", e2e[1], Pm, 1e-12)
            if e2e[1].shape != Pm.shape or np.any(np.isnan(e2e[1])) or not H.vrel(e2e[1].ravel(), Pm.ravel(), 1e-12):
                ctx.disagree(key + ":builder", desc, r["P"][:160], str(e2e[1].tolist())[:160], "Miscellaneous['PSF']")
                oracle2(e2e[1])
            elif cdir is not None and tuple(int(v) for v in r["c"].split(",")) != cdir:
                ctx.disagree(key + ":builder:center", desc, r["c"], list(cdir), "reported centre")
                if low != "defocus" and cdir != (size // 2, size // 2):
                    ctx.fail(key + ":builder:center", desc, [size // 2, size // 2], list(cdir), "the reported PSF centre is not the pixel (size//2, size//2) on which the convolution centres the kernel")
        else:
            ctx.note(f"driver refused psf2 line at {desc}: {o[:60]}")



def _doc_defocus(ctx, B, H):
    """the model's DOCUMENTED disc (theorems are about it) = the harness's documented disc (the oracle uses it)"""
    from harness.core import q
    lines, jobs = [], []
    for size in (1, 2, 3, 4, 5, 6, 7, 9):
        for R in (0.5, 1, 1.5, 2, 2.5, 3, 4, 5):
            lines += [f"docdef1 {size} {q(R)}", f"docdef2 {size} {q(R)}"]
            jobs.append((size, R))
    B.add(lines, lambda outs, jobs=jobs: _doc_defocus_cb(ctx, H, outs, jobs))


def _doc_defocus_cb(ctx, H, outs, jobs):
    for k, (size, R) in enumerate(jobs):
        ctx.case("doc-defocus", {"size": size, "R": R}, nontrivial=False)
        for nd, o in ((1, outs[2 * k]), (2, outs[2 * k + 1])):
            ref = H.doc_defocus(size, R, nd, size // 2)
            got = None if o == "nan" else (H.fvec(H.kv(o)["P"]) if nd == 1 else H.fmat(H.kv(o)["P"], size))
            if ref is not None and got is not None:
                _mrg(ctx, "doc-defocus(1e-13)", ref, got, 1e-13)
            if (ref is None) != (got is None) or (ref is not None and not np.allclose(ref, got, rtol=1e-13, atol=0)):
                ctx.disagree(f"tie:doc-defocus:{nd}d", {"size": size, "R": R}, o[:120], None if ref is None else str(ref.tolist())[:120], "the two transcriptions of the documented disc differ")


# ----------------------------------------------------------------------------- stated phantoms (no longer leaves of the implementation)
EXACT_PHANTOMS = ("square", "hat", "pc", "skyscraper")
PIECEWISE_DIMS = (21, 64, 101, 201)       # fine meshes: every plateau of 'pc' / 'skyscraper' is resolved (thresholds to 0.005)
_PC_THR = ["0", "1/10", "3/20", "1/5", "1/4", "3/10", "3/5"]
_PC_VALS = [0.0, 2.0, 3.0, 2.0, 0.0, 1.0, 0.0]
_SKY_THR = ["0", "1/10", "3/20", "1/5", "1/4", "7/20", "19/50", "9/20", "11/20", "3/4", "4/5"]
_SKY_VALS = [0.0, 1.5, 0.0, 1.3, 0.0, 0.75, 0.0, 0.25, 0.0, 1.0, 0.0]


class StatedPhantoms:
    """The phantom a (dim, name, phantom_param) option states, independent of `_getExactSolution`:
    'square', 'hat', 'pc', 'skyscraper' are computed by the Lean model (Model/C17_phantom.lean, exact; one driver run up
    front for the whole table of sizes), the transcendental ones ('gauss', 'sinc', 'vonMises', 'bumps', 'derivGauss') are
    written here from the documented formulas.  get() -> ("ok", array, amb) | ("nan",) | ("raises", cls) | None (unknown name);
    amb: {index: admissible values} where a mesh node coincides exactly with a threshold of a piecewise phantom (the
    floating-point linspace may put the node on either side)."""

    def __init__(self, ctx, dims, params=(None, 3, 4, 6, 15, 2.5)):
        self.ctx, self.tab = ctx, {}
        self.prefetch([(nm, d, p) for d in dims for nm in EXACT_PHANTOMS for p in (params if nm in ("square", "hat") else (None,))]
                      + [(nm, d, None) for d in PIECEWISE_DIMS for nm in ("pc", "skyscraper")] + [(nm, d, p) for d in (64, 101) for nm in ("square", "hat") for p in (None, 4)])

    @staticmethod
    def _safe_param(dim, p):
        """dim/phantom_param is rounded half-to-even after a FLOAT division: exact model only where the quotient is a
        half-integer exactly or clearly not"""
        from fractions import Fraction
        if p is None:
            return True
        try:
            if float(p) == 0:
                return True            # refused (< 3) before the division
            e = Fraction(dim) / Fraction(float(p))
        except Exception:
            return False
        d = abs(2 * e - round(2 * e))
        return d == 0 or d > Fraction(1, 10 ** 6)

    def prefetch(self, combos):
        from harness.core import q
        combos = [c for c in combos if c not in self.tab]
        if not combos:
            return
        outs = self.ctx.lean.drive([f"phantom {nm} {d} {'none' if p is None else q(p)}" for (nm, d, p) in combos])
        for c, o in zip(combos, outs):
            self.tab[c] = o

    def _amb(self, name, dim):
        from fractions import Fraction
        thr, vals = (_PC_THR, _PC_VALS) if name == "pc" else (_SKY_THR, _SKY_VALS)
        amb = {}
        if dim >= 2:
            for i in range(dim):
                x = Fraction(i, dim - 1)
                for k, t in enumerate(thr):
                    if k > 0 and x == Fraction(t):
                        amb[i] = (vals[k - 1], vals[k])
        return amb

    def get(self, dim, name, param):
        import harness.props.c17 as H
        low = name.lower()
        if low in EXACT_PHANTOMS:
            p = param if low in ("square", "hat") else None
            if not self._safe_param(dim, p):
                return None
            key = (low, dim, p)
            if key not in self.tab:
                self.prefetch([key])
            o = self.tab[key]
            if o == "nan":
                return ("nan",)
            if o.startswith("raises:"):
                return ("raises", o.split(":", 1)[1])
            if o.startswith("x="):
                x = np.zeros(0) if o == "x=_" else H.fvec(o[2:])
                return ("ok", x, self._amb(low, dim) if low in ("pc", "skyscraper") else {})
            raise RuntimeError(f"phantom driver line refused: {key} -> {o}")
        with np.errstate(all="ignore"):
            if low == "gauss":
                return ("ok", np.exp(-((5 if param is None else param) * np.linspace(-1, 1, dim)) ** 2), {})
            if low == "sinc":
                return ("ok", np.sinc((5 if param is None else param) * np.linspace(-1, 1, dim)), {})
            if low == "vonmises":
                x = np.exp(np.cos(np.pi * np.linspace(-1, 1, dim)))
                return ("ok", (x / np.max(x)) ** (5 if param is None else param), {})
            if low == "bumps":
                h = np.pi / dim
                g = np.linspace(0.5, dim - 0.5, dim)
                return ("ok", 1 * np.exp(-12 * (-np.pi / 2 + g * h - 0.8) ** 2) + 0.5 * np.exp(-5 * (-np.pi / 2 + g * h + 0.5) ** 2), {})
            if low == "derivgauss":
                x = np.diff(np.exp(-((5 if param is None else param) * np.linspace(-1, 1, dim + 1)) ** 2))
                return ("ok", x / np.max(x), {})
        return None


def phantom_stream(ctx, cuqi, stated):
    """every named phantom x sizes 1..13, 16 x phantom_param (default, 3, 4, 6, 2.5 (< 3: refused), 15): exactSolution of the
    constructed problem is the STATED phantom (model for square/hat/pc/skyscraper, documented formula otherwise);
    refusals (param < 3, 'hat' slices that cannot be filled) and 0/0 phantoms agree with the model"""
    import harness.props.c17 as H
    from cuqi.testproblem import Deconvolution1D
    rng = ctx.rng
    names = ["gauss", "sinc", "vonMises", "square", "hat", "bumps", "derivGauss", "pc", "skyscraper", "Square", "HAT", "PC"]
    dims = list(range(1, 14)) + [16] + ([24, 32, 33] if ctx.tier == "thorough" else [])
    for nm in names:
        low = nm.lower()
        pars = (None,) if low in ("bumps", "pc", "skyscraper") else ((None, 3, 4, 6, 2.5, 15) if low in ("square", "hat") else (None, 4, 2.5))
        for dim in dims + (list(PIECEWISE_DIMS) if low in ("pc", "skyscraper") else ([64, 101] if low in ("square", "hat") else [])):
            for par in (pars if dim <= 33 else ((None,) if low in ("pc", "skyscraper") else (None, 4))):
                if low not in ("square", "hat", "pc", "skyscraper") and (dim + len(nm)) % 3 and par is not None:
                    continue        # thin out the transcendental ones
                desc = {"problem": "Deconvolution1D", "dim": dim, "phantom": nm, "phantom_param": par, "check": "stated-phantom"}
                st = stated.get(dim, nm, par)
                legacy = (dim % 2 == 0 and (dim + len(nm)) % 4 == 0)
                kw = dict(dim=dim, phantom=nm, phantom_param=par, noise_std=0.25)
                if legacy:
                    kw["use_legacy"] = True
                else:
                    kw["PSF"] = np.array([1.0, 2.0, 1.0])
                with quiet():
                    try:
                        with H.scripted(700 + dim):
                            tp = Deconvolution1D(**kw)
                        got = ("ok", H.A1(tp.exactSolution).copy(), H.A1(tp.exactData).copy(), H.A1(tp.model.forward(tp.exactSolution)).copy())
                    except Exception as e:
                        got = ("raises", type(e).__name__, str(e)[:80])
                ctx.case("stated-phantom", desc)
                exact = low in EXACT_PHANTOMS
                key = f"Deconvolution1D:exactSolution:phantom:{low}"
                tkey = f"tie:Deconvolution1D:phantom:{low}"
                kind = "none" if st is None else st[0]
                ctx.extra_cov.setdefault("phantom_stream", {}).setdefault(f"{low}:{kind}", 0)
                ctx.extra_cov["phantom_stream"][f"{low}:{kind}"] += 1
                if st is None:
                    continue
                if st[0] == "raises":
                    if got[0] != "raises":
                        ctx.disagree(tkey, desc, "raises " + st[1], list(got[1][:8]), "model: _getExactSolution raises for this option")
                        ctx.fail(tkey, desc, "a refusal (phantom_param < 3 / slices of the hat cannot be filled)", list(got[1][:8]), "the constructor accepts a phantom option the code documents as refused")
                    continue
                if got[0] == "raises":
                    if "infs or NaNs" in got[2] and st[0] == "nan":
                        continue                                     # a 0/0 phantom propagates into the data: refusal downstream
                    ctx.disagree(tkey, desc, st[0], f"raises {got[1]}: {got[2]}", "the constructor raised where the stated phantom exists")
                    ctx.fail(tkey, desc, "a constructed problem with the stated phantom", f"raises {got[1]}: {got[2]}", "the constructor raises for a documented phantom option")
                    continue
                xs = got[1]
                if st[0] == "nan":
                    if not np.any(np.isnan(xs)):
                        ctx.disagree(tkey, desc, "0/0 inside the phantom", list(xs[:8]))
                        ctx.fail(tkey, desc, "the phantom of the pinned formula", list(xs[:8]), "exactSolution is not the stated phantom")
                    continue
                ref = np.array(st[1], dtype=float)
                for i_, alts in st[2].items():
                    if i_ < xs.size and any(abs(xs[i_] - a_) <= 1e-15 for a_ in alts):
                        ref[i_] = xs[i_]
                _mrg(ctx, "stated-phantom(1e-12)", xs, ref, 1e-12)
                if xs.shape != ref.shape or not H.vrel(xs, ref, 1e-12):
                    if exact:
                        ctx.disagree(tkey, desc, list(ref[:10]), list(xs[:10]), "exactSolution vs the model's phantom")
                        ctx.fail(tkey, desc, list(ref[:10]), list(xs[:10]), "exactSolution is not the stated phantom")
                    ctx.fail(key, desc, list(ref[:10]), list(xs[:10]), "exactSolution is not the stated (documented) phantom")
                elif np.all(np.isfinite(got[3])) and not H.vrel(got[2], got[3], 1e-12):
                    ctx.fail("Deconvolution1D:exactData", desc, list(got[3][:8]), list(got[2][:8]), "exactData is not model.forward(exactSolution)")


# ----------------------------------------------------------------------------- grids of the PDE / quadrature problems (Model/C17_grids.lean)
def grid_stream(ctx, cuqi, B):
    """the np.linspace grids of Poisson1D / Heat1D / Abel1D as the problem hands them out (pde.grid_sol, geometry grids,
    time_steps, the grid on which a recording `source` callable is evaluated) vs the model's exact expressions"""
    import harness.props.c17 as H
    from harness.core import q
    from fractions import Fraction
    from cuqi.testproblem import Poisson1D, Heat1D, Abel1D
    rng = ctx.rng
    lines, jobs = [], []

    def grid_of(g):
        return None if g is None or getattr(g, "grid", None) is None else H.A1(g.grid)

    pois = [(2, 1), (3, 1), (5, 2.0), (6, 0.5), (8, 1), (12, 2.0), (9, 0.75)] + [(rng.choice([4, 5, 7, 10, 16]), rng.choice([1, 2.0, 0.5, 1.5, 3])) for _ in range(6)]
    for dim, ep in pois:
        rec = []
        def src(xs, rec=rec):
            rec.append(np.array(xs, dtype=float))
            return 1.0 + 0 * xs
        with quiet():
            try:
                with H.scripted(600 + dim):
                    tp = Poisson1D(dim=dim, endpoint=ep, source=src, SNR=50, exactSolution=np.ones(dim))
            except Exception as e:
                ctx.note(f"Poisson1D(dim={dim}, endpoint={ep}) raised in the grid stream: {repr(e)[:80]}")
                continue
        impl = {"src": rec[0] if rec else None, "sol": H.A1(tp.model.pde.grid_sol), "dom": grid_of(tp.model.domain_geometry), "rng": grid_of(tp.model.range_geometry)}
        lines.append(f"grids poisson {dim} {q(ep)}")
        jobs.append(("Poisson1D", {"problem": "Poisson1D", "dim": dim, "endpoint": ep}, impl, ep))
    heat = [(1, 1, 0.2), (3, 1, 0.1), (4, 0.5, 0.05), (6, 2.0, 0.2), (5, 1, 0), (8, 1, 0.01)] + [(rng.choice([3, 4, 5, 7]), rng.choice([1, 2.0, 0.5]), rng.choice([0.2, 0.05, 0.03])) for _ in range(5)]
    for dim, ep, mt in heat:
        with quiet():
            try:
                with H.scripted(620 + dim):
                    tp = Heat1D(dim=dim, endpoint=ep, max_time=mt, SNR=50, exactSolution=np.ones(dim))
            except Exception as e:
                ctx.note(f"Heat1D(dim={dim}, endpoint={ep}, max_time={mt}) raised in the grid stream: {repr(e)[:80]}")
                continue
        rex = Fraction(mt) / (Fraction(5, 11) * (Fraction(ep) / (dim + 1)) ** 2)
        near_int = abs(rex - round(rex)) < Fraction(1, 10 ** 9)
        impl = {"x": H.A1(tp.model.pde.grid_sol), "dom": grid_of(tp.model.domain_geometry), "rng": grid_of(tp.model.range_geometry),
                "t": None if near_int else H.A1(tp.model.pde.time_steps)}
        lines.append(f"grids heat {dim} {q(ep)} {q(mt)}")
        jobs.append(("Heat1D", {"problem": "Heat1D", "dim": dim, "endpoint": ep, "max_time": mt}, impl, ep))
    for n, ep in [(1, 1), (2, 2.0), (4, 1), (5, 0.5), (8, 1), (7, 3)]:
        with quiet():
            try:
                with H.scripted(640 + n):
                    tp = Abel1D(dim=n, endpoint=ep, SNR=50)
            except Exception as e:
                ctx.note(f"Abel1D(dim={n}, endpoint={ep}) raised in the grid stream: {repr(e)[:80]}")
                continue
        impl = {"geom": grid_of(tp.model.domain_geometry), "rng": grid_of(tp.model.range_geometry), "xs": H.A1(tp.exactSolution)}
        lines.append(f"grids abel {n} {q(ep)}")
        jobs.append(("Abel1D", {"problem": "Abel1D", "dim": n, "endpoint": ep}, impl, ep))

    def cb(outs):
        for (name, desc, impl, ep), o in zip(jobs, outs):
            ctx.case("grids", desc)
            if not ("=" in o):
                ctx.note(f"driver refused grids line at {desc}: {o}")
                continue
            r = H.kv(o)
            pairs = []
            if name == "Poisson1D":
                pairs = [("source-grid", impl["src"], "src"), ("grid_sol", impl["sol"], "sol"), ("domain-grid", impl["dom"], "dom"), ("range-grid", impl["rng"], "sol")]
            elif name == "Heat1D":
                pairs = [("grid_sol", impl["x"], "x"), ("domain-grid", impl["dom"], "x"), ("range-grid", impl["rng"], "x"), ("time_steps", impl["t"], "t")]
            else:
                pairs = [("domain-grid", impl["geom"], "geom"), ("range-grid", impl["rng"], "geom")]
            for what, got, mk in pairs:
                if got is None:
                    continue
                want = H.fvec(r[mk])
                _mrg(ctx, "grids(1e-13)", got, want, 1e-13)
                if got.shape != want.shape or not H.vrel(got, want, 1e-13):
                    key = f"tie:{name}:grid:{what}"
                    ctx.disagree(key, desc, r[mk][:160], [float(v) for v in got[:8]], f"{what} vs the constructor's linspace expression in exact arithmetic")
                    hi = float(ep) * (1 + 1.0 / max(len(got), 1)) + 1e-12
                    bad = got.size and (np.any(np.diff(got) <= 0) or got.min() < -1e-12 or got.max() > hi)
                    if got.shape != want.shape or bad:
                        ctx.fail(key, desc, [float(v) for v in want[:8]], [float(v) for v in got[:8]], f"{what} is not an increasing grid of the stated size inside [0, endpoint]")
            if name == "Abel1D":
                t = H.fvec(r["t"])
                ref = np.sin(t * np.pi) * np.exp(-2 * t)
                _mrg(ctx, "abel-exactSolution-nodes(1e-12)", impl["xs"], ref, 1e-12)
                if impl["xs"].shape != ref.shape or not H.vrel(impl["xs"], ref, 1e-12):
                    ctx.disagree("tie:Abel1D:exactSolution:nodes", desc, [float(v) for v in ref[:6]], [float(v) for v in impl["xs"][:6]], "exactSolution vs sin(pi t) exp(-2t) on the model's quadrature nodes")
                    ctx.fail("tie:Abel1D:exactSolution:nodes", desc, [float(v) for v in ref[:6]], [float(v) for v in impl["xs"][:6]],
                             "the default exact solution is not sin(pi t) exp(-2t) sampled on the quadrature nodes h/2 + j h")
    B.add(lines, cb)


# ----------------------------------------------------------------------------- accessor / setter histories (Model/C17_state.lean)
def setter_histories(ctx, cuqi, B):
    """histories of `tp.prior = …`, `tp.likelihood = …`, `tp.set_data(…)` on all six problems: after every call the
    accessors and get_components() hand out the objects the state machine says (by identity), and posterior.logd is the
    log-likelihood of the CURRENT likelihood plus the log-density of the CURRENT prior"""
    import harness.props.c17 as H
    from cuqi.testproblem import Deconvolution1D, Deconvolution2D, Heat1D, Poisson1D, Abel1D, WangCubic
    from cuqi.distribution import Gaussian
    rng = ctx.rng
    builds = [("Deconvolution1D", lambda: Deconvolution1D(dim=6, PSF=np.array([1.0, 2.0, 4.0]), BC="zero", phantom=np.array([1.0, 3, 0, -2, 5, 1]), noise_std=0.25)),
              ("Deconvolution2D", lambda: Deconvolution2D(dim=3, PSF=np.array([[0.0, 1, 0], [2, 3, 1], [0, 4, 0]]), phantom=np.arange(1.0, 10).reshape(3, 3), noise_std=0.25)),
              ("Poisson1D", lambda: Poisson1D(dim=5, SNR=50)), ("Heat1D", lambda: Heat1D(dim=4, max_time=0.05, SNR=50)), ("Abel1D", lambda: Abel1D(dim=4, SNR=50)),
              ("WangCubic", lambda: WangCubic(noise_std=0.5, data=0.0))]
    lines, jobs = [], []
    for name, build in builds:
        for rep in range(2):
            with quiet():
                with H.scripted(500 + rep):
                    tp = build()
            n, m = tp.model.domain_dim, tp.model.range_dim
            geom = tp.prior.geometry
            objs = {0: tp.likelihood, 1: tp.likelihood.data, 2: tp.likelihood.model, 3: tp.prior}
            state_ids = [0, 1, 2, 3]
            nxt = 4
            ops = []
            x = np.linspace(0.3, 0.9, n)
            for step in range(rng.randint(2, 6)):
                kind = rng.choice(["P", "P", "L", "L", "D"])
                d = {"problem": name, "history": ";".join(ops + [kind]), "step": step + 1}
                try:
                    with quiet():
                        if kind == "P":
                            p = Gaussian((step + 1) * 0.5 * np.ones(n), 1.0 + step, geometry=geom, name="x")
                            objs[nxt] = p
                            tp.prior = p
                            ops.append(f"P{nxt}")
                            nxt += 1
                        elif kind == "L":
                            newdata = np.asarray(H.A1(tp.data), dtype=float) * 0.5 + (step + 1)
                            import copy as _copy
                            newmodel = _copy.copy(tp.model)            # a distinct model object (same map)
                            lik = Gaussian(newmodel, 0.5 + step, name="y").to_likelihood(newdata)
                            objs[nxt], objs[nxt + 1], objs[nxt + 2] = lik, lik.data, lik.model
                            tp.likelihood = lik
                            ops.append(f"L{nxt},{nxt + 1},{nxt + 2}")
                            nxt += 3
                        else:
                            refused = False
                            try:
                                tp.set_data(y=np.zeros(m))
                            except Exception:
                                refused = True
                            ops.append("D")
                            if not refused:
                                ctx.disagree(f"tie:{name}:setters:set_data", d, "refused (target is a Posterior)", "accepted")
                                ctx.fail(f"tie:{name}:setters:set_data", d, "set_data refused: the data of a constructed test problem are already set", "accepted",
                                         "set_data on a constructed test problem silently changed/accepted new data")
                except Exception as e:
                    ctx.note(f"{name}: setter history stopped at {d}: {repr(e)[:100]}")
                    break
                # what the problem hands out now
                with quiet():
                    try:
                        comp = tp.get_components()
                        now = {"lik": tp.likelihood, "data": tp.data, "model": tp.model, "prior": tp.prior, "comp0": comp[0], "comp1": comp[1],
                               "post.lik": tp.posterior.likelihood, "post.prior": tp.posterior.prior}
                    except Exception as e:
                        ctx.note(f"{name}: accessors raised at {d}: {repr(e)[:100]}")
                        break
                    try:
                        lp = float(np.asarray(tp.posterior.logd(x)).ravel()[0])
                        ll = float(np.asarray(tp.likelihood.logd(x)).ravel()[0]) + float(np.asarray(tp.prior.logd(x)).ravel()[0])
                    except Exception:
                        lp = ll = None
                lines.append(f"hist 0,1,2,3 {';'.join(ops)}")
                jobs.append((name, d, now, dict(objs), lp, ll))
    def cb(outs):
        for (name, d, now, objs, lp, ll), o in zip(jobs, outs):
            ctx.case("setter-history", d)
            r = H.kv(o)
            want = {"lik": int(r["lik"]), "data": int(r["data"]), "model": int(r["model"]), "prior": int(r["prior"]),
                    "comp0": int(r["comp"].split(",")[0]), "comp1": int(r["comp"].split(",")[1]), "post.lik": int(r["lik"]), "post.prior": int(r["prior"])}
            for k, oid in want.items():
                same = now[k] is objs[oid]
                if not same and k in ("data", "comp1"):        # data: canonicalised values decide (every likelihood of a history has its own data values)
                    try:
                        same = bool(np.array_equal(np.asarray(now[k], dtype=float), np.asarray(objs[oid], dtype=float)))
                    except Exception:
                        same = False
                if not same:
                    key = f"{name}:setters:{k}"
                    ctx.disagree("tie:" + key, d, f"object #{oid}", type(now[k]).__name__, f"{k} after the history is not the object the state machine gives")
                    ctx.fail("tie:" + key, d, f"the object assigned last (#{oid})", "another object",
                             f"after the call history, {k} handed out by the problem is not the likelihood's / the last assigned object: model, data, likelihood, prior no longer refer to the same objects")
            if lp is not None and ll is not None:
                _mrg(ctx, "setter-logd(1e-9)", [lp], [ll], 1e-9)
            if lp is not None and ll is not None and np.isfinite(lp) and np.isfinite(ll) and not H.close(lp, ll, 1e-9):
                ctx.fail(f"{name}:setters:posterior.logd", d, ll, lp, "posterior.logd is not the current likelihood's log-likelihood plus the current prior's log-density")
    B.add(lines, cb)


# ----------------------------------------------------------------------------- which option combinations Deconvolution1D accepts (Model/C17_options.lean)
def option_stream(ctx, cuqi, B, stated):
    """random option records for Deconvolution1D (both forms) with zero, one or several undocumented / ill-shaped options at
    once: the constructor raises iff the model's decision function says so (tie; the exception class is only noted)"""
    import harness.props.c17 as H
    from cuqi.testproblem import Deconvolution1D
    rng = ctx.rng
    lines, jobs = [], []
    n_cases = 120 * (4 if ctx.tier == "thorough" else 1)
    for _ in range(n_cases):
        dim = rng.choice([5, 6, 7, 8])
        legacy = rng.random() < 0.4
        faulty = rng.random() < 0.6
        def pick(good, bad, p_bad=0.3):
            return rng.choice(bad) if (faulty and rng.random() < p_bad) else rng.choice(good)
        bc = pick(["periodic"] * 3 + (["zero", "Mirror", "REFLECT", "nearest", "Periodic"] if not legacy else []), ["dirichlet", "Periodic" if legacy else "neumann", "periodic ", ""], 0.25)
        size = pick([None, None, 3, 5] if not legacy else [None], [4] if legacy else [None], 0.2)
        psf_kind = pick(["A1", "S", "A1", "S"], ["A2", "A0", "O", "Sbad", "Alen"], 0.3)
        pz = False
        if psf_kind == "A1":
            ln = dim if legacy else rng.choice([1, 3, 4, dim])
            psf_tok, psf = f"A1,{ln}", np.arange(1.0, ln + 1)
        elif psf_kind == "Alen":
            ln = dim + 1 if legacy else 3
            psf_tok, psf = f"A1,{ln}", np.arange(1.0, ln + 1)
        elif psf_kind == "A2":
            psf_tok, psf = f"A2,{dim}", np.ones((dim, 2))
        elif psf_kind == "A0":
            psf_tok, psf = "A0,0", np.array(1.0)
        elif psf_kind == "O":
            psf_tok, psf = "O", rng.choice([3.5, [1.0, 2.0, 1.0], None])
            if psf is None and not legacy:
                psf = 2.0
        else:
            names = (["gauss", "Gauss", "sinc", "prolate", "vonMises"] if legacy else ["gauss", "Moffat", "defocus", "DEFOCUS"]) if psf_kind == "S" else ["gaussian", "moffat" if legacy else "sinc", "box", ""]
            nm = rng.choice(names)
            psf_tok, psf = "S" + nm, nm
            pz = (nm.lower() == "defocus" and rng.random() < 0.3)
        ph_kind = pick(["A1", "S", "S"], ["A2", "Alen", "O", "Sbad"], 0.3)
        refused = False
        if ph_kind == "A1":
            ph_tok, ph = f"A1,{dim}", np.arange(1.0, dim + 1)
        elif ph_kind == "Alen":
            ph_tok, ph = f"A1,{dim - 1}", np.arange(1.0, dim)
        elif ph_kind == "A2":
            ph_tok, ph = f"A2,{dim}", np.ones((dim, 1))
        elif ph_kind == "O":
            ph_tok, ph = "O", rng.choice([[1.0] * dim, 2.0])
        else:
            nm = rng.choice(["gauss", "Sinc", "vonMises", "square", "bumps", "derivGauss", "pc", "skyscraper"] if ph_kind == "S" else ["gaussian", "sin", "box", ""])
            ph_tok, ph = "S" + nm, nm
        ppar = None
        if isinstance(ph, str) and ph.lower() == "square" and rng.random() < 0.4:
            ppar = 2.5
        if isinstance(ph, str):
            st = stated.get(dim, ph, ppar)
            if st is not None and st[0] == "nan":
                continue                       # a 0/0 phantom: data-dependent refusal downstream, outside the decision function
            refused = st is not None and st[0] == "raises"
        noise = pick(["gaussian", "Gaussian", "scaledGaussian"], ["poisson", "gauss", ""], 0.25)
        if any(t == "" for t in (bc, noise)) or psf_tok == "S" or ph_tok == "S":
            continue                           # empty strings cannot travel on the line protocol
        kw = dict(dim=dim, PSF=psf, PSF_param=(0 if pz else None), PSF_size=size, BC=bc, phantom=ph, phantom_param=ppar, noise_type=noise, noise_std=0.25, use_legacy=legacy)
        with quiet():
            try:
                with H.scripted(400 + dim):
                    Deconvolution1D(**kw)
                got = None
            except Exception as e:
                got = f"{type(e).__name__}: {str(e)[:80]}"
        if got is not None and ("infs or NaNs" in got):
            continue                           # data-dependent (zero variance of the scaled noise): known finding, not an option refusal
        desc = {"problem": "Deconvolution1D", "dim": dim, "use_legacy": legacy, "BC": bc, "PSF_size": size, "PSF": psf_tok, "PSF_param==0": pz, "phantom": ph_tok,
                "phantom_param": ppar, "noise_type": noise}
        lines.append(f"d1opts {dim} {int(legacy)} {bc.replace(' ', '_')} {'none' if size is None else size} {psf_tok} {int(pz)} {ph_tok} {int(refused)} {noise}")
        jobs.append((desc, got))

    def cb(outs):
        for (desc, got), o in zip(jobs, outs):
            ctx.case("option-decision", desc)
            k = "accept" if o == "ok" else o
            ctx.extra_cov.setdefault("option_decision", {}).setdefault(k, 0)
            ctx.extra_cov["option_decision"][k] += 1
            key = "tie:Deconvolution1D:options:" + ("legacy" if desc["use_legacy"] else "convolve1d")
            if o == "ok" and got is not None:
                ctx.disagree(key, desc, "constructed", got, "the constructor raised for an option record the decision function accepts")
                ctx.fail(key, desc, "a constructed problem (every option is a documented one)", got, "the constructor refuses a documented option combination")
            elif o.startswith("raises:") and got is None:
                if desc["PSF_param==0"] and o == "raises:IndexError":
                    continue                   # upstream fix of the Defocus delta branch (known finding) would land here
                ctx.disagree(key, desc, o, "constructed", "the constructor accepted an option record the decision function refuses")
                if desc["use_legacy"] and desc["BC"] != "periodic" and desc["BC"].lower() == "periodic":
                    continue                   # only the spelling of 'periodic' (the legacy form compares literally): the tie is broken, the property is not
                ctx.fail(key, desc, "an exception (an option is not one of the documented names / shapes)", "constructed", "the constructor accepts an undocumented or ill-shaped option")
            elif o.startswith("raises:") and got is not None and not got.startswith(o.split(":", 1)[1]):
                ctx.extra_cov["option_decision"]["class-differs"] = ctx.extra_cov["option_decision"].get("class-differs", 0) + 1
                ctx.note(f"option refusal class: model {o}, code {got} at {desc}")
            elif not (o == "ok" or o.startswith("raises:")):
                ctx.note(f"driver refused d1opts line at {desc}: {o}")
    B.add(lines, cb)


# ----------------------------------------------------------------------------- caller-owned arrays mutated AFTER construction
def caller_mutation_histories(ctx, cuqi):
    """every array the caller hands to a constructor (phantom, PSF, exactSolution, data) — already of the requested size,
    to be resized, as a flattened vector, in other memory layouts — is modified IN PLACE by the caller after the problem
    was built (buffer re-use).  The problem must own what it hands out: exactSolution / exactData / data /
    Miscellaneous PSF, the forward model and posterior.logd are unchanged, and exactData = forward(exactSolution) still holds."""
    import harness.props.c17 as H
    from cuqi.testproblem import Deconvolution1D, Deconvolution2D, Heat1D, Poisson1D, WangCubic
    im3 = np.arange(1.0, 10).reshape(3, 3)
    im4 = np.array([[1.0, 2, 0, 3], [0, 1, 4, 2], [2, 2, 1, 0], [3, 0, 1, 5]])
    P2 = np.array([[0.0, 1, 0], [2, 3, 1], [0, 4, 0]])
    big = np.zeros((8, 8)); big[::2, ::2] = im4
    cases = [
        ("Deconvolution2D", "right-size image", lambda a: Deconvolution2D(dim=4, PSF=a["PSF"], phantom=a["phantom"], BC="zero", noise_std=0.25), {"phantom": im4.copy(), "PSF": P2.copy()}, True),
        ("Deconvolution2D", "right-size vector", lambda a: Deconvolution2D(dim=4, PSF=a["PSF"], phantom=a["phantom"], noise_std=0.25), {"phantom": im4.flatten(), "PSF": P2.copy()}, True),
        ("Deconvolution2D", "image to be resized (3x3 -> 4)", lambda a: Deconvolution2D(dim=4, PSF=a["PSF"], phantom=a["phantom"], noise_std=0.25), {"phantom": im3.copy(), "PSF": P2.copy()}, True),
        ("Deconvolution2D", "right-size image, Fortran order", lambda a: Deconvolution2D(dim=4, PSF=a["PSF"], phantom=a["phantom"], noise_std=0.25), {"phantom": np.asfortranarray(im4), "PSF": np.asfortranarray(P2)}, True),
        ("Deconvolution2D", "right-size image, strided view", lambda a: Deconvolution2D(dim=4, PSF=a["PSF"], phantom=a["phantom"], noise_std=0.25), {"phantom": big[::2, ::2], "PSF": P2.copy()}, True),
        ("Deconvolution2D", "named PSF, right-size image", lambda a: Deconvolution2D(dim=4, PSF="Gauss", PSF_size=3, phantom=a["phantom"], noise_type="scaledGaussian", noise_std=0.25), {"phantom": im4.copy() + 1}, True),
        ("Deconvolution1D", "array phantom and PSF", lambda a: Deconvolution1D(dim=6, PSF=a["PSF"], phantom=a["phantom"], BC="zero", noise_std=0.25), {"phantom": np.array([1.0, 3, 0, -2, 5, 1]), "PSF": np.array([1.0, 2.0, 4.0])}, True),
        ("Deconvolution1D", "strided phantom", lambda a: Deconvolution1D(dim=6, PSF=a["PSF"], phantom=a["phantom"], noise_std=0.25), {"phantom": np.arange(12.0)[::2], "PSF": np.array([1.0, 2.0, 1.0])}, True),
        ("Deconvolution1D", "legacy, array phantom and PSF", lambda a: Deconvolution1D(dim=6, PSF=a["PSF"], phantom=a["phantom"], use_legacy=True, noise_std=0.25), {"phantom": np.array([1.0, 3, 0, -2, 5, 1]), "PSF": np.array([0.0, 0, 1, 2, 1, 0])}, True),
        ("Poisson1D", "custom exactSolution", lambda a: Poisson1D(dim=5, SNR=50, exactSolution=a["exactSolution"]), {"exactSolution": np.array([1.0, 2, 1, 3, 2])}, False),
        ("Heat1D", "custom exactSolution", lambda a: Heat1D(dim=5, max_time=0.02, SNR=50, exactSolution=a["exactSolution"]), {"exactSolution": np.array([0.0, 1, 0, 2, 1])}, False),
        ("WangCubic", "data array", lambda a: WangCubic(noise_std=0.5, data=a["data"]), {"data": np.array([2.0])}, True),
    ]
    order = ["exactSolution", "exactData", "data", "Miscellaneous.PSF", "forward", "posterior.logd"]
    for name, variant, build, args, is_par in cases:
        desc = {"problem": name, "variant": variant, "check": "caller-mutation"}
        ctx.case("caller-mutation", desc)
        try:
            with quiet():
                with H.scripted(300 + len(variant)):
                    tp = build(args)
                n = tp.model.domain_dim
                x = np.linspace(0.3, 0.9, n)
                def snap():
                    s = {k: np.array(v, copy=True) for k, v in _handed_out(tp).items()}
                    s["forward"] = H.A1(tp.model.forward(x.copy())).copy()
                    try:
                        s["posterior.logd"] = np.array([float(np.asarray(tp.posterior.logd(x.copy())).ravel()[0])])
                    except Exception:
                        pass
                    return s
                s0 = snap()
            kw = {} if is_par else {"is_par": False}
            for arg, arr in args.items():
                if not arr.flags.writeable:
                    continue
                arr *= 2.0                      # the caller re-uses his buffer
                arr += 1.0
                ctx.extra_cov.setdefault("caller_mutation", {}).setdefault(f"{name}:{arg}", 0)
                ctx.extra_cov["caller_mutation"][f"{name}:{arg}"] += 1
                with quiet():
                    s1 = snap()
                changed = [k for k in order if k in s0 and (k not in s1 or s0[k].shape != s1[k].shape or not np.allclose(s0[k], s1[k], rtol=1e-12, atol=0, equal_nan=True))]
                if changed:
                    d = {**desc, "caller array modified in place": arg, "changed": changed}
                    ctx.fail(f"{name}:caller-mutation:{arg}:changes:{changed[0]}", d, [float(v) for v in s0[changed[0]].ravel()[:6]], [float(v) for v in s1[changed[0]].ravel()[:6]],
                             f"after the caller modified his own {arg} array in place, {', '.join(changed)} of the constructed problem changed (the problem keeps a view of / reference to the caller's buffer)")
                    if "exactSolution" in s1 and "exactData" in s1:
                        with quiet():
                            yf = H.A1(tp.model.forward(tp.exactSolution, **kw))
                        if np.all(np.isfinite(yf)) and not H.vrel(H.A1(tp.exactData), yf, 1e-10):
                            ctx.fail(f"{name}:caller-mutation:{arg}:exactData-not-forward-of-exactSolution", d, list(yf[:6]), list(H.A1(tp.exactData)[:6]),
                                     "exactData is no longer model.forward(exactSolution) after the caller modified his own array")
                    s0 = s1
        except Exception as e:
            import traceback
            if "/cuqi/" not in traceback.format_exc():
                raise
            ctx.fail(f"{name}:caller-mutation:crash", desc, "the history runs", repr(e)[:160], "building the problem / modifying the caller's arrays raised")


def option2d_stream(ctx, cuqi, B):
    """random option records for Deconvolution2D with zero, one or several undocumented / ill-shaped options at once:
    the constructor raises iff `deconv2dRefusal` says so (tie; the exception class is only noted)"""
    import harness.props.c17 as H
    from cuqi.testproblem import Deconvolution2D
    rng = ctx.rng
    lines, jobs = [], []
    library = {"astronaut", "camera", "cat", "cookie", "grains", "p_power", "satellite", "shepp_logan", "threephases"}     # documented phantom library
    for _ in range(60 * (3 if ctx.tier == "thorough" else 1)):
        faulty = rng.random() < 0.6
        def pick(good, bad, p_bad=0.3):
            return rng.choice(bad) if (faulty and rng.random() < p_bad) else rng.choice(good)
        bc = pick(["periodic", "zero", "Neumann", "MIRROR", "nearest"], ["reflect", "dirichlet", "symmetric", "wrap"], 0.25)
        psf_kind = pick(["Q", "S"], ["N", "O", "Sbad"], 0.3)
        pz = False
        if psf_kind == "Q":
            psf_tok, psf = "Q", np.array([[0.0, 1, 0], [2, 3, 1], [0, 4, 0]])[:rng.choice([2, 3]), :][:, :0 or None]
            psf = psf[:min(psf.shape), :min(psf.shape)].copy()
        elif psf_kind == "N":
            psf_tok, psf = "N", np.ones((2, 3))
        elif psf_kind == "O":
            psf_tok, psf = "O", rng.choice([2.0, [[1.0]]])
        else:
            nm = rng.choice(["gauss", "Moffat", "defocus", "DEFOCUS"] if psf_kind == "S" else ["gaussian", "box", "sinc"])
            psf_tok, psf = "S" + nm, nm
            pz = nm.lower() == "defocus" and rng.random() < 0.3
        ph_kind = pick(["I2", "V", "S", "I2r"], ["I3", "Vbad", "O", "Sbad"], 0.3)
        if ph_kind == "I2":
            ph_tok, ph = "I2", np.arange(1.0, 17).reshape(4, 4)
        elif ph_kind == "I2r":
            ph_tok, ph = "I2", np.arange(1.0, 10).reshape(3, 3)
        elif ph_kind == "I3":
            ph_tok, ph = "I3", np.ones((2, 2, 2))
        elif ph_kind == "V":
            ln = rng.choice([9, 16, 4])
            ph_tok, ph = f"V{ln}", np.arange(1.0, ln + 1)
        elif ph_kind == "Vbad":
            ln = rng.choice([8, 15, 12])
            ph_tok, ph = f"V{ln}", np.arange(1.0, ln + 1)
        elif ph_kind == "O":
            ph_tok, ph = "O", rng.choice([[[1.0, 2], [3, 4]], 2.0])
        else:
            nm = rng.choice(["cookie", "Satellite", "camera", "shepp-logan"] if ph_kind == "S" else ["cookies", "phantom", "sat"])
            ph_tok, ph = f"S{int(nm.lower().replace('-', '_') in library)}{nm}", nm
        noise = pick(["gaussian", "Gaussian", "scaledGaussian"], ["poisson", "gauss"], 0.25)
        kw = dict(dim=4, PSF=psf, PSF_size=3, BC=bc, phantom=ph, noise_type=noise, noise_std=0.25)
        if pz:
            kw["PSF_param"] = 0
        with quiet():
            try:
                with H.scripted(450):
                    Deconvolution2D(**kw)
                got = None
            except Exception as e:
                got = f"{type(e).__name__}: {str(e)[:80]}"
        if got is not None and "infs or NaNs" in got:
            continue
        desc = {"problem": "Deconvolution2D", "dim": 4, "BC": bc, "PSF": psf_tok, "PSF_param==0": pz, "phantom": ph_tok, "noise_type": noise}
        lines.append(f"d2opts {bc} {psf_tok} {int(pz)} {ph_tok} {noise}")
        jobs.append((desc, got))

    def cb(outs):
        for (desc, got), o in zip(jobs, outs):
            ctx.case("option-decision-2d", desc)
            k = "accept" if o == "ok" else o
            ctx.extra_cov.setdefault("option_decision_2d", {}).setdefault(k, 0)
            ctx.extra_cov["option_decision_2d"][k] += 1
            key = "tie:Deconvolution2D:options"
            if o == "ok" and got is not None:
                ctx.disagree(key, desc, "constructed", got, "the constructor raised for an option record the decision function accepts")
                ctx.fail(key, desc, "a constructed problem (every option is a documented one)", got, "the constructor refuses a documented option combination")
            elif o.startswith("raises:") and got is None:
                if desc["PSF_param==0"] and o == "raises:IndexError":
                    continue
                ctx.disagree(key, desc, o, "constructed", "the constructor accepted an option record the decision function refuses")
                ctx.fail(key, desc, "an exception (an option is not one of the documented names / shapes)", "constructed", "the constructor accepts an undocumented or ill-shaped option")
            elif o.startswith("raises:") and got is not None and not got.startswith(o.split(":", 1)[1]):
                ctx.extra_cov["option_decision_2d"]["class-differs"] = ctx.extra_cov["option_decision_2d"].get("class-differs", 0) + 1
                ctx.note(f"2-D option refusal class: model {o}, code {got} at {desc}")
            elif not (o == "ok" or o.startswith("raises:")):
                ctx.note(f"driver refused d2opts line at {desc}: {o}")
    B.add(lines, cb)
