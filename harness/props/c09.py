"""C09 — Gibbs sweeps draw each block from its conditional given the current other blocks.

Correspondence: every scenario (joint target, assignment of samplers, per-block step counts, a
sequence of warmup/sample calls) is run on the real `HybridGibbs` / legacy `Gibbs` with recording
proxies around the block samplers; the recorded transitions (point after each `step`, moved or
not) are the leaf data fed to the Lean model (`lean/Driver/C09.lean`), whose event trace — which
block, the conditioning dictionary of the target it was handed, the point it started from, what
its cached target evaluation belongs to, every transition, every stored tuple — is compared with
the trace observed on the implementation.

Oracle (implementation only, every scenario): the harness keeps its own book of the most recent
block values and checks the clauses of the property directly: the handed target evaluates like
the full joint at (most recent others, probe); the first transition of a block starts from the
block's current value; the number of transitions is the configured one; blocks are visited in
parameter order; the stored tuple is the post-sweep tuple; a later call continues from the last
stored values; a cached target evaluation a sampler starts from is that of the handed target at
the current point.

Further tie streams (session 3), each against its own model file: `tg` — par_names and the class / densities / free variables
of every object handed to a block sampler (Model/C09_target.lean on top of C01's JointDistribution model; all recorded runs and a
zoo of random model graphs); `W<tune_freq>!<Nb>` calls — every tuning call of every warm-up (Model/C09_tune.lean); `ls` — legacy
strategy parsing and the KeyError of a block without sampler (Model/C09_strategy.lean); `sh` — type / shape of the stored objects
and the assembly by get_samples() (Model/C09_shape.lean); `ar` — every legacy block's sample array replayed operation by
operation (Model/C09_array.lean).
"""
import math, contextlib
import numpy as np
from harness.core import import_cuqi, quiet, q, qv, close, vclose

CACHE_ATTRS = ("current_target_logd", "current_likelihood_logd")

# largest observed deviation / allowed deviation of every tolerance-based comparison that PASSED (1.0 = at the tolerance);
# written to the evidence as `c09_margins` so that a comparison passing with little margin is visible
MARGIN = {}


def margin(name, dev, allowed):
    if allowed > 0 and math.isfinite(dev):
        r = dev / allowed
        m = MARGIN.setdefault(name, {"max_ratio": 0.0, "n": 0})
        m["n"] += 1
        if r <= 1.0 and r > m["max_ratio"]:
            m["max_ratio"] = r


def close_m(name, a, b, tol):
    """`close` of harness.core, recording the margin of passing comparisons"""
    ok = close(a, b, tol)
    try:
        a_, b_ = float(a), float(b)
        if ok and math.isfinite(a_) and math.isfinite(b_):
            margin(name, abs(a_ - b_), tol * (1.0 + max(abs(a_), abs(b_))))
    except Exception:
        pass
    return ok


# ----------------------------------------------------------------------------- formatting
def vec(v):
    return np.asarray(v, dtype=float).reshape(-1)


def fdict(names, d):
    items = [f"{n}={qv(vec(d[n]))}" for n in names if n in d]
    return "&".join(items) if items else "_"


def pdict(s):
    """parse `a=1,2&b=3` into {name: [floats]}"""
    out = {}
    if s == "_":
        return out
    for item in s.split("&"):
        k, v = item.split("=")
        out[k] = [float(__import__("fractions").Fraction(t)) for t in v.split(",")] if v != "_" else []
    return out


@contextlib.contextmanager
def seeded(seed):
    st = np.random.get_state()
    np.random.seed(seed % (2 ** 32))
    try:
        yield
    finally:
        np.random.set_state(st)


# ----------------------------------------------------------------------------- joint targets
class Scen:
    pass


CANON = {"H": "dlxy", "P": "dxy", "S": "sxy", "W": "dlwxy", "C": "ezdxy", "G": "abxy", "E": "abceuv"}


def make_names(rs, tmpl):
    """names of the variables: the canonical single letters, or (45 %) names that are substrings of each other
    (`x`, `x0`, `x0_noise`, `hx`, `a_x_2` ... prefix / suffix / infix, chains)"""
    import keyword
    canon = list(CANON[tmpl])
    ren = {c: c for c in canon}
    if rs.rand() >= 0.45:
        return ren, "plain"
    blocks = [c for c in canon if c != "y"]
    root = blocks[int(rs.randint(len(blocks)))]
    others = [c for c in blocks if c != root]
    rs.shuffle(others)
    prev = ren[root]
    for c in others[:int(rs.randint(1, min(3, len(others)) + 1))]:
        base = ren[root] if rs.rand() < 0.7 else prev
        suf = str(rs.choice(["0", "_noise", "2", "s"])); pre = str(rs.choice(["h", "log_", "a_"]))
        nm = [base + suf, pre + base, pre + base + suf][int(rs.randint(3))]
        if nm.isidentifier() and not keyword.iskeyword(nm) and nm not in ren.values():
            ren[c] = nm; prev = nm
    if "y" in canon and rs.rand() < 0.3:
        nm = ren[blocks[int(rs.randint(len(blocks)))]] + "_obs"
        if nm not in ren.values():
            ren["y"] = nm
    return ren, "nested"


def lam(arg, f):
    """a lambda whose single argument is called `arg` (cuqi reads the conditioning variable from the argument name)"""
    return eval(f"lambda {arg}: _f({arg})", {"_f": f})


def graph_of(J0, data_names):
    """the model graph of an unconditioned JointDistribution: (name, dim, conditioning variables) per density, in
    density order, and the names of the observed variables — the input of the driver op `tg`"""
    return ([(d.name, int(d.dim), list(d.get_conditioning_variables())) for d in J0._densities], list(data_names))


def tg_line(graph):
    fs, data = graph
    return "tg {} {}".format("|".join(f"{n}:{dim}:{'+'.join(cv) if cv else '.'}" for n, dim, cv in fs), ",".join(data) if data else ".")


def snap_attr(v):
    if isinstance(v, np.ndarray):
        return ("a", v.dtype.str, v.shape, v.tobytes())
    if isinstance(v, (list, tuple)):
        return tuple(snap_attr(t) for t in v)
    if isinstance(v, (float, np.floating)):
        return float(v)
    return v if isinstance(v, (int, str, bool, type(None))) else repr(v)


NUTS_RESET = {"_epsilon_bar": 1, "_H_bar": 0, "_acc": (1,), "_samples": (), "num_tree_node_list": (), "epsilon_list": (), "epsilon_bar_list": ()}
NOT_COMPARED = ("current_target_logd", "current_target_grad", "current_likelihood_logd")   # the cache tie (with its repair tolerance) covers these


def tv_lines(J0, datav, cur, n, probes):
    """driver lines `tv` for the value of the object handed to block n at the probe points: the leaf log-densities of the
    user's unconditioned densities are evaluated on the real code at (data, current other blocks, probe) and handed to the
    model as a table; returns (lines, magnitude) or None when a leaf is not finite / cannot be evaluated"""
    lines, mag = [], 0.0
    kw = lambda d_: "&".join(f"{k}={qv(vec(v))}" for k, v in d_.items()) if d_ else "."
    for p in probes:
        vals = {k: vec(v) for k, v in datav.items()}
        vals.update({k: vec(v) for k, v in cur.items()})
        vals[n] = vec(p)
        facs = []
        for d in J0._densities:
            cv = list(d.get_conditioning_variables())
            try:
                with quiet():
                    dd = d(**{c: vals[c] for c in cv}) if cv else d
                    lv = float(np.asarray(dd.logd(vals[d.name])).reshape(-1)[0])
            except Exception:
                return None
            if not math.isfinite(lv):
                return None
            mag += abs(lv)
            facs.append(f"{d.name};{int(d.dim)};{','.join(cv) if cv else '.'};{'&'.join(qv(vals[k]) for k in [d.name] + cv)}={q(lv)}")
        lines.append("tv {} {} {} {} {}".format(n, qv(vec(p)), kw({k: v for k, v in cur.items() if k != n}), kw(datav), " ".join(facs)))
    return lines, mag


def nt_pending(ctx, K, desc, attr_obs, stats):
    """tie of Model/C09_nuts.lean: for every observed start of a block update (sweep >= 2 of the sampler) the origin the model
    gives every state / history key (kept = value at the end of the previous sweep, tuning included; point = the block's
    current value; fresh = the known reset value; dflt = the class default) against the live attribute"""
    pend = []
    for n, cls, is_nuts, st_keys, hi_keys, now, prev, curv, step_size, dflt_depth, mu in attr_obs:
        attrs = [a for a in now if a not in NOT_COMPARED]
        line = ("nt nuts " + ",".join(attrs)) if is_nuts else "nt 0 {} {} . . {}".format(",".join(st_keys), ",".join(hi_keys), ",".join(attrs))

        def cb(out, n=n, cls=cls, is_nuts=is_nuts, st_keys=st_keys, hi_keys=hi_keys, now=now, prev=prev, curv=curv, step_size=step_size, dflt_depth=dflt_depth, mu=mu):
            def dis(a, model, impl, what):
                ctx.disagree(f"{K}:state:{cls}:{a}", dict(desc, block=n), model, str(impl)[:120], what)
            if is_nuts:
                mk, hk, out = out.split("|")
                # (a class that no longer lists `max_depth` as a state key keeps the user's value: a repair, tolerated below)
                if sorted(set(mk.split(",")) - {"max_depth"}) != sorted(set(st_keys) - {"max_depth"}) or sorted(hk.split(",")) != hi_keys:
                    dis("_STATE_KEYS", [mk, hk], [st_keys, hi_keys], "the model's table of NUTS state / history keys differs from the class"); return
            stats["state_ties"] = stats.get("state_ties", 0) + 1
            for item in out.split(","):
                a, _, org = item.partition("=")
                stats["state_origins"][org] = stats["state_origins"].get(org, 0) + 1
                v = now[a]
                if org == "prev" and v != prev.get(a):
                    dis(a, "kept from the previous sweep", "changed", "an attribute the protocol should carry over (state / history key, constructor parameter) changed between sweeps"); return
                if org == "point" and not np.array_equal(curv[1][a], curv[0]):
                    dis(a, "the block's current value", "differs", "current_point / initial_point is not the block's current value"); return
                if org == "fresh":
                    if a in NUTS_RESET and not ((v == NUTS_RESET[a]) if isinstance(NUTS_RESET[a], tuple) else (v == NUTS_RESET[a] or v == float(NUTS_RESET[a]))):
                        dis(a, f"reset to {NUTS_RESET[a]}", v, "an attribute of NUTS that reinitialize()/_pre_warmup() should reset carries something else"); return
                    if a == "_epsilon" and step_size is not None and v != snap_attr(step_size):
                        dis(a, "step_size", v, "NUTS._epsilon is not reset to the configured step_size"); return
                    if a == "_mu" and mu is not None and not close_m("nuts_mu(1e-12)", mu[0], mu[1], 1e-12):
                        dis(a, mu[0], mu[1], "NUTS._mu is not log(10 * _epsilon) of the re-found step size"); return
                if org == "dflt" and v == prev.get(a) and v != dflt_depth:
                    stats["nuts_max_depth_kept"] = stats.get("nuts_max_depth_kept", 0) + 1
                    continue
                if org == "dflt" and v != dflt_depth:
                    dis(a, f"class default {dflt_depth}", v, "a state key that initialize() does not assign is not at its class default"); return
                if org == "unset":
                    dis(a, "ValueError from _validate_initialization", v, "the model predicts the protocol cannot complete"); return
        pend.append((line, cb))
    return pend


def tv_pending(ctx, K, desc, tv_items, tol, stats, had):
    pend = []
    for lines, reals, n, mag in tv_items:
        box = []

        def cb(out, box=box, reals=reals, n=n, mag=mag, k=len(lines)):
            box.append(out)
            if len(box) == k:
                tv_compare(ctx, K, desc, box, reals, n, tol, mag, stats, had)
        pend.extend((l, cb) for l in lines)
    return pend


def tv_compare(ctx, K, desc, outs, reals, n, tol, mag, stats, had_target_failure):
    """value tie: the handed object's logd at two probe points against the model's evaluation through C01's executable
    model.  Differences between the probes are compared (what decides the conditional); an equal offset at both probes
    (a constant, C01's matter) is counted in the evidence, not reported."""
    from fractions import Fraction
    vals = []
    for o in outs:
        f = o.split("|")
        if f[0] != "ok":
            ctx.disagree(f"{K}:target:value", dict(desc, block=n), o[:80], reals, "the model cannot evaluate the handed target (leaf outside the table / error)"); return
        vals.append(float(Fraction(f[2])))
    stats["value_ties"] = stats.get("value_ties", 0) + 1
    slack = lambda a, b: tol * (1.0 + max(abs(a), abs(b))) + 1e-11 * mag
    dm, dr = vals[0] - vals[1], reals[0] - reals[1]
    margin("value_tie_difference(tol=%g)" % tol, abs(dm - dr), slack(dm, dr))
    margin("value_tie_absolute(tol=%g)" % tol, abs(vals[0] - reals[0]), slack(vals[0], reals[0]))
    if abs(dm - dr) > slack(dm, dr):
        ctx.disagree(f"{K}:target" + ("" if had_target_failure() else ":value"), dict(desc, block=n), {"logd": vals, "difference": dm}, {"logd": reals, "difference": dr},
                     "the handed object's log-density (difference between two probe points) is not the model's joint evaluation on the recorded leaf log-densities")
        return
    if abs(vals[0] - reals[0]) > slack(vals[0], reals[0]):
        stats["handed_constant_offsets"] = stats.get("handed_constant_offsets", 0) + 1


def describe(t):
    """structure of an object handed to a block sampler, in the format of the driver op `tg`"""
    from cuqi.distribution import JointDistribution, Posterior, Distribution
    from cuqi.distribution._joint_distribution import MultipleLikelihoodPosterior, _StackedJointDistribution
    from cuqi.likelihood import Likelihood
    from cuqi.density import EvaluatedDensity
    nm = lambda l: "+".join(l) if l else "."

    def dd(d):
        if isinstance(d, Likelihood):
            return f"L:{d.name}:{nm(list(d.get_parameter_names()))}"
        if isinstance(d, EvaluatedDensity):
            return f"E:{d.name}"
        if isinstance(d, Distribution):
            return f"D:{d.name}:{nm(list(d.get_conditioning_variables()))}"
        return "?:" + type(d).__name__
    try:
        if isinstance(t, MultipleLikelihoodPosterior):
            return "MultipleLikelihoodPosterior[" + ";".join(dd(d) for d in t._densities) + "]"
        if isinstance(t, _StackedJointDistribution):
            return "_StackedJointDistribution[" + ";".join(dd(d) for d in t._densities) + "]"
        if isinstance(t, JointDistribution):
            return "JointDistribution[" + ";".join(dd(d) for d in t._densities) + "]"
        if isinstance(t, Posterior):
            return f"Posterior[{dd(t.likelihood)};{dd(t.prior)}]"
        if isinstance(t, Distribution):
            return f"Distribution[{dd(t)}]"
        if isinstance(t, Likelihood):
            return f"Likelihood[{dd(t)}]"
        if isinstance(t, EvaluatedDensity):
            return f"EvaluatedDensity[{dd(t)}]"
    except Exception as e:
        return f"?raises {type(e).__name__}"
    return "?" + type(t).__name__


def kind_of(o):
    """type / shape of a python object holding a block value, in the format of the driver op `sh`"""
    if isinstance(o, np.ndarray):
        return "a" + "x".join(str(int(k)) for k in o.shape)
    if isinstance(o, list):
        return f"l{len(o)}" if all(isinstance(t, (int, float, np.integer, np.floating)) for t in o) else None
    if isinstance(o, (int, float, np.integer, np.floating, bool, np.bool_)):
        return "s"
    return None


def compare_kinds(ctx, K, desc, out, par_names, stored_kinds, gs_raised, gs_shapes, stats):
    """tie of Model/C09_shape.lean.  An implementation that stores a 1-D array where the model (faithful to the write-back
    branch) keeps the user's python scalar / list, and whose get_samples() therefore succeeds where the model predicts
    ValueError, is a repair of known finding 3: counted (`stored_more_uniform_than_model`), not reported."""
    stats["shape_ties"] = stats.get("shape_ties", 0) + 1
    st_s, _, gs_s = out.partition("|")
    m_st = [] if st_s == "_" else [row.split(",") for row in st_s.split(";")]
    i_st = [[str(d_[n]) for n in par_names] for d_ in stored_kinds]
    repaired = False
    if len(m_st) != len(i_st):
        ctx.disagree(f"{K}:stored:shape", desc, len(m_st), len(i_st), "number of stored tuples differs"); return
    for j, (mr, ir) in enumerate(zip(m_st, i_st)):
        for n, a, b in zip(par_names, mr, ir):
            if a == b:
                continue
            if (a == "s" and b == "a1") or (a.startswith("l") and b == "a" + a[1:]):
                repaired = True; continue
            ctx.disagree(f"{K}:stored:shape", desc, {"sweep": j, n: a}, {"sweep": j, n: b},
                         "type / shape of a stored object (write-back: reshape(-1) of arrays, the object itself otherwise) differs"); return
    m_gs = dict(it.split("=") for it in gs_s.split(",")) if gs_s else {}
    for v_ in m_gs.values():
        hk_ = "ValueError" if v_ == "ValueError" else "ok:" + str(v_.count("x") + 1) + "-d"
        stats["get_samples_outcomes"][hk_] = stats["get_samples_outcomes"].get(hk_, 0) + 1
    if repaired:
        stats["stored_more_uniform_than_model"] = stats.get("stored_more_uniform_than_model", 0) + 1
        if gs_raised:
            ctx.disagree(f"{K}:stored:shape", desc, m_gs, "raises", "get_samples() raises although every stored object is an array")
        return
    m_raises = any(v_ == "ValueError" for v_ in m_gs.values())
    if m_raises != gs_raised:
        ctx.disagree(f"{K}:stored:shape", desc, m_gs, "raises" if gs_raised else gs_shapes, "whether get_samples() can assemble the stored objects differs"); return
    if not gs_raised and m_gs != gs_shapes:
        ctx.disagree(f"{K}:stored:shape", desc, m_gs, gs_shapes, "shape of the arrays returned by get_samples() differs")


def compare_structure(ctx, K, desc, out, par_names, target, seen, stats, had_target_failure):
    """tie of Model/C09_target.lean: par_names, the sampler's own copy of the joint, and the object handed to every block
    (`seen`: block -> set of structures observed on the implementation) against the model's"""
    def dis(aspect, model, impl, what):
        # a structural difference that comes with a failing input of the target clause is reported under that key
        ctx.disagree(f"{K}:target" + ("" if had_target_failure else ":" + aspect), desc, model, impl, what)
    f = out.split("|")
    if f[0] != "ok" or len(f) < 3:
        dis("structure", out[:120], "constructed: " + ",".join(par_names), "the model refuses a joint target the constructor accepts"); return
    stats["structure_ties"] = stats.get("structure_ties", 0) + 1
    m_names = [] if f[1] == "." else f[1].split(",")
    if m_names != list(par_names):
        dis("par_names", m_names, list(par_names), "par_names differ (get_parameter_names of the sampler's copy of the joint)"); return
    if f[2] != describe(target):
        dis("structure", f[2], describe(target), "the sampler's own copy of the joint (self.target = target()) differs in structure"); return
    for item in f[3:]:
        n, _, d = item.partition("=")
        kind = d.split("[")[0]
        for got in seen.get(n, ()):
            stats["handed_kinds"][kind] = stats["handed_kinds"].get(kind, 0) + 1
            if got != d:
                dis("structure", {n: d}, {n: got}, "the object handed to a block sampler differs in structure (class / densities / free variables) from the model's reduction"); return
    if set(seen) - {it.partition("=")[0] for it in f[3:]}:
        dis("structure", f[3:], sorted(seen), "blocks differ")


def build_joint(cuqi, rs, tmpl):
    """returns (post, roles) — roles: name -> (role, dim); post has >= 2 free parameters"""
    from cuqi.distribution import Gaussian, Gamma, JointDistribution, GMRF
    ren, scheme = make_names(rs, tmpl)
    R = lambda c: ren[c]
    n = int(rs.randint(2, 5))
    m = int(rs.randint(2, 6))
    Am = rs.randint(-2, 3, size=(m, n)).astype(float)
    if not Am.any():
        Am[0, 0] = 1.0
    A = cuqi.model.LinearModel(Am)
    data = rs.randint(-3, 4, size=m).astype(float)
    gam = lambda c: Gamma(float(rs.choice([1.0, 2.0, 0.5, 3.0])), float(rs.choice([1.0, 0.5, 2.0])), name=R(c))
    meta = {"__ren__": ren, "__naming__": scheme}
    if tmpl == "E":       # extreme scales and tiny moves: source blocks on scale 1e-9 / near 1e9 moving by 1e-3 /
        # near 1 moving in the 7th digit, each feeding a childless block that depends on it with gain 1e9 / 1e3 / 1e6
        spec = {"a": (0.0, 1e-9, 1e9, "b"), "c": (1e9, 1e-3, 1e3, "e"), "u": (1.0, 1e-6, 1e6, "v")}
        pairs = [k for k in ("a", "c", "u") if rs.rand() < 0.7] or [str(rs.choice(["a", "c", "u"]))]
        dens, scales, locs, leafof, roles = [], {}, {}, {}, {}
        for k in pairs:
            loc, sd, gain, leaf = spec[k]
            dim = int(rs.randint(1, 3))
            dens.append(Gaussian(loc * np.ones(dim), sd ** 2, name=R(k)))
            dens.append(Gaussian(lam(R(k), (lambda v, g=gain, l=loc: g * (v - l))), 1.0, geometry=dim, name=R(leaf)))
            roles[R(k)] = ("tiny", dim); roles[R(leaf)] = ("tinyleaf", dim)
            scales[R(k)] = sd; locs[R(k)] = loc; leafof[R(k)] = R(leaf)
        roles.update(meta); roles["__scale__"] = scales; roles["__loc__"] = locs; roles["__leafof__"] = leafof
        dens = [dens[i] for i in rs.permutation(len(dens))]
        J0 = JointDistribution(*dens)
        roles["__graph__"] = graph_of(J0, [])
        roles["__joint0__"], roles["__datav__"] = J0, {}
        return J0, roles
    if tmpl == "G":       # hierarchies a -> b -> x whose consecutive members depend on each other directly
        if rs.rand() < 0.5:   # two hyper-parameters, the rate of the second is the first
            a = gam("a")
            b = Gamma(float(rs.choice([1.0, 2.0, 3.0])), lam(R("a"), lambda v: v), name=R("b"))
            x = Gaussian(np.zeros(n), lam(R("b"), lambda v: 1 / v), name=R("x"))
            roles = {R("a"): ("hyper2", 1), R("b"): ("hyper2", 1), R("x"): ("latent", n)}
            meta["__no0d__"] = {R("a"), R("b")}    # a 0-d value as the rate of a Gamma makes cuqi raise IndexError (not a Gibbs matter)
        else:                 # Gaussian chain through the means
            k = 2
            M = rs.randint(-1, 3, size=(n, k)).astype(float)
            a = Gaussian(np.zeros(k), 1.0, name=R("a"))
            b = Gaussian(lam(R("a"), lambda v: v), float(rs.choice([1.0, 0.5])), geometry=k, name=R("b"))
            x = Gaussian(lam(R("b"), lambda v: M @ v), 1.0, geometry=n, name=R("x"))
            roles = {R("a"): ("mid", k), R("b"): ("mid", k), R("x"): ("latent", n)}
        y = Gaussian(A @ x, float(rs.choice([0.5, 1.0])), name=R("y"))
        free = [[a, b, x], [b, a, x], [x, a, b], [x, b, a], [a, x, b], [b, x, a]][int(rs.randint(6))]
        roles.update(meta)
        J0 = JointDistribution(*(free + [y]))
        roles["__graph__"] = graph_of(J0, [R("y")])
        roles["__joint0__"], roles["__datav__"] = J0, {R("y"): data}
        return J0(**{R("y"): data}), roles
    if tmpl == "H":       # hyper-parameter in the prior and one in the likelihood
        d, l = gam("d"), gam("l")
        gm = rs.rand() < 0.3
        if gm:
            meta["__no0d__"] = {R("d")}     # GMRF calls len() on its precision: a 0-d / scalar value raises (not a Gibbs matter)
            x = GMRF(np.zeros(n), lam(R("d"), lambda v: v), name=R("x"))
        else:
            x = Gaussian(np.zeros(n), lam(R("d"), lambda v: 1 / v), name=R("x"))
        y = Gaussian(A @ x, lam(R("l"), lambda v: 1 / v), name=R("y"))
        dens = [d, l, x, y]
        roles = {R("d"): ("hyper", 1), R("l"): ("hyper", 1), R("x"): ("latent-gmrf" if gm else "latent", n)}
    elif tmpl == "P":     # only a prior hyper-parameter (2 blocks)
        d = gam("d")
        x = Gaussian(np.zeros(n), lam(R("d"), lambda v: 1 / v), name=R("x"))
        y = Gaussian(A @ x, float(rs.choice([0.5, 1.0, 2.0])), name=R("y"))
        dens = [d, x, y]
        roles = {R("d"): ("hyper", 1), R("x"): ("latent", n)}
    elif tmpl == "S":     # one hyper-parameter entering prior AND likelihood
        sv = gam("s")
        c = float(rs.choice([1.0, 2.0, 0.5]))
        x = Gaussian(np.zeros(n), lam(R("s"), lambda v: 1 / v), name=R("x"))
        y = Gaussian(A @ x, lam(R("s"), lambda v: c / v), name=R("y"))
        dens = [sv, x, y]
        roles = {R("s"): ("hyper2", 1), R("x"): ("latent", n)}
    elif tmpl == "W":     # an extra childless block whose conditional is a plain distribution
        d, l = gam("d"), gam("l")
        w = Gaussian(lam(R("d"), lambda v: v * np.ones(2)), float(rs.choice([1.0, 0.5])), geometry=2, name=R("w"))
        x = Gaussian(np.zeros(n), lam(R("d"), lambda v: 1 / v), name=R("x"))
        y = Gaussian(A @ x, lam(R("l"), lambda v: 1 / v), name=R("y"))
        dens = [d, l, w, x, y]
        roles = {R("d"): ("hyper2", 1), R("l"): ("hyper", 1), R("w"): ("leaf", 2), R("x"): ("latent", n)}
    else:                 # "C": chain e -> z -> x -> y, d scales x
        k = 2
        M = rs.randint(-1, 3, size=(n, k)).astype(float)
        e, d = gam("e"), gam("d")
        z = Gaussian(np.zeros(k), lam(R("e"), lambda v: 1 / v), name=R("z"))
        x = Gaussian(lam(R("z"), lambda v: M @ v), lam(R("d"), lambda v: 1 / v), geometry=n, name=R("x"))
        y = Gaussian(A @ x, float(rs.choice([0.5, 1.0])), name=R("y"))
        dens = [e, z, d, x, y]
        roles = {R("e"): ("hyper", 1), R("d"): ("hyper", 1), R("z"): ("mid", k), R("x"): ("latent", n)}
    order = list(rs.permutation(len(dens)))
    dens = [dens[i] for i in order]
    roles.update(meta)
    J0 = JointDistribution(*dens)
    roles["__graph__"] = graph_of(J0, [R("y")])
    roles["__joint0__"], roles["__datav__"] = J0, {R("y"): data}
    post = J0(**{R("y"): data})
    return post, roles


def exp_sampler(cuqi, rs, role, dim):
    """an experimental block sampler suitable for the role, with a random initial point sometimes"""
    from cuqi.experimental.mcmc import MH, CWMH, MALA, ULA, PCN, NUTS, LinearRTO, Conjugate, Direct
    ip = {}
    if rs.rand() < 0.5:
        if role in ("hyper", "hyper2"):
            ip = {"initial_point": np.array([float(rs.choice([0.5, 1.5, 2.0, 3.0]))])}
        else:
            ip = {"initial_point": rs.randint(-2, 3, size=dim).astype(float)}
    if role == "hyper":
        c = rs.choice(["Conjugate"] * 3 + ["MH"])
    elif role == "hyper2":
        c = "MH"
    elif role == "leaf":
        c = rs.choice(["Direct", "Direct", "MH", "CWMH"])
    elif role == "mid":
        c = rs.choice(["MH", "CWMH"])            # no gradient through a lambda mean
    elif role == "latent-gmrf":
        c = rs.choice(["MH", "CWMH", "MALA", "ULA", "NUTS", "LinearRTO", "LinearRTO"])
    else:
        c = rs.choice(["MH", "CWMH", "MALA", "ULA", "PCN", "NUTS", "LinearRTO", "LinearRTO"])
    if c == "Conjugate":
        return Conjugate(**ip)
    if c == "Direct":
        return Direct(**ip)
    if c == "LinearRTO":
        return LinearRTO(**ip)
    if c == "NUTS":
        return NUTS(max_depth=int(rs.randint(1, 4)), **ip)
    sc = 0.05 if role in ("hyper", "hyper2") else float(rs.choice([0.1, 0.3, 0.5]))
    if c in ("MALA", "ULA"):
        sc = float(rs.choice([0.01, 0.05]))
    return {"MH": MH, "CWMH": CWMH, "MALA": MALA, "ULA": ULA, "PCN": PCN}[c](scale=sc, **ip)


def exp_sampler_E(cuqi, rs, roles, n):
    from cuqi.experimental.mcmc import MH, Direct
    role, dim = roles[n]
    if role == "tiny":
        sd, loc = roles["__scale__"][n], roles["__loc__"][n]
        ip = loc + sd * rs.randint(-2, 3, size=dim).astype(float)
        # 100*sd: almost every proposal is rejected (the block stays identical); 0.3*sd, sd: it moves slightly
        return MH(scale=sd * float(rs.choice([0.3, 1.0, 1.0, 100.0])), initial_point=ip)
    ip = {"initial_point": rs.randint(-2, 3, size=dim).astype(float)} if rs.rand() < 0.5 else {}
    return Direct(**ip) if rs.rand() < 0.7 else MH(scale=1.0, **ip)


def legacy_factory_E(cuqi, rs, roles, n):
    import cuqi.sampler as LS
    role, dim = roles[n]
    sc = roles["__scale__"][n] * float(rs.choice([0.3, 1.0, 1.0, 100.0])) if role == "tiny" else 1.0
    return "MH", (lambda target, sc=sc: LS.MH(target, scale=sc))


def legacy_factory(cuqi, rs, role):
    import cuqi.sampler as LS
    if role == "hyper":
        c = rs.choice(["Conjugate"] * 3 + ["MH"])
    elif role == "hyper2":
        c = "MH"
    elif role == "leaf":
        c = rs.choice(["MH", "CWMH"])
    elif role == "mid":
        c = rs.choice(["MH", "CWMH"])
    elif role == "latent-gmrf":
        c = rs.choice(["MH", "CWMH", "MALA", "ULA", "LinearRTO", "LinearRTO"])
    else:
        c = rs.choice(["MH", "CWMH", "MALA", "ULA", "pCN", "LinearRTO", "LinearRTO"])
    sc = 0.05 if role in ("hyper", "hyper2") else float(rs.choice([0.1, 0.3]))
    if c in ("MALA", "ULA"):
        sc = 0.01
    if c == "Conjugate":
        return c, LS.Conjugate
    if c == "LinearRTO":
        return c, LS.LinearRTO
    cls = getattr(LS, c)
    return c, (lambda target, cls=cls, sc=sc: cls(target, scale=sc))



# ----------------------------------------------------------------------------- unusual initial-point objects
ODD_MODES = ["int", "f32", "i8", "u8", "bool", "f16", "list", "scalar", "0d", "view", "ro", "strided", "neg", "shared", "shared", "mixed"]


def odd_initial_points(rs, names, roles, classes, iface):
    """Initial points that are not fresh float64 arrays: integer / float32 dtype, python lists and scalars, 0-d
    arrays, views into a larger array, read-only arrays, ONE array object shared by all equal-size blocks.
    Returns (mode, {name: object}, snapshots) — snapshots = [(label, object, bytes-or-copy)] of everything the
    user owns (bases of views included), to be compared after the run."""
    mode = str(rs.choice(ODD_MODES))
    objs, snaps = {}, []

    def hyper(n):
        return roles[n][0] in ("hyper", "hyper2")

    def allowed(n, m):
        role, dim = roles[n]
        if role == "tiny":
            return False
        if m in ("int", "i8", "u8", "bool"):
            return True                               # (LinearRTO with integer x0 raised before fix 66630b8)
        if m == "list":
            if hyper(n):
                return False                          # the user's lambda `1/d` cannot divide by a list
            return classes[n] in ("MH", "CWMH", "ULA", "MALA", "NUTS") if iface == "hybrid" else True
        if m in ("scalar", "0d"):
            return dim == 1 and n not in roles.get("__no0d__", ())
        return True

    def base(n, integer=False):
        role, dim = roles[n]
        if hyper(n):
            return np.array([float(rs.choice([1.0, 2.0, 3.0] if integer else [0.5, 1.5, 2.0, 3.0]))])
        return rs.randint(-2, 3, size=dim).astype(float)

    def snap(label, o):
        if isinstance(o, np.ndarray):
            snaps.append((label, o, (o.dtype.str, o.shape, o.tobytes())))
        elif isinstance(o, list):
            snaps.append((label, o, list(o)))

    if mode == "shared":
        by_dim = {}
        for n in names:
            if allowed(n, "shared"):
                by_dim.setdefault(roles[n][1], []).append(n)
        for dim, grp in by_dim.items():
            if len(grp) >= 2:
                arr = 2.0 * np.ones(dim) if any(hyper(n) for n in grp) else rs.randint(1, 4, size=dim).astype(float)
                for n in grp:
                    objs[n] = arr
                snap("shared:" + ",".join(grp), arr)
        return mode, objs, snaps
    for n in names:
        m = mode if mode != "mixed" else str(rs.choice(["int", "f32", "i8", "u8", "bool", "f16", "list", "scalar", "0d", "view", "ro", "strided", "neg", None]))
        if m in (None, "None") or not allowed(n, m) or rs.rand() < 0.15:
            continue
        if m in ("i8", "u8", "bool", "f16") and n in roles.get("__no0d__", ()):
            continue
        if m == "int":
            o = base(n, True).astype(np.int64)
        elif m == "i8":
            o = base(n, True).astype(np.int8)
        elif m == "u8":
            o = np.abs(base(n, True)).astype(np.uint8)
        elif m == "bool":
            if not hyper(n):
                continue        # numpy refuses `bool - bool` (a boolean point minus a boolean mean): raised inside Gaussian.logpdf
            o = np.ones(roles[n][1], dtype=bool)
        elif m == "f16":
            o = base(n).astype(np.float16)
        elif m == "f32":
            o = base(n).astype(np.float32)
        elif m == "list":
            o = [float(t) for t in base(n)]
        elif m == "scalar":
            o = float(base(n)[0])
        elif m == "0d":
            o = np.array(float(base(n)[0]))
        elif m == "view":
            big = np.arange(10.0) + 1.0
            k = int(rs.randint(0, 5))
            big[k:k + roles[n][1]] = base(n)
            o = big[k:k + roles[n][1]]
            snap("base-of:" + n, big)
        elif m == "strided":
            big = np.arange(12.0) + 1.0
            big[0:2 * roles[n][1]:2] = base(n)
            o = big[0:2 * roles[n][1]:2]
            snap("base-of:" + n, big)
        elif m == "neg":
            big = base(n)[::-1].copy()
            o = big[::-1]
            snap("base-of:" + n, big)
        else:
            o = base(n); o.setflags(write=False)
        objs[n] = o
        snap(n, o)
    return mode, objs, snaps


def modified_user_objects(snaps):
    bad = []
    for label, o, ref in snaps:
        now = (o.dtype.str, o.shape, o.tobytes()) if isinstance(o, np.ndarray) else list(o)
        if now != ref:
            bad.append(label)
    return bad

# ----------------------------------------------------------------------------- recording
class CondRecorder:
    """records the keyword dictionaries `JointDistribution._condition` is called with"""
    def __init__(self, cuqi):
        self.cls = cuqi.distribution.JointDistribution
        self.orig = self.cls._condition
        self.map = {}

    def __enter__(self):
        rec = self

        def _condition(jself, *args, **kwargs):
            out = rec.orig(jself, *args, **kwargs)
            if not args:
                rec.map[id(out)] = (out, {k: vec(v).copy() for k, v in kwargs.items()})
            return out
        self.cls._condition = _condition
        return self

    def __exit__(self, *a):
        self.cls._condition = self.orig

    def others_of(self, target):
        r = self.map.get(id(target))
        return None if r is None or r[0] is not target else r[1]


def probes(role, point, scale=None):
    p = vec(point)
    if scale:                       # blocks living on an extreme scale: probe one natural unit away
        return [p.copy(), p + scale]
    return [p.copy(), np.abs(p) + 0.5]


def full_logd(post, others, name, x):
    kw = {k: v for k, v in others.items()}
    kw[name] = x
    with quiet():
        return float(np.asarray(post.logd(**kw)).reshape(-1)[0])


def same_conditional(target, post, others, name, point, scale=None, tol=1e-8):
    """the handed target and the full joint at (others, .) have the same log-density up to a constant:
    compared on the difference between two probe points (a constant offset does not change the conditional)"""
    p1, p2 = probes(None, point, scale)
    t1, t2 = tlogd(target, p1), tlogd(target, p2)
    f1, f2 = full_logd(post, others, name, p1), full_logd(post, others, name, p2)
    a, b = t1 - t2, f1 - f2
    if not (math.isfinite(a) and math.isfinite(b)):
        return True, a, b
    # rounding of the individual log-densities (cancellation when they are huge) is allowed for
    mag = max(abs(t1), abs(t2), abs(f1), abs(f2))
    allowed = tol * (1.0 + max(abs(a), abs(b))) + 1e-11 * mag
    margin("target_oracle(tol=%g)" % tol, abs(a - b), allowed)
    return abs(a - b) <= allowed, a, b


def tlogd(target, x):
    with quiet():
        return float(np.asarray(target.logd(x)).reshape(-1)[0])


# ----------------------------------------------------------------------------- experimental
def run_hybrid(ctx, cuqi, idx, rs, thorough, stats):
    from cuqi.experimental.mcmc import HybridGibbs, NUTS
    tmpl = ["H", "E", "P", "S", "W", "C", "G"][idx % 7] if idx < 14 else str(rs.choice(["H", "H", "P", "S", "W", "C", "E", "E", "G"]))
    with quiet():
        post, roles = build_joint(cuqi, rs, tmpl)
    names = list(post.get_parameter_names())
    scales = roles.get("__scale__", {})
    strategy = {n: (exp_sampler_E(cuqi, rs, roles, n) if tmpl == "E" else exp_sampler(cuqi, rs, *roles[n])) for n in names}
    odd_mode, user_snaps = None, []
    if rs.rand() < 0.4:
        odd_mode, objs_, user_snaps = odd_initial_points(rs, names, roles, {n: type(strategy[n]).__name__ for n in names}, "hybrid")
        for n, o in objs_.items():
            strategy[n].initial_point = o
    ftol = 2e-2 if odd_mode in ("f16", "mixed") else 1e-5 if odd_mode == "f32" else 1e-8   # float32 / float16 values conditioned on are evaluated in single precision
    # malformed strategies: one object under two names / a block without sampler / a key that is no parameter
    malformed = None
    u = rs.rand()
    hs = [n for n in names if roles[n][0] == "hyper"]
    if u < 0.04 and len(hs) == 2:
        malformed = "shared"; strategy[hs[1]] = strategy[hs[0]]
    elif u < 0.07:
        malformed = "missing"; del strategy[names[int(rs.randint(len(names)))]]
    elif u < 0.10:
        from cuqi.experimental.mcmc import MH as _MH
        malformed = "extra"; strategy["q_extra"] = _MH()
    elif u < 0.14 and len(names) >= 2:
        # a grouped (tuple) key as in the legacy interface: HybridGibbs looks samplers up by plain name only
        i = int(rs.randint(len(names) - 1))
        malformed = "tuplekey"; strategy[(names[i], names[i + 1])] = strategy.pop(names[i]); del strategy[names[i + 1]]
    shared = malformed is not None
    r = rs.rand()
    if r < 0.3:
        nss = None
    else:
        nss = {n: int(rs.choice([0, 1, 1, 2, 3, 1, 2, -1] if rs.rand() < 0.15 else [1, 1, 2, 3])) for n in names if rs.rand() < 0.7}
    maxsw = 8
    calls, tot = [], 0
    for _ in range(int(rs.randint(1, 4))):
        k = int(rs.randint(0 if rs.rand() < 0.1 else 1, 5))
        k = min(k, maxsw - tot)
        # before a later call the step counts may be re-configured: a new dictionary assigned, or the current one updated in place
        reconf = None
        if calls and rs.rand() < 0.3:
            reconf = (str(rs.choice(["assign", "inplace"])), {n: int(rs.choice([0, 1, 2, 3, 2, 1])) for n in names})
        # phases in any order and repeated: warmup -> sample -> warmup, warmup -> warmup, sample -> warmup ...
        calls.append((("warmup" if rs.rand() < (0.6 if not calls else 0.35) else "sample"), k, reconf)); tot += k
    if idx % 20 == 7:
        # phase lengths straddling the literal constants of the module: tune_interval = max(int(tune_freq*Nb), 1) changes
        # at Nb = 10, 20; a later warm-up phase after sampling
        # ... and a sampling phase that is sometimes longer than any constant a loop could hide behind (10, 16)
        calls = [("warmup", int(rs.choice([9, 10, 11, 19, 20, 21])), None), ("sample", int(rs.choice([1, 11, 17])), None), ("warmup", int(rs.choice([1, 2, 10])), None)]
    how = {"ctor": str(rs.choice(["positional", "keyword"])), "calls": str(rs.choice(["positional", "keyword"])),
           "tune_freq": float(rs.choice([0.1, 0.5, 1.0, 0.25, 0.3, 0.6, 0.7, 0.34, 0.0, 2.0, -0.5]))}
    if idx % 20 == 7 and rs.rand() < 0.7:
        # the binary64 product tune_freq*Nb is an integer although the exact product of the float lies just below it
        tf_, nb_ = [(0.3, 10), (0.7, 10), (0.15, 20), (0.6, 10), (0.35, 20), (0.3, 20)][int(rs.randint(6))]
        how["calls"], how["tune_freq"] = "keyword", tf_
        calls = [("warmup", nb_, None), ("sample", int(rs.choice([1, 11, 17])), None), ("warmup", int(rs.choice([1, 2, 5])), None)]
    elif idx % 9 == 4:
        how["calls"], how["tune_freq"] = "keyword", 0.6
        calls = [("warmup", 5, None), ("sample", 1, None)]          # int(0.6*5) == 3, the exact product is 2.9999…
    classes = {n: (type(strategy[n]).__name__ if n in strategy else None) for n in names}
    uinit = {n: (None if (n not in strategy or strategy[n].initial_point is None) else vec(strategy[n].initial_point).copy()) for n in names}
    dinit = {n: (vec(strategy[n]._get_default_initial_point(roles[n][1])) if n in strategy else np.ones(roles[n][1])) for n in names}
    def ip_kind(o):
        return None if o is None else (f"ndarray:{o.dtype}:{o.shape}" + ("" if o.flags.writeable else ":readonly") + (":view" if o.base is not None else "")
                                        if isinstance(o, np.ndarray) else type(o).__name__)
    desc = {"iface": "HybridGibbs", "template": tmpl, "naming": roles["__naming__"], "names": names, "samplers": classes, "malformed": malformed,
            "initial_point_objects": {"mode": odd_mode, "kinds": {n: ip_kind(strategy[n].initial_point) for n in names if n in strategy},
                                      "same_object": [[n for n in names if n in strategy and strategy[n].initial_point is o_] for o_ in
                                                      {id(strategy[n].initial_point): strategy[n].initial_point for n in names if n in strategy and strategy[n].initial_point is not None}.values()
                                                      if sum(1 for n in names if n in strategy and strategy[n].initial_point is o_) > 1]} if odd_mode else None,
            "num_sampling_steps": dict(nss) if nss is not None else None, "calls": calls, "passing": how, "scenario": idx,
            "initial_points": {n: (None if uinit[n] is None else uinit[n].tolist()) for n in names}}
    kind = "hybrid:" + tmpl
    K = "HybridGibbs"
    # ---- construct
    try:
        with quiet():
            user_nss = None if nss is None else dict(nss)
            if how["ctor"] == "positional":
                G = HybridGibbs(post, strategy, user_nss) if (user_nss is not None or rs.rand() < 0.5) else HybridGibbs(post, strategy)
            else:
                G = HybridGibbs(target=post, sampling_strategy=strategy, num_sampling_steps=user_nss) if (user_nss is not None or rs.rand() < 0.5) \
                    else HybridGibbs(sampling_strategy=strategy, target=post)
        built = True
    except Exception as e:
        built = False
        err = type(e).__name__
    objs = []
    sid_of = {}
    for n in names:
        if n in strategy:
            if id(strategy[n]) not in objs:
                objs.append(id(strategy[n]))
            sid_of[n] = str(objs.index(id(strategy[n])))
        else:
            sid_of[n] = "-"
    extra_sid = [str(len(objs))] if malformed in ("extra", "tuplekey") else []

    def hg_line(order, flags_, calls_s, draws_s):
        return "hg {} {} {} {} {} {} {} {}".format(
            ",".join(order), ",".join(flags_[n] for n in order), ",".join([sid_of[n] for n in order] + extra_sid),
            ",".join("-" if (nss is None or n not in nss) else str(int(nss[n])) for n in order),
            ";".join("-" if uinit[n] is None else qv(uinit[n]) for n in order),
            ";".join(qv(dinit[n]) for n in order), calls_s, draws_s)
    if not built:
        ctx.case(kind + ":refused" + (":" + malformed if malformed else ""), desc, nontrivial=shared)
        line = hg_line(names, {n: "000" for n in names}, "1", "_")

        def after(out):
            if shared and out != "err|" + err:
                ctx.disagree(f"{K}:construct", desc, out[:80], "raises " + err, "constructor refusal differs")
            if not shared:
                stats["construct_errors"] = stats.get("construct_errors", 0) + 1
                ctx.fail(f"{K}:crash:construct", desc, "a sampler over all blocks", "raises " + err,
                         "HybridGibbs refuses a well-formed target / sampler assignment")
        return line, after
    if shared:
        ctx.case(kind + ":malformed-accepted", desc)
        ctx.note(f"a malformed sampling strategy ({malformed}) was accepted by the constructor")

        def after(out):
            if out.startswith("err|"):
                ctx.disagree(f"{K}:construct", desc, out[:80], "accepted", "constructor refusal differs")
        return hg_line(names, {n: "000" for n in names}, "1", "_"), after
    par_names = list(G.par_names)
    smp_name = {id(s): n for n, s in G.samplers.items()}
    strategy_objs = dict(strategy)
    if rs.rand() < 0.3:
        strategy.clear()                # the user's dictionary is theirs: emptying it afterwards must not matter
        if user_nss is not None and rs.rand() < 0.5:
            pass
    flags = {}
    for n in par_names:
        s = G.samplers[n]
        has = any(hasattr(s, a) for a in CACHE_ATTRS)
        ins = any(a in s._STATE_KEYS for a in CACHE_ATTRS)
        flags[n] = ("1" if isinstance(s, NUTS) else "0") + ("1" if has else "0") + ("1" if ins else "0")
    init = {n: vec(G.current_samples[n]).copy() for n in par_names}
    # ORACLE: the run starts from the user's initial points, else from the samplers' defaults
    for n in par_names:
        want = uinit[n] if uinit[n] is not None else dinit[n]
        if not np.array_equal(init[n], want):
            ctx.fail(f"{K}:initial", desc, {n: want.tolist()}, {n: init[n].tolist()},
                     "the initial value of a block is neither the sampler's initial_point nor its default")
            break
    # what the USER configured (default 1), not what the object says it will do
    cfg = {n: (max(int(nss[n]), 0) if (nss is not None and n in nss) else 1) for n in par_names}
    # ---- oracle book
    cur = {n: init[n].copy() for n in par_names}
    events = []          # implementation trace
    draws = []
    snapshots = []
    state = {"block": None, "count": {}, "order": [], "fails": set()}
    seen_struct = {n: {describe(G.samplers[n].target)} for n in par_names}     # the targets set by `_set_targets` in the constructor
    init_kinds = {n: kind_of(G.current_samples[n]) for n in par_names}
    pts_kinds, stored_kinds = [], []
    tv_items = []
    attr_prev, attr_obs = {}, []

    def fail(aspect, cls, demanded, got, what, extra=None):
        key = f"{K}:{aspect}" + (f":{cls}" if cls else "")
        d = dict(desc); d["at"] = {"sweep": len(snapshots), "block": state["block"], **(extra or {})}
        ctx.fail(key, d, demanded, got, what)
        state["fails"].add(key)

    def cache_read(s):
        for a in CACHE_ATTRS:
            if hasattr(s, a):
                return a, float(np.asarray(getattr(s, a)).reshape(-1)[0])
        return None, None

    def cache_fresh(s, attr, x):
        with quiet():
            if attr == "current_likelihood_logd":
                return float(np.asarray(s.target.likelihood.logd(x)).reshape(-1)[0])
            return float(np.asarray(s.target.logd(x)).reshape(-1)[0])

    def make_step(s, orig):
        def step():
            n = smp_name[id(s)]
            cls = type(s).__name__
            first = state["block"] != n
            before = vec(s.current_point).copy()
            tgt = s.target
            oth = rec.others_of(tgt)
            expected = {m: cur[m] for m in par_names if m != n}
            if first:
                state["block"] = n
                state["order"].append(n)
                attr, cval = cache_read(s)
                events.append(("V", n, oth, before, (attr, cval, tgt), len(s._acc)))
                seen_struct.setdefault(n, set()).add(describe(tgt))
                if n in attr_prev and len(attr_obs) < 40:
                    keys_ = sorted(set(s._STATE_KEYS) | set(s._HISTORY_KEYS)) + ["initial_point", "step_size", "opt_acc_rate"]
                    attr_obs.append((n, cls, isinstance(s, NUTS), sorted(s._STATE_KEYS), sorted(s._HISTORY_KEYS),
                                     {a: snap_attr(getattr(s, a, None)) for a in keys_}, dict(attr_prev[n]), (cur[n].copy(), {a: vec(getattr(s, a)).copy() for a in ("current_point", "initial_point")}),
                                     getattr(s, "step_size", None), (snap_attr(type(s)().max_depth) if isinstance(s, NUTS) else None),
                                     (float(np.log(10 * np.asarray(s._epsilon, dtype=float).reshape(-1)[0])), float(np.asarray(s._mu, dtype=float).reshape(-1)[0])) if isinstance(s, NUTS) else None))
                if state.get("tv", 0) < 6 and "__joint0__" in roles:
                    state["tv"] = state.get("tv", 0) + 1
                    try:
                        prs = probes(None, before, scales.get(n))
                        r_ = tv_lines(roles["__joint0__"], roles["__datav__"], dict(expected, **{n: before}), n, prs)
                        if r_ is not None:
                            rl = [tlogd(tgt, p_) for p_ in prs]
                            if all(math.isfinite(t_) for t_ in rl):
                                tv_items.append((r_[0], rl, n, r_[1]))
                    except Exception:
                        stats["probe_errors"] = stats.get("probe_errors", 0) + 1
                # ORACLE: starts from the block's current value
                if not np.array_equal(before, cur[n]):
                    fail("start", cls, cur[n].tolist(), before.tolist(), "the block sampler does not start from the block's current value")
            # ORACLE: the handed target is the joint conditioned on the most recent other values
            # ... exactly: the keyword dictionary the held target was built from carries the CURRENT values, bit for bit
            if oth is not None:
                stats["target_dict_checks"] = stats.get("target_dict_checks", 0) + 1
                bad = [m for m in expected if m not in oth or not np.array_equal(oth[m], expected[m])] + [m for m in oth if m not in expected]
                if bad:
                    fail("target", None, {m: expected[m].tolist() for m in bad if m in expected}, {m: oth[m].tolist() for m in bad if m in oth},
                         "the target held by the block sampler was conditioned on values that are not exactly the most recent values of the other blocks")
            try:
                ok, a, b = same_conditional(tgt, post, expected, n, before, scales.get(n), ftol)
                stats["target_probes"] = stats.get("target_probes", 0) + 1
                if not (math.isfinite(a) and math.isfinite(b)):
                    stats["probe_nonfinite"] = stats.get("probe_nonfinite", 0) + 1
                elif not ok:
                    fail("target", None, b, a, "the target handed to the block sampler is not (up to a constant) the joint conditioned on the most recent values of the other blocks",
                         {"probe_from": before.tolist(), "expected_others": {k: v.tolist() for k, v in expected.items()}})
            except Exception as e:
                stats["probe_errors"] = stats.get("probe_errors", 0) + 1
            # ORACLE: cached evaluation the sampler works from is that of the handed target at the current point
            attr, cval = cache_read(s)
            if attr is not None:
                try:
                    fresh = cache_fresh(s, attr, before)
                    stats["cache_checks"] = stats.get("cache_checks", 0) + 1
                    if not close_m("cache_oracle(1e-8):" + ("nuts" if isinstance(s, NUTS) else ("state-restored" if attr in s._STATE_KEYS else "recomputed")), cval, fresh, 1e-8):
                        stats["cache_stale"] = stats.get("cache_stale", 0) + 1
                        path = "nuts" if isinstance(s, NUTS) else ("state-restored" if attr in s._STATE_KEYS else "recomputed")
                        fail(f"cache:{path}", cls, fresh, cval,
                             f"{cls}.{attr} used by this transition belongs to another target/point than the handed target at the current point",
                             {"first_step_of_block": first})
                except Exception:
                    stats["probe_errors"] = stats.get("probe_errors", 0) + 1
            acc = orig()
            after = vec(s.current_point).copy()
            moved = not np.array_equal(before, after)
            # a transition may be accepted without moving the point (CWMH on an integer-dtype point truncates the
            # proposal back to the old value): the sampler then still replaces its cached evaluation
            try:
                accepted = bool(np.any(np.asarray(acc, dtype=float) > 0)) and any(hasattr(s, a) for a in CACHE_ATTRS) and not isinstance(s, NUTS)
            except Exception:
                accepted = False
            events.append(("S", n, before, after))
            draws.append((moved or accepted, after))
            cur[n] = after.copy()
            state["count"][n] = state["count"].get(n, 0) + 1
            return acc
        return step

    def store():
        # ORACLE: every block advanced the configured number of times, in parameter order
        want_order = [n for n in par_names if cfg[n] > 0]
        if state["order"] != want_order:
            fail("steps", None, want_order, list(state["order"]), "blocks are not visited once each in parameter order")
        for n in par_names:
            if state["count"].get(n, 0) != cfg[n]:
                fail("steps", None, {n: cfg[n]}, {n: state["count"].get(n, 0)}, "a block sampler is not advanced by the configured number of transitions")
        orig_store()
        for n in par_names:
            s_ = G.samplers[n]
            attr_prev[n] = {a: snap_attr(getattr(s_, a, None)) for a in sorted(set(s_._STATE_KEYS) | set(s_._HISTORY_KEYS)) + ["initial_point", "step_size", "opt_acc_rate"]}
        pts_kinds.append({n: kind_of(G.samplers[n].current_point) for n in par_names})
        stored_kinds.append({n: kind_of(G.samples[n][-1]) for n in par_names})
        snap = {n: vec(G.current_samples[n]).copy() for n in par_names}
        last = {n: vec(G.samples[n][-1]).copy() for n in par_names}
        events.append(("T", last))
        for n in par_names:
            if not np.array_equal(last[n], cur[n]) or not np.array_equal(snap[n], cur[n]):
                fail("stored", None, {n: cur[n].tolist()}, {n: last[n].tolist()}, "the stored sample is not the tuple of values after the sweep")
                break
        snapshots.append({n: cur[n].copy() for n in par_names})
        state["block"] = None; state["count"] = {}; state["order"] = []

    orig_store = G._store_samples
    G._store_samples = store
    tunes = []

    def make_tune(s, orig):
        def tune(*a, **kw):
            skip_len = kw["skip_len"] if "skip_len" in kw else a[0]
            update_count = kw["update_count"] if "update_count" in kw else a[1 if "skip_len" not in kw else 0]
            tunes.append((len(snapshots), len(draws), smp_name[id(s)], int(skip_len), int(update_count)))
            return orig(*a, **kw)
        return tune
    for n in par_names:
        s = G.samplers[n]
        s.step = make_step(s, s.step)
        s.tune = make_tune(s, s.tune)
    ran = True
    retained = []
    with CondRecorder(cuqi) as rec, seeded(ctx.seed * 1000003 + idx * 7919 + 1):
        try:
            with quiet():
                for what, k, reconf in calls:
                    if reconf is not None:
                        if reconf[0] == "assign":
                            G.num_sampling_steps = dict(reconf[1])
                        else:
                            for n_ in par_names:
                                G.num_sampling_steps[n_] = reconf[1][n_]
                        for n_ in par_names:
                            cfg[n_] = max(int(reconf[1][n_]), 0)
                    if what == "warmup":
                        G.warmup(k) if how["calls"] == "positional" else G.warmup(Nb=k, tune_freq=how["tune_freq"])
                    else:
                        G.sample(k) if how["calls"] == "positional" else G.sample(Ns=k)
                    # every returned object is kept and re-verified at the end
                    state["phase"] = "get_samples"
                    r_ = G.get_samples()
                    state["phase"] = "run"
                    retained.append((r_, {n_: np.array(r_[n_].samples, copy=True) for n_ in par_names}, len(snapshots)))
                state["phase"] = "get_samples"
                smp = G.get_samples()
        except Exception as e:
            ran = False
            err = f"{type(e).__name__}: {str(e)[:100]}"
    # ---- kinds (type / shape) of the stored objects and the assembly by get_samples(): Model/C09_shape.lean
    sh_pend = []
    if (ran or state.get("phase") == "get_samples") and all(v is not None for d_ in [init_kinds] + pts_kinds for v in d_.values()):
        gs_raised = not ran
        gs_shapes = None if gs_raised else {n: "ok:" + "x".join(str(int(k)) for k in np.asarray(smp[n].samples).shape) for n in par_names}
        sh_line = "sh {} {} {}".format(",".join(par_names), ",".join(init_kinds[n] for n in par_names),
                                       ";".join(",".join(d_[n] for n in par_names) for d_ in pts_kinds) if pts_kinds else "_")

        def after_sh(out, gs_raised=gs_raised, gs_shapes=gs_shapes):
            compare_kinds(ctx, K, desc, out, par_names, stored_kinds, gs_raised, gs_shapes, stats)
        sh_pend = [(sh_line, after_sh)]
    if not ran and state.get("phase") == "get_samples":
        # the sweeps ran; only the assembly of the stored tuples failed
        nonarr = sorted({type(v).__name__ for n_ in par_names for v in G.samples[n_] if not isinstance(v, np.ndarray)})
        ctx.case(kind + ":get_samples-raised", desc)
        ctx.fail(f"{K}:stored:get_samples-raises" + (":scalar-initial-point" if nonarr else ""), desc,
                 "the stored tuples as Samples", "raises " + err + f" (stored non-array entries: {nonarr})",
                 "get_samples() cannot assemble the stored tuples")
        return sh_pend
    # ORACLE: the user's initial_point objects are never written to
    bad = modified_user_objects(user_snaps)
    if odd_mode:
        stats["odd_initial_points"][odd_mode] = stats["odd_initial_points"].get(odd_mode, 0) + 1
    if bad:
        ctx.fail(f"{K}:initial:user-array-modified", desc, "user's initial_point arrays untouched", bad,
                 "the run wrote into an array the user passed as initial_point")
    if not ran:
        ctx.case(kind + ":crashed", desc, nontrivial=False)
        stats["run_errors"] = stats.get("run_errors", 0) + 1
        ctx.fail(f"{K}:crash:run", desc, "every block visited in every sweep", "raises " + err,
                 "the run of a well-formed scenario raises")
        return None
    ctx.case(kind, desc)
    for n in par_names:
        c = classes[n]
        stats["sampler_hist"][c] = stats["sampler_hist"].get(c, 0) + 1
    stats["sweeps"] = stats.get("sweeps", 0) + len(snapshots)
    stats["steps"] = stats.get("steps", 0) + len(draws)
    # ORACLE: the samples returned are the post-sweep tuples of all sweeps (warm-up included), in order
    tot = sum(c_[1] for c_ in calls)
    # ORACLE: what earlier calls returned is still what it was, and was the sequence of post-sweep tuples up to then
    for r_, snap_, upto in retained:
        for n_ in par_names:
            now_ = np.asarray(r_[n_].samples)
            if now_.ndim == 1 and snap_[n_].ndim == 1:      # a 1-dim block whose stored values are all bare scalars
                now_ = now_.reshape(1, -1); snap_[n_] = snap_[n_].reshape(1, -1)
            want_ = np.array([sn[n_] for sn in snapshots[:upto]]).T if upto else None
            if now_.shape != snap_[n_].shape or not np.array_equal(now_, snap_[n_]) or (want_ is not None and not np.array_equal(now_, want_)):
                fail("stored", None, "returned samples keep their values", n_, "samples returned by an earlier call changed afterwards / are not the post-sweep tuples up to that call")
                break
    if len(snapshots) != tot:
        fail("stored", None, f"{tot} stored tuples", f"{len(snapshots)}", "number of stored tuples is not the number of sweeps")
    for n in par_names:
        if not snapshots:
            break
        arr = np.asarray(smp[n].samples)
        if arr.ndim == 1:
            arr = arr.reshape(1, -1)
        want = np.array([sn[n] for sn in snapshots]).T
        if arr.shape != want.shape or not np.array_equal(arr, want):
            fail("stored", None, f"{tot} post-sweep tuples", f"shape {arr.shape}", "get_samples() is not the sequence of post-sweep tuples")
            break
    # ---- model
    tf_used = 0.1 if how["calls"] == "positional" else how["tune_freq"]
    state["tunes"] = tunes
    stats["tune_calls"] = stats.get("tune_calls", 0) + len(tunes)
    for c_ in calls:
        if c_[0] == "warmup":
            hk_ = f"{tf_used}x{c_[1]}->{max(int(tf_used * c_[1]), 1)}"
            stats["tune_intervals"][hk_] = stats["tune_intervals"].get(hk_, 0) + 1
    line = hg_line(par_names, flags, ",".join((f"W{q(tf_used)}!" if c_[0] == "warmup" else "") + str(c_[1]) + ("" if c_[2] is None else "@" + ":".join(str(int(c_[2][1][n_])) for n_ in par_names)) for c_ in calls) if calls else "_",
                   ";".join(f"{1 if m else 0}|{qv(a)}" for m, a in draws) if draws else "_")
    state["init"] = init
    state["scales"] = scales
    state["ftol"] = ftol
    pend = [(line, (lambda out: compare_hybrid(ctx, K, desc, out, events, draws, snapshots, par_names, post, G, stats, state)))]
    pend.extend(sh_pend)
    try:
        gdims_ = {n_: int(smp[n_].geometry.par_dim) for n_ in par_names}
    except Exception:
        gdims_ = None

    def after_tc(out, gdims_=gdims_):
        f = out.split("|")
        if len(f) != 5 or f[1] != "H0=ok":
            ctx.disagree(f"{K}:construct:target-class", desc, out[:100], "constructed and ran", "the model refuses the class of a target the constructor accepts"); return
        m_d = {it.split(":")[0]: it.split(":")[1] for it in f[4].split(",")}
        stats["geometry_ties"] = stats.get("geometry_ties", 0) + 1
        if gdims_ is not None and gdims_ != {a: int(b) for a, b in m_d.items() if b != "-"}:
            ctx.disagree(f"{K}:stored:geometry", desc, m_d, gdims_, "the geometry get_samples() wraps the stored sweeps in is not that of the block's density")
    pend.append((tc_line(roles["__graph__"]), after_tc))
    pend.extend(nt_pending(ctx, K, desc, attr_obs, stats))
    pend.extend(tv_pending(ctx, K, desc, tv_items, ftol, stats, lambda: f"{K}:target" in state["fails"]))
    for n in par_names:
        seen_struct[n].add(describe(G.samplers[n].target))
    pend.append((tg_line(roles["__graph__"]),
                 (lambda out: compare_structure(ctx, K, desc, out, par_names, G.target, seen_struct, stats, f"{K}:target" in state["fails"]))))
    # ---- a second owner: another HybridGibbs built from sampler objects that have already served this one
    if rs.rand() < 0.25:
        which = "all" if rs.rand() < 0.5 else par_names[int(rs.randint(len(par_names)))]
        strat2 = {}
        for n in par_names:
            if which == "all" or which == n:
                strat2[n] = strategy_objs[n]
            else:
                strat2[n] = exp_sampler_E(cuqi, rs, roles, n) if tmpl == "E" else exp_sampler(cuqi, rs, *roles[n])
        desc2 = dict(desc); desc2["second_owner"] = {"reused_samplers": which}
        try:
            with quiet():
                G2 = HybridGibbs(post, strat2)
            acc2, err2 = True, None
        except Exception as e:
            acc2, err2 = False, type(e).__name__
        ctx.case(kind + ":second-owner", desc2)
        stats["second_owner"] = stats.get("second_owner", 0) + 1
        K2 = f"{K}:start:reused-sampler"
        if acc2:
            # ORACLE: at the start of the new run every block sampler sits at its block's current value
            for n in par_names:
                a_, b_ = vec(G2.samplers[n].current_point), vec(G2.current_samples[n])
                if not np.array_equal(a_, b_):
                    ctx.fail(K2, desc2, {n: b_.tolist()}, {n: a_.tolist()},
                             "a re-used sampler object was accepted and starts the new run from the point the earlier run left it at, not from the block's current value")
                    break
        line2 = "hg {} {} {} {} {} {} 1 _".format(
            ",".join(par_names), ",".join("000" for _ in par_names),
            ",".join(str(i) + ("!" if (which == "all" or which == n) else "") for i, n in enumerate(par_names)),
            ",".join("-" for _ in par_names), ";".join("-" for _ in par_names), ";".join(qv(np.ones(roles[n][1])) for n in par_names))

        def after2(out):
            if acc2 and out.startswith("err|"):
                ctx.disagree(K2, desc2, out, "accepted", "an already initialized sampler object is accepted by the constructor")
            elif not acc2 and out != "err|" + err2:
                ctx.disagree(f"{K}:construct", desc2, out[:60], "raises " + err2, "constructor refusal differs")
        pend.append((line2, after2))
    return pend


def compare_hybrid(ctx, K, desc, out, events, draws, snapshots, par_names, post, G, stats, state):
    def dis(aspect, cls, model, impl, what):
        key = f"{K}:{aspect}" + (f":{cls}" if cls else "")
        ctx.disagree(key, desc, model, impl, what)
    if out.startswith("err|draws"):
        dis("steps", None, f"needs {out.split('|')[2]} transitions", f"{len(draws)} transitions made", "number of transitions differs from the model's schedule")
        return
    if out.startswith("err") or out == "bad-op":
        dis("construct", None, out, "accepted", "model refuses a configuration the code runs")
        return
    if out.count(" # ") != 4:
        dis("construct", None, out[:100], "ran", "unexpected model output"); return
    ev_s, pos_s, stored_s, init_s, tune_s = [t.strip() for t in out.split(" # ")]
    # tuning calls of the warm-up phases: when (tuples stored, transitions made), which sampler, skip_len, update_count;
    # the order of the samplers inside one round is immaterial and canonicalised away
    m_t = sorted(tuple(t.split(":")) for t in tune_s.split(" ")) if tune_s != "_" else []
    i_t = sorted((str(a), str(b), n_, str(c), str(d)) for a, b, n_, c, d in state.get("tunes", []))
    if m_t != i_t:
        k_ = next((i for i, (x, y) in enumerate(zip(m_t, i_t)) if x != y), min(len(m_t), len(i_t)))
        dis("tune", None, {"calls": len(m_t), "first_difference": m_t[k_:k_ + 2]}, {"calls": len(i_t), "first_difference": i_t[k_:k_ + 2]},
            "tuning calls of the warm-up (when / sampler / skip_len / update_count) differ from the model's schedule")
        return
    init_i = fdict(par_names, state["init"])
    if init_s != init_i:
        dis("initial", None, init_s, init_i, "initial points differ"); return
    mev = ev_s.split(" ") if ev_s else []
    # drop the model's visit events of blocks with zero transitions (unobservable on the implementation)
    mev2 = []
    for i, e in enumerate(mev):
        if e.startswith("V|"):
            nm = e.split("|")[1]
            nxt = mev[i + 1] if i + 1 < len(mev) else ""
            if not nxt.startswith(f"S|{nm}|"):
                continue
        mev2.append(e)
    iev = []
    for e in events:
        if e[0] == "V":
            _, n, oth, start, cache, acclen = e
            iev.append(("V", n, None if oth is None else fdict(par_names, oth), qv(start), cache, acclen))
        elif e[0] == "S":
            iev.append(f"S|{e[1]}|{qv(e[2])}|{qv(e[3])}")
        else:
            iev.append("T|" + fdict(par_names, e[1]))
    if len(mev2) != len(iev):
        dis("steps", None, f"{len(mev2)} events", f"{len(iev)} events", "event traces have different lengths")
        return
    for me, ie in zip(mev2, iev):
        if isinstance(ie, str):
            if me != ie:
                asp = "steps" if ie.startswith("S|") or me.startswith("S|") else "stored"
                dis(asp, None, me[:200], ie[:200], "transition / stored tuple differs")
                return
            continue
        _, n, oth, start, (attr, cval, tgt), acclen = ie
        cls = type(G.samplers[n]).__name__
        f = me.split("|")
        if f[0] != "V" or f[1] != n:
            dis("steps", None, me[:200], f"V|{n}", "block order differs"); return
        if oth is None:
            # target not built by JointDistribution.__call__: identify it numerically
            oth_m = {k: np.array(v) for k, v in pdict(f[2]).items()}
            p = np.array([float(__import__('fractions').Fraction(t)) for t in f[3].split(",")])
            try:
                ok = same_conditional(tgt, post, oth_m, n, p, state.get('scales', {}).get(n), state.get('ftol', 1e-8))[0]
            except Exception:
                ok = False
            if not ok:
                dis("target", None, f[2], "target evaluates differently", "handed target differs from the model's (numerical identification)"); return
        elif f[2] != oth:
            dis("target", None, f[2], oth, "conditioning dictionary of the handed target differs"); return
        if f[3] != start:
            dis("start", cls, f[3], start, "starting point of the block sampler differs"); return
        if int(f[5]) != acclen:
            dis("history", cls, f[5], acclen, "len(sampler._acc) differs"); return
        # cache: the model says which (target, point) the cached value belongs to
        if (f[4] == "-") != (attr is None):
            dis("cache", cls, f[4], attr, "presence of a cached target evaluation differs"); return
        if attr is not None:
            t_s, p_s = f[4].split("@")
            oth_m = {k: np.array(v) for k, v in pdict(t_s).items()}
            p = np.array([float(__import__('fractions').Fraction(t)) for t in p_s.split(",")])
            try:
                if attr == "current_likelihood_logd":
                    with quiet():
                        want = float(np.asarray(post(**oth_m).likelihood.logd(p)).reshape(-1)[0])
                else:
                    want = full_logd(post, oth_m, n, p)
            except Exception:
                stats["probe_errors"] = stats.get("probe_errors", 0) + 1
                continue
            stats["cache_tag_checks"] = stats.get("cache_tag_checks", 0) + 1
            if not close_m("cache_tag_tie(tol=%g)" % state.get('ftol', 1e-8), cval, want, state.get('ftol', 1e-8)):
                # is the implementation's cache simply fresh (defect repaired)?  then the property holds here
                fresh_t = f"{f[2]}@{f[3]}"
                try:
                    oth_now = {k: np.array(v) for k, v in pdict(f[2]).items()}
                    if attr == "current_likelihood_logd":
                        with quiet():
                            fresh = float(np.asarray(post(**oth_now).likelihood.logd(p)).reshape(-1)[0])
                    else:
                        fresh = full_logd(post, oth_now, n, p)
                except Exception:
                    fresh = None
                if fresh is not None and close(cval, fresh, state.get('ftol', 1e-8)):
                    stats["cache_fresher_than_model"] = stats.get("cache_fresher_than_model", 0) + 1
                    continue
                path = "nuts" if cls == "NUTS" else ("state-restored" if attr in G.samplers[n]._STATE_KEYS else "recomputed")
                dis(f"cache:{path}", cls, f[4], cval, f"cached {attr} is not the evaluation the model attributes it to (wanted {want})"); return
    if pos_s and int(pos_s) != len(draws):
        dis("steps", None, pos_s, len(draws), "number of transitions differs")
    want_stored = " ".join(fdict(par_names, {n: G.samples[n][i] for n in par_names}) for i in range(len(G.samples[par_names[0]])))
    if stored_s != want_stored:
        dis("stored", None, stored_s[:200], want_stored[:200], "final sample lists differ")


# ----------------------------------------------------------------------------- legacy
def run_legacy(ctx, cuqi, idx, rs, thorough, stats):
    import cuqi.sampler as LS
    tmpl = ["H", "G", "S", "W", "C", "E", "G", "P"][idx % 8] if idx < 16 else str(rs.choice(["H", "H", "P", "S", "W", "C", "E", "G", "G"]))
    with quiet():
        post, roles = build_joint(cuqi, rs, tmpl)
    names = list(post.get_parameter_names())
    scales = roles.get("__scale__", {})
    chosen = {n: (legacy_factory_E(cuqi, rs, roles, n) if tmpl == "E" else legacy_factory(cuqi, rs, roles[n][0])) for n in names}
    # tuple keys: one sampler class for several blocks (each member is still its own block)
    groups = []
    if tmpl == "G":
        opts = [[("a", "b")], [("b", "x")], [("a", "b", "x")], [("a", "x")], [("b", "a")], [("x", "b", "a")], []]
        for grp in opts[int(rs.randint(len(opts)))]:
            grp = tuple(roles["__ren__"][c] for c in grp)
            sc = 0.05 if any(roles[m][0] in ("hyper", "hyper2") for m in grp) else 0.3
            fac = (lambda target, sc=sc: LS.MH(target, scale=sc))
            for m in grp:
                chosen[m] = ("MH", fac)
            groups.append(tuple(grp))
    elif tmpl == "E" and rs.rand() < 0.5:
        src = [n for n in names if roles[n][0] == "tiny"]
        leaf = roles["__leafof__"][src[0]]
        chosen[leaf] = chosen[src[0]]          # the dependent block shares the source's (tiny-scale) MH
        groups.append((src[0], leaf) if rs.rand() < 0.5 else (leaf, src[0]))
    else:
        same = [n for n in names if chosen[n][0] == "Conjugate"]
        if len(same) >= 2 and rs.rand() < 0.5:
            groups.append(tuple(same))
    grouped = {m for g_ in groups for m in g_}
    classes = {n: chosen[n][0] for n in names}
    # init_point attributes on some densities
    ipts = {}
    for n in names:
        if roles[n][0] == "tiny":      # start on the block's own scale (the default np.ones is 1e9 standard deviations away)
            v = roles["__loc__"][n] + roles["__scale__"][n] * rs.randint(-2, 3, size=roles[n][1]).astype(float)
            post.get_density(n).init_point = v
            ipts[n] = v
        elif rs.rand() < 0.35:
            v = np.array([float(rs.choice([0.5, 1.5, 2.0]))]) if roles[n][0] in ("hyper", "hyper2") else rs.randint(-2, 3, size=roles[n][1]).astype(float)
            post.get_density(n).init_point = v
            ipts[n] = v
    odd_mode, user_snaps = None, []
    if rs.rand() < 0.4:
        odd_mode, objs_, user_snaps = odd_initial_points(rs, names, roles, classes, "legacy")
        for n, o in objs_.items():
            post.get_density(n).init_point = o
            ipts[n] = vec(o)
    ftol = 2e-2 if odd_mode in ("f16", "mixed") else 1e-5 if odd_mode == "f32" else 1e-8
    r = rs.rand()
    if r < 0.55:
        calls = [(int(rs.randint(1, 5)), int(rs.choice([0, 0, 1, 2, 3])))]
        if rs.rand() < 0.6:
            calls.append((int(rs.randint(1, 4)), 0))
        if rs.rand() < 0.3:
            calls.append((int(rs.randint(0, 3)), 0))
    elif r < 0.7:
        calls = [(0, int(rs.randint(1, 4))), (int(rs.randint(1, 4)), 0)]          # warm-up only, then continue
    elif r < 0.8:
        calls = [(int(rs.randint(1, 4)), int(rs.randint(1, 3))), (int(rs.randint(1, 3)), int(rs.randint(1, 3)))]  # second warm-up
    elif r < 0.88:
        calls = [(0, 0), (int(rs.randint(1, 4)), 0)]
    else:
        calls = [(int(rs.randint(1, 4)), 0), (int(rs.randint(1, 4)), 0), (int(rs.randint(1, 3)), 0)]
    if idx % 20 == 7:
        # lengths straddling the literal constants of the module (`Ns < 2`, `Ns // 100` in the progress output)
        calls = [(int(rs.choice([99, 100, 101, 199, 200, 201])), int(rs.choice([0, 1, 2]))), (1, 0)]
    desc = {"iface": "legacy Gibbs", "template": tmpl, "naming": roles["__naming__"], "names": names, "samplers": classes, "tuple_keys": [list(g_) for g_ in groups],
            "calls": calls, "scenario": idx, "init_point_objects": odd_mode,
            "init_point": {n: v.tolist() for n, v in ipts.items()}}
    kind = "legacy:" + tmpl
    K = "Gibbs"
    events, draws = [], []
    state = {"order": [], "fails": set()}
    cur = {}
    seen_struct = {}
    tv_items = []

    def fail(aspect, demanded, got, what, extra=None):
        key = f"{K}:{aspect}"
        d = dict(desc); d["at"] = extra or {}
        ctx.fail(key, d, demanded, got, what)
        state["fails"].add(key)

    class Proxy:
        def __init__(self, n, inner, target):
            self.n, self.inner, self.target = n, inner, target

        def step(self, x):
            x0 = vec(x).copy()
            oth = rec.others_of(self.target)
            n = self.n
            if n is None:           # built through a tuple key: the block is the parameter the target leaves free
                rest = [m for m in par_names if oth is not None and m not in oth]
                if len(rest) == 1:
                    n = rest[0]
                else:
                    pn = list(self.target.get_parameter_names())
                    n = pn[0] if len(pn) == 1 else None
                if n is None:
                    raise RuntimeError("cannot tell which block a grouped sampler was built for")
                self.n = n
                stats["grouped_steps"] = stats.get("grouped_steps", 0) + 1
            if cur:
                expected = {m: cur[m] for m in par_names if m != n}
                if not np.array_equal(x0, cur[n]):
                    fail("start", cur[n].tolist(), x0.tolist(), "the block sampler does not start from the block's current value", {"block": n})
                if oth is not None:
                    stats["target_dict_checks"] = stats.get("target_dict_checks", 0) + 1
                    bad = [m for m in expected if m not in oth or not np.array_equal(oth[m], expected[m])] + [m for m in oth if m not in expected]
                    if bad:
                        fail("target", {m: expected[m].tolist() for m in bad if m in expected}, {m: oth[m].tolist() for m in bad if m in oth},
                             "the target handed to the block sampler was conditioned on values that are not exactly the most recent values of the other blocks", {"block": n})
                try:
                    ok, a, b = same_conditional(self.target, post, expected, n, x0, scales.get(n), ftol)
                    stats["target_probes"] = stats.get("target_probes", 0) + 1
                    if not (math.isfinite(a) and math.isfinite(b)):
                        stats["probe_nonfinite"] = stats.get("probe_nonfinite", 0) + 1
                    elif not ok:
                        fail("target", b, a, "the target handed to the block sampler is not (up to a constant) the joint conditioned on the most recent values of the other blocks",
                             {"block": n, "probe_from": x0.tolist()})
                except Exception:
                    stats["probe_errors"] = stats.get("probe_errors", 0) + 1
            seen_struct.setdefault(n, set()).add(describe(self.target))
            if cur and state.get("tv", 0) < 6 and "__joint0__" in roles:
                state["tv"] = state.get("tv", 0) + 1
                try:
                    prs = probes(None, x0, scales.get(n))
                    r_ = tv_lines(roles["__joint0__"], roles["__datav__"], dict({m: cur[m] for m in par_names if m != n}, **{n: x0}), n, prs)
                    if r_ is not None:
                        rl = [tlogd(self.target, p_) for p_ in prs]
                        if all(math.isfinite(t_) for t_ in rl):
                            tv_items.append((r_[0], rl, n, r_[1]))
                except Exception:
                    stats["probe_errors"] = stats.get("probe_errors", 0) + 1
            out = self.inner.step(x)
            res = vec(out).copy()
            events.append(("S", n, oth, x0, res, self.target))
            draws.append(res)
            state["order"].append(n)
            if cur:
                cur[n] = res.copy()
            return out

    def factory(n):
        def make(target):
            return Proxy(n, chosen[n][1](target), target)
        return make

    try:
        with quiet():
            strat = {n: factory(n) for n in names if n not in grouped}
            for g_ in groups:
                strat[g_] = (lambda target, f=chosen[g_[0]][1]: Proxy(None, f(target), target))
            keys = list(strat)
            strat = {k: strat[k] for k in [keys[i] for i in rs.permutation(len(keys))]}
            G = LS.Gibbs(post, strat)
    except Exception as e:
        ctx.case(kind + ":refused", desc, nontrivial=False)
        ctx.fail(f"{K}:crash:construct", desc, "a sampler over all blocks", "raises " + type(e).__name__,
                 "legacy Gibbs refuses a well-formed target / sampler assignment")
        return
    par_names = list(G.par_names)
    dims = {n: int(G.target.get_density(n).dim) for n in par_names}
    ip_model = {}
    for n in par_names:
        dn = G.target.get_density(n)
        ip_model[n] = vec(dn.init_point).copy() if hasattr(dn, "init_point") else None
    orig_store = G._store_samples
    stored_log = []

    def store(samples, current_samples, i):
        want_order = list(par_names)
        if state["order"] != want_order:
            fail("steps", want_order, list(state["order"]), "blocks are not advanced once each in parameter order")
        state["order"] = []
        if samples is getattr(G, "samples", None):
            for n in par_names:
                ar_ops[n].append(f"S{int(i)}:{qv(vec(current_samples[n]))}")
        orig_store(samples, current_samples, i)
        warm = samples is getattr(G, "samples_warmup", None)
        col = {n: vec(samples[n][:, i]).copy() for n in par_names}
        events.append(("T", warm, int(i), col))
        if cur:
            for n in par_names:
                if not np.array_equal(col[n], cur[n]):
                    fail("stored", {n: cur[n].tolist()}, {n: col[n].tolist()}, "the stored sample is not the tuple of values after the sweep")
                    break
        stored_log.append((warm, {n: (cur[n].copy() if cur else col[n]) for n in par_names}))
    G._store_samples = store
    outcome = "ok"
    ncalls_done = 0
    first_init = None
    orig_init = G._get_initial_points

    ar_ops = {n: [] for n in par_names}
    ar_last = {n: [] for n in par_names}
    orig_alloc = getattr(G, "_allocate_samples", None)
    ar_on = orig_alloc is not None        # (without the hook the array tie is skipped, the column tie of `lg` remains)

    def alloc(Ns_):
        for n in par_names:
            ar_ops[n].append(f"A{int(Ns_)}")
        return orig_alloc(Ns_)
    if ar_on:
        G._allocate_samples = alloc

    def get_init():
        had = hasattr(G, "samples")
        for n in par_names:
            ar_ops[n].append("L")
        try:
            pts = orig_init()
        except IndexError:
            for n in par_names:
                ar_last[n].append("IndexError")
            raise
        for n in par_names:
            ar_last[n].append(qv(vec(pts[n])) if had else "absent")
        new = {n: vec(pts[n]).copy() for n in par_names}
        # ORACLE: a later call continues from the last stored values
        if stored_log:
            last = stored_log[-1][1]
            for n in par_names:
                if not np.array_equal(new[n], last[n]):
                    fail("continue", {n: last[n].tolist()}, {n: new[n].tolist()}, "a repeated sample call does not resume from the last stored values")
                    break
        else:
            for n in par_names:
                want = ip_model[n] if ip_model[n] is not None else np.ones(dims[n])
                if not np.array_equal(new[n], want):
                    fail("initial", {n: want.tolist()}, {n: new[n].tolist()}, "initial point is neither the density's init_point nor ones")
                    break
        cur.clear(); cur.update(new)
        return pts
    G._get_initial_points = get_init
    last_ret = None
    retained = []
    with CondRecorder(cuqi) as rec, seeded(ctx.seed * 1000003 + idx * 7919 + 2):
        for (Ns, Nb) in calls:
            try:
                with quiet():
                    kw_ = rs.randint(3)
                    last_ret = G.sample(Ns, Nb) if kw_ == 0 else (G.sample(Ns=Ns, Nb=Nb) if kw_ == 1 else (G.sample(Ns) if Nb == 0 else G.sample(Nb=Nb, Ns=Ns)))
                ncalls_done += 1
                retained.append((last_ret, {n_: np.array(last_ret[n_].samples, copy=True) for n_ in par_names},
                                 len([1 for w_, _c in stored_log if not w_])))
            except (IndexError, ValueError) as e:
                # the two documented refusals: a second warm-up (ValueError) and continuing from a sample array without
                # columns (IndexError, known finding / nothing stored); anything else is a crash of a well-formed run
                ns_so_far = sum(c_[0] for c_ in calls[:ncalls_done])
                legit = (isinstance(e, ValueError) and ncalls_done >= 1 and Nb != 0 and "warmup" in str(e)) or \
                        (isinstance(e, IndexError) and ncalls_done >= 1 and ns_so_far == 0)
                outcome = type(e).__name__ if legit else "crash:" + type(e).__name__ + ": " + str(e)[:80]
                break
            except Exception as e:
                outcome = "crash:" + type(e).__name__ + ": " + str(e)[:80]
                break
    bad = modified_user_objects(user_snaps)
    if odd_mode:
        stats["odd_initial_points"]["legacy-" + odd_mode] = stats["odd_initial_points"].get("legacy-" + odd_mode, 0) + 1
    if bad:
        ctx.fail(f"{K}:initial:user-array-modified", desc, "user's init_point arrays untouched", bad,
                 "the run wrote into an array the user attached as init_point")
    if outcome.startswith("crash"):
        ctx.case(kind + ":crashed", desc, nontrivial=False)
        stats["run_errors"] = stats.get("run_errors", 0) + 1
        ctx.fail(f"{K}:crash:run", desc, "every block visited in every sweep", "raises " + outcome,
                 "the run of a well-formed scenario raises")
        return
    ctx.case(kind + ("" if outcome == "ok" else ":" + outcome), desc)
    for n in par_names:
        c = "legacy-" + classes[n]
        stats["sampler_hist"][c] = stats["sampler_hist"].get(c, 0) + 1
    stats["sweeps"] = stats.get("sweeps", 0) + len(stored_log)
    stats["steps"] = stats.get("steps", 0) + len(draws)
    # ORACLE: refusal to continue although values are stored
    if outcome == "IndexError" and ncalls_done >= 1:
        if stored_log:      # values (of the warm-up) are stored, yet the run cannot be continued
            fail("continue:empty-samples", "resume from the last stored values", "IndexError",
                 "a repeated sample call raises IndexError because the sample array of the previous call has no columns")
        else:
            stats["continue_after_empty_call_refused"] = stats.get("continue_after_empty_call_refused", 0) + 1
    # ORACLE: what every call returned is still, at the end, the sequence of post-sweep tuples of the sampling phase up to that call
    sam_all = [c for w, c in stored_log if not w]
    for r_, snap_, upto in retained:
        for n_ in par_names:
            now_ = np.asarray(r_[n_].samples)
            want_ = np.array([c[n_] for c in sam_all[:upto]]).T if upto else None
            if now_.shape != snap_[n_].shape or not np.array_equal(now_, snap_[n_]) or (want_ is not None and not np.array_equal(now_, want_)):
                fail("stored", "returned samples keep their values", n_, "samples returned by an earlier call changed afterwards / are not the post-sweep tuples up to that call")
                break
    # ORACLE: returned arrays = post-sweep tuples of the sampling phase
    if outcome == "ok" and last_ret is not None:
        sam = [c for w, c in stored_log if not w]
        for n in par_names:
            arr = np.asarray(last_ret[n].samples)
            want = np.array([c[n] for c in sam]).T if sam else np.zeros((dims[n], 0))
            if arr.shape != want.shape or not np.array_equal(arr, want):
                fail("stored", f"{len(sam)} post-sweep tuples", f"shape {arr.shape}", "returned samples are not the sequence of post-sweep tuples")
                break
    # ---- model
    line = "lg {} {} {} {} {}".format(
        ",".join(par_names), ";".join("-" if ip_model[n] is None else qv(ip_model[n]) for n in par_names),
        ",".join(str(dims[n]) for n in par_names), ",".join(f"{a}:{b}" for a, b in calls),
        ";".join(qv(d) for d in draws) if draws else "_")
    def dis(aspect, model, impl, what):
        ctx.disagree(f"{K}:{aspect}", desc, model, impl, what)

    def compare_legacy(out):
        if out.startswith("err|draws"):
            dis("steps", f"needs {out.split('|')[2]} transitions", f"{len(draws)}", "number of transitions differs from the model's schedule"); return
        if out == "bad-op" or out.count(" # ") != 3:
            dis("construct", out[:100], "ran", "model refuses"); return
        ev_s, tail_s, sam_s, warm_s = [t.strip() for t in out.split(" # ")]
        mev = ev_s.split(" ") if ev_s else []
        if tail_s.split()[1] != outcome:
            asp = "continue:empty-samples" if (outcome == "IndexError" or tail_s.endswith("IndexError")) else "continue"
            dis(asp, tail_s, outcome, "outcome (ok / error class) of the call sequence differs")
            return
        if len(mev) != len(events):
            dis("steps", f"{len(mev)} events", f"{len(events)} events", "event traces have different lengths"); return
        for me, e in zip(mev, events):
            f = me.split("|")
            if e[0] == "S":
                _, n, oth, x0, res, tgt = e
                if f[0] != "S" or f[1] != n:
                    dis("steps", me[:200], f"S|{n}", "block order differs"); return
                if oth is None:
                    oth_m = {k: np.array(v) for k, v in pdict(f[2]).items()}
                    try:
                        ok = same_conditional(tgt, post, oth_m, n, x0, scales.get(n), ftol)[0]
                    except Exception:
                        ok = False
                    if not ok:
                        dis("target", f[2], "target evaluates differently", "handed target differs from the model's"); return
                elif f[2] != fdict(par_names, oth):
                    dis("target", f[2], fdict(par_names, oth), "conditioning dictionary of the handed target differs"); return
                if f[3] != qv(x0):
                    dis("start", f[3], qv(x0), "starting point differs"); return
                if f[4] != qv(res):
                    dis("steps", f[4], qv(res), "result of the transition differs"); return
            else:
                _, warm, i, col = e
                ie = f"T|{'w' if warm else 's'}|{i}|{fdict(par_names, col)}"
                if me != ie:
                    dis("stored", me[:200], ie[:200], "stored tuple / index differs"); return

        def cols(arrs):
            if arrs is None:
                return "absent"
            k = arrs[par_names[0]].shape[1]
            return "empty" if k == 0 else ";;".join(fdict(par_names, {n: arrs[n][:, j] for n in par_names}) for j in range(k))
        isam, iwarm = cols(getattr(G, "samples", None)), cols(getattr(G, "samples_warmup", None))
        if sam_s != isam:
            dis("stored", sam_s[:200], isam[:200], "final sample arrays differ")
        elif warm_s != iwarm:
            dis("stored", warm_s[:200], iwarm[:200], "final warm-up arrays differ")
    # ---- one block's sample array as a concrete (dim, width) array: Model/C09_array.lean (driver op `ar`)
    ar_pend = []
    for n in par_names:
        arr_ = getattr(G, "samples", {}).get(n) if hasattr(G, "samples") else None
        fin = "absent" if arr_ is None else f"{arr_.shape[0]}x{arr_.shape[1]}:" + ";".join(qv(arr_[r_, :]) if arr_.shape[1] else "_" for r_ in range(arr_.shape[0]))
        want_ = ";".join(ar_last[n]) + "|" + fin

        def after_ar(out, n=n, want_=want_):
            stats["array_ties"] = stats.get("array_ties", 0) + 1
            if out != want_:
                # a difference that comes with a failing input of the stored-clause is reported under that key
                ctx.disagree(f"{K}:stored" + ("" if f"{K}:stored" in state["fails"] else ":array"), dict(desc, block=n, ops=ar_ops[n][:40]), out[:300], want_[:300],
                             "the block's sample array (allocation / continuation by hstack / column writes / last column) differs from the model's")
        if ar_ops[n] and ar_on:
            ar_pend.append((f"ar {dims[n]} " + ";".join(ar_ops[n]), after_ar))
    return ar_pend + tv_pending(ctx, K, desc, tv_items, ftol, stats, lambda: f"{K}:target" in state["fails"]) + [(line, compare_legacy),
            (tg_line(roles["__graph__"]),
             (lambda out: compare_structure(ctx, K, desc, out, par_names, G.target, seen_struct, stats, f"{K}:target" in state["fails"])))]

# ----------------------------------------------------------------------------- graph zoo (structure of the handed targets)
def lamN(args, f):
    """a lambda whose arguments are called `args` (cuqi reads the conditioning variables from the argument names)"""
    return eval(f"lambda {', '.join(args)}: _f({', '.join(args)})", {"_f": f})


def run_graph(ctx, cuqi, idx, rs, thorough, stats):
    """random model graphs (DAGs of Gaussians with 0-2 parents through the mean, optionally a Gamma root through the
    variance; any subset observed as long as two variables stay free; random density order): the constructors of both
    samplers and one sweep, comparing par_names and the class / densities / free variables of every object handed to a
    block sampler with the reduction computed by the model (Model/C09_target.lean on top of Model/C01.lean)"""
    from cuqi.distribution import Gaussian, Gamma, JointDistribution
    from cuqi.experimental.mcmc import HybridGibbs, MH
    import cuqi.sampler as LS
    pool = ["a", "b", "c", "u", "w", "z", "ab", "a0", "b_s", "zz", "c1"]
    k = int(rs.randint(3, 10 if thorough else 7))
    names = [pool[i] for i in rs.permutation(len(pool))[:k]]
    dims = {n: int(rs.randint(1, 4)) for n in names}
    use_gamma = rs.rand() < 0.4
    dens, parents = [], {}
    for i, n in enumerate(names):
        if i == 0 and use_gamma:
            dims[n] = 1; parents[n] = []
            dens.append(Gamma(2.0, 1.0, name=n)); continue
        cand = [m for m in names[:i] if not (use_gamma and m == names[0])]
        pa = [cand[j] for j in rs.permutation(len(cand))[:int(rs.randint(0, 3))]] if cand else []
        cov = 1.0
        gp = []
        if use_gamma and rs.rand() < 0.5:
            gp = [names[0]]
            cov = lamN(gp, lambda g: 1.0 / g)
        mean = lamN(pa, (lambda *vs, d=dims[n]: sum(float(np.sum(v)) * (0.5 ** j) for j, v in enumerate(vs)) * np.ones(d))) if pa else np.zeros(dims[n])
        parents[n] = pa + gp
        dens.append(Gaussian(mean, cov, geometry=dims[n], name=n))
    children = {n: [m for m in names if n in parents[m]] for n in names}
    nobs = int(rs.randint(0, k - 1))
    cand_obs = [n for n in names if not (use_gamma and n == names[0])]
    obs = [cand_obs[j] for j in rs.permutation(len(cand_obs))[:min(nobs, k - 2, len(cand_obs))]]
    dens = [dens[i] for i in rs.permutation(len(dens))]
    with quiet():
        J0 = JointDistribution(*dens)
        post = J0(**{n: np.ones(dims[n]) for n in obs}) if obs else J0
    graph = graph_of(J0, obs)
    free = [d.name for d in J0._densities if d.name not in obs]
    desc = {"iface": "both", "graph": [[n, dim, cv] for n, dim, cv in graph[0]], "observed": obs, "scenario": idx}
    seenH, seenL = {}, {}
    badH, badL = [], []
    tvH = []
    errH = errL = None
    with seeded(ctx.seed * 1000003 + idx * 7919 + 3):
        try:
            with quiet():
                G = HybridGibbs(post, {n: MH(scale=0.1, initial_point=(np.ones(dims[n]))) for n in free})
                for n in G.par_names:
                    seenH.setdefault(n, set()).add(describe(G.samplers[n].target))
                cur0 = {n: vec(G.current_samples[n]).copy() for n in G.par_names}
                G.sample(1)
                cur1 = {n: vec(G.current_samples[n]).copy() for n in G.par_names}
                for i_, n in enumerate(G.par_names):
                    seenH[n].add(describe(G.samplers[n].target))
                    # ORACLE: the target block n was advanced on is the joint conditioned on the new values of the blocks
                    # before it and the old values of those after it
                    oth_ = {m: (cur1[m] if j_ < i_ else cur0[m]) for j_, m in enumerate(G.par_names) if m != n}
                    ok_, a_, b_ = same_conditional(G.samplers[n].target, post, oth_, n, cur1[n])
                    stats["graph_target_probes"] = stats.get("graph_target_probes", 0) + 1
                    try:        # value tie through the model on recorded leaf log-densities
                        prs_ = probes(None, cur1[n])
                        r_ = tv_lines(J0, {m: np.ones(dims[m]) for m in obs}, dict(oth_, **{n: cur1[n]}), n, prs_)
                        if r_ is not None:
                            rl_ = [tlogd(G.samplers[n].target, p_) for p_ in prs_]
                            if all(math.isfinite(t_) for t_ in rl_):
                                tvH.append((r_[0], rl_, n, r_[1]))
                    except Exception:
                        stats["probe_errors"] = stats.get("probe_errors", 0) + 1
                    if not ok_:
                        badH.append(n)
                        ctx.fail("HybridGibbs:target", dict(desc, at={"block": n, "others": {m: v.tolist() for m, v in oth_.items()}}), b_, a_,
                                 "the target handed to the block sampler is not (up to a constant) the joint conditioned on the most recent values of the other blocks")
            parH, tgtH = list(G.par_names), G.target
        except Exception as e:
            errH = f"{type(e).__name__}: {str(e)[:80]}"
        try:
            class Still:
                def __init__(self, target):
                    self.target = target
                    pn = list(target.get_parameter_names())
                    seenL.setdefault(pn[0] if len(pn) == 1 else "?" + ",".join(pn), set()).add(describe(target))
                    if len(pn) == 1:
                        oth_ = {m: np.ones(dims[m]) for m in free if m != pn[0]}
                        ok_, a_, b_ = same_conditional(target, post, oth_, pn[0], np.ones(dims[pn[0]]))
                        stats["graph_target_probes"] = stats.get("graph_target_probes", 0) + 1
                        if not ok_:
                            badL.append(pn[0])
                            ctx.fail("Gibbs:target", dict(desc, at={"block": pn[0], "others": "ones"}), b_, a_,
                                     "the target handed to the block sampler is not (up to a constant) the joint conditioned on the most recent values of the other blocks")

                def step(self, x):
                    return np.asarray(x, dtype=float)
            with quiet():
                GL = LS.Gibbs(post, {tuple(free): Still} if rs.rand() < 0.3 else {n: Still for n in free})
                GL.sample(1)
            parL, tgtL = list(GL.par_names), GL.target
        except Exception as e:
            errL = f"{type(e).__name__}: {str(e)[:80]}"
    nch = {n: len([m for m in children[n]]) for n in free}
    ctx.case("graph:" + str(len(free)) + "free:" + str(len(obs)) + "obs", desc)
    stats["graph_children_hist"] = stats.get("graph_children_hist", {})
    for n in free:
        key = str(min(nch[n], 3))
        stats["graph_children_hist"][key] = stats["graph_children_hist"].get(key, 0) + 1
    for K, e_ in (("HybridGibbs", errH), ("Gibbs", errL)):
        if e_ is not None:
            ctx.fail(f"{K}:crash:construct", desc, "a sampler over all blocks of a well-formed joint", "raises " + e_,
                     "constructing / sweeping once over a well-formed hierarchical joint raises")

    def after(out):
        if errH is None:
            compare_structure(ctx, "HybridGibbs", desc, out, parH, tgtH, seenH, stats, bool(badH))
        if errL is None:
            compare_structure(ctx, "Gibbs", desc, out, parL, tgtL, seenL, stats, bool(badL))
    return [(tg_line(graph), after)] + tv_pending(ctx, "HybridGibbs", desc, tvH, 1e-8, stats, lambda: bool(badH))


# ----------------------------------------------------------------------------- kinds of the stored objects
def run_shapes(ctx, cuqi, idx, rs, thorough, stats):
    """HybridGibbs runs built to exercise the write-back branch (`isinstance(current_point, np.ndarray)`), `_store_samples`
    and the assembly in `get_samples()`: a 1-dim hyper-parameter block whose initial point is a python float / int /
    numpy scalar / 0-d array / list / 1-D array and that does not move for a while (0 transitions configured, or a
    proposal scale that is always rejected), then moves (or never does); the latent block starts from a list or an array.
    Tie: kinds of the stored objects and outcome / shapes of get_samples() against Model/C09_shape.lean (driver op `sh`).
    Oracle: the stored objects hold the post-sweep values, and get_samples() returns them."""
    from cuqi.distribution import Gaussian, Gamma, JointDistribution
    from cuqi.experimental.mcmc import HybridGibbs, MH, LinearRTO, Conjugate
    n = int(rs.randint(2, 4)); m = int(rs.randint(2, 5))
    Am = rs.randint(-2, 3, size=(m, n)).astype(float); Am[0, 0] = 1.0
    A = cuqi.model.LinearModel(Am)
    d = Gamma(2.0, 1.0, name="d"); x = Gaussian(np.zeros(n), lambda d: 1 / d, name="x"); y = Gaussian(A @ x, 1.0, name="y")
    dens = [d, x, y] if rs.rand() < 0.5 else [x, d, y]
    with quiet():
        post = JointDistribution(*dens)(y=rs.randint(-2, 3, size=m).astype(float))
    # (no python list for the hyper-parameter: the user's own `lambda d: 1 / d` cannot divide by a list)
    ipk = str(rs.choice(["float", "float", "int", "npfloat", "0d", "arr", "none"]))
    ip = {"float": 2.0, "int": 2, "npfloat": np.float64(1.5), "0d": np.array(2.0), "list": [2.0], "arr": np.array([2.0]), "none": None}[ipk]
    no0d = ipk in ("0d",)        # (a 0-d value conditioned into the Gaussian precision is fine; into a GMRF it is not - no GMRF here)
    still = str(rs.choice(["zero-steps", "zero-steps", "rejected", "always-zero", "moves"]))
    scale = 1e6 if still == "rejected" else 0.05
    xk = str(rs.choice(["none", "arr", "list"]))
    xip = {"none": None, "arr": rs.randint(-2, 3, size=n).astype(float), "list": [float(t) for t in rs.randint(-2, 3, size=n)]}[xk]
    k1, k2 = int(rs.randint(0, 3)), int(rs.randint(0, 4))
    desc = {"iface": "HybridGibbs", "shapes": True, "names": list(post.get_parameter_names()), "d_initial_point": ipk, "x_initial_point": xk,
            "d_behaviour": still, "calls": [f"sample({k1})", f"sample({k2})"], "scenario": idx}
    K = "HybridGibbs"
    pts_kinds, stored_kinds, posts = [], [], []
    with seeded(ctx.seed * 1000003 + idx * 7919 + 4), quiet():
        smp_x = MH(scale=0.2, initial_point=xip) if xk == "list" else LinearRTO(initial_point=xip)
        G = HybridGibbs(post, {"d": MH(scale=scale, initial_point=ip), "x": smp_x},
                        {"d": 0} if still in ("zero-steps", "always-zero") else None)
        par_names = list(G.par_names)
        init_kinds = {n_: kind_of(G.current_samples[n_]) for n_ in par_names}
        orig_store = G._store_samples

        def store():
            orig_store()
            pts_kinds.append({n_: kind_of(G.samplers[n_].current_point) for n_ in par_names})
            stored_kinds.append({n_: kind_of(G.samples[n_][-1]) for n_ in par_names})
            posts.append({n_: vec(G.samplers[n_].current_point).copy() for n_ in par_names})
        G._store_samples = store
        err = None
        try:
            G.sample(k1)
            if still == "zero-steps":
                G.num_sampling_steps["d"] = 1
            G.sample(k2)
        except Exception as e:
            err = f"{type(e).__name__}: {str(e)[:80]}"
        gs, gs_err = None, None
        if err is None:
            try:
                gs = G.get_samples()
            except Exception as e:
                gs_err = f"{type(e).__name__}: {str(e)[:80]}"
    ctx.case("hybrid:shapes:" + ipk + ":" + still + (":get_samples-raised" if gs_err else ""), desc)
    if err is not None:
        ctx.fail(f"{K}:crash:run", desc, "every block visited in every sweep", "raises " + err, "the run of a well-formed scenario raises")
        return None
    # ORACLE: the stored objects are the post-sweep values ...
    for j, pv in enumerate(posts):
        for n_ in par_names:
            if not np.array_equal(vec(G.samples[n_][j]), pv[n_]):
                ctx.fail(f"{K}:stored", desc, {n_: pv[n_].tolist()}, {n_: vec(G.samples[n_][j]).tolist()}, "the stored sample is not the tuple of values after the sweep")
                return None
    # ... and can be retrieved
    if gs_err is not None:
        nonarr = sorted({type(v).__name__ for n_ in par_names for v in G.samples[n_] if not isinstance(v, np.ndarray)})
        ctx.fail(f"{K}:stored:get_samples-raises" + (":scalar-initial-point" if nonarr else ""), desc, f"the {k1 + k2} stored tuples as Samples",
                 "raises " + gs_err + f" (stored non-array entries: {nonarr})", "get_samples() cannot assemble the stored tuples")
    else:
        for n_ in par_names:
            arr = np.asarray(gs[n_].samples)
            want = np.array([pv[n_] for pv in posts]).T if posts else None
            if want is not None and not np.array_equal(arr.reshape(want.shape) if arr.size == want.size else arr, want):
                ctx.fail(f"{K}:stored", desc, f"{len(posts)} post-sweep tuples", f"shape {arr.shape}", "get_samples() is not the sequence of post-sweep tuples")
                break
    if any(v is None for d_ in [init_kinds] + pts_kinds for v in d_.values()):
        return None
    gs_shapes = None if gs_err else {n_: "ok:" + "x".join(str(int(k)) for k in np.asarray(gs[n_].samples).shape) for n_ in par_names}
    line = "sh {} {} {}".format(",".join(par_names), ",".join(init_kinds[n_] for n_ in par_names),
                                ";".join(",".join(d_[n_] for n_ in par_names) for d_ in pts_kinds) if pts_kinds else "_")

    def after(out):
        compare_kinds(ctx, K, desc, out, par_names, stored_kinds, gs_err is not None, gs_shapes, stats)
    return [(line, after)]


# ----------------------------------------------------------------------------- class of the target (validate_targets & co.)
def tc_line(graph):
    return "tc" + tg_line(graph)[2:]


def run_single(ctx, cuqi, idx, rs, thorough, stats):
    """targets with ONE free variable (a prior with 0-3 observed children: Distribution / Posterior /
    MultipleLikelihoodPosterior) and, for contrast, with two: what `HybridGibbs.__init__` (`_get_initial_points`,
    `validate_targets`) and the first legacy `sample` make of the class of the target, and the geometry get_samples()
    wraps the stored sweeps in — model `hybridTargetVerdict` / `legacyTargetVerdict` / `samplesGeometryDim` (driver op `tc`).
    Tie only: the property speaks of 2..k blocks."""
    from cuqi.distribution import Gaussian, Gamma, JointDistribution
    from cuqi.experimental.mcmc import HybridGibbs, MH
    import cuqi.sampler as LS
    n = int(rs.randint(1, 4)); k = int(rs.randint(0, 4)); two = rs.rand() < 0.25
    dens, obs = [], {}
    if two:
        dens.append(Gamma(2.0, 1.0, name="d"))
        x = Gaussian(np.zeros(n), lambda d: 1 / d, name="x")
    else:
        x = Gaussian(np.zeros(n), 1.0, name="x")
    dens.append(x)
    for i in range(k):
        m = int(rs.randint(1, 4))
        Am = rs.randint(-2, 3, size=(m, n)).astype(float); Am[0, 0] = 1.0
        dens.append(Gaussian(cuqi.model.LinearModel(Am) @ x, 1.0, name=f"y{i}"))
        obs[f"y{i}"] = rs.randint(-2, 3, size=m).astype(float)
    if rs.rand() < 0.3:
        dens.append(Gaussian(np.zeros(2), 1.0, name="z")); obs["z"] = np.ones(2)
    dens = [dens[i] for i in rs.permutation(len(dens))]
    with quiet():
        J0 = JointDistribution(*dens)
        post = J0(**obs) if obs else J0
    graph = graph_of(J0, list(obs))
    free = [d.name for d in J0._densities if d.name not in obs]
    given = bool(rs.rand() < 0.5)
    desc = {"iface": "both", "graph": [[a, b, c] for a, b, c in graph[0]], "observed": list(obs), "initial_points_given": given, "scenario": idx}
    dims = {"x": n, "d": 1}
    resH, resL, gdims = "ok", "ok", None
    with seeded(ctx.seed * 1000003 + idx * 7919 + 5), quiet():
        try:
            G = HybridGibbs(post, {m_: MH(scale=0.1, initial_point=(np.ones(dims[m_]) if given else None)) for m_ in free})
            G.sample(2)
            gs = G.get_samples()
            gdims = {m_: int(gs[m_].geometry.par_dim) for m_ in G.par_names}
            if any(gs[m_].geometry is not G.target.get_density(m_).geometry for m_ in G.par_names):
                gdims = "geometry object differs"
        except Exception as e:
            resH = type(e).__name__
        try:
            class Still:
                def __init__(self, target):
                    pass

                def step(self, x_):
                    return np.asarray(x_, dtype=float)
            LS.Gibbs(post, {m_: Still for m_ in free}).sample(1)
        except Exception as e:
            resL = type(e).__name__
    ctx.case(f"target-class:{len(free)}free:{k}children:{'given' if given else 'default'}-initial-points", desc)

    def after(out):
        f = out.split("|")
        if len(f) != 5:
            ctx.disagree("HybridGibbs:construct:target-class", desc, out[:100], [resH, resL], "unexpected model output"); return
        stats["target_classes"][f[0]] = stats["target_classes"].get(f[0], 0) + 1
        want_h = f[2][3:] if given else f[1][3:]
        if want_h != resH:
            ctx.disagree("HybridGibbs:construct:target-class", desc, {"target": f[0], "HybridGibbs": want_h}, resH,
                         "what HybridGibbs.__init__ / two sweeps make of a target of this class differs (validate_targets, get_density)"); return
        if f[3][2:] != resL:
            ctx.disagree("Gibbs:construct:target-class", desc, {"target": f[0], "legacy": f[3][2:]}, resL, "what the first legacy sample call makes of a target of this class differs"); return
        if resH == "ok":
            m_d = {it.split(":")[0]: it.split(":")[1] for it in f[4].split(",")}
            if gdims != {a: int(b) for a, b in m_d.items() if b != "-"}:
                ctx.disagree("HybridGibbs:stored:geometry", desc, m_d, gdims, "the geometry get_samples() wraps the stored sweeps in is not that of the block's density")
    return [(tc_line(graph), after)]


# ----------------------------------------------------------------------------- legacy strategy parsing
def run_lstrategy(ctx, cuqi, idx, rs, thorough, stats):
    """legacy `Gibbs.__init__` / the look-up `self.samplers[par_name]` in `step`: plain keys, tuple keys (1-tuples included), a
    later key naming a block again (overwrites), keys naming no parameter (ignored), blocks without key (KeyError in the first
    sweep, after the blocks before it have been advanced) — model `lparse`/`lassigned`/`lsweepChecked` (driver op `ls`)"""
    import cuqi.sampler as LS
    tmpl = str(rs.choice(["H", "W", "C", "G", "P"]))
    with quiet():
        post, roles = build_joint(cuqi, rs, tmpl)
    names = list(post.get_parameter_names())
    pool = [names[i] for i in rs.permutation(len(names))]
    missing = []
    if rs.rand() < 0.3:
        missing = pool[:int(rs.randint(1, len(pool)))] if len(pool) > 1 else []
        pool = [n for n in pool if n not in missing]
    keys = []
    while pool:
        k = int(rs.randint(1, min(3, len(pool)) + 1))
        grp, pool = pool[:k], pool[k:]
        if k == 1 and rs.rand() < 0.7:
            keys.append(grp[0])
        else:
            keys.append(tuple(grp))
    overlap = False
    if keys and rs.rand() < 0.35:       # a later key names a block again
        again = [n for n in names if n not in missing]
        n_ = again[int(rs.randint(len(again)))]
        cand = (n_, "q_other") if rs.rand() < 0.3 else ((n_,) if rs.rand() < 0.5 else n_)
        if cand not in keys:
            keys.insert(int(rs.randint(1, len(keys) + 1)), cand); overlap = True
    if rs.rand() < 0.3:
        keys.insert(int(rs.randint(0, len(keys) + 1)), "q_extra" if rs.rand() < 0.5 else ("q_extra", "q_more"))
    advanced = []

    class Rec:
        def __init__(self, fid, target):
            self.fid, self.target = fid, target

        def step(self, x):
            pn = list(self.target.get_parameter_names())
            advanced.append((pn[0] if len(pn) == 1 else "?", self.fid))
            return np.asarray(x, dtype=float)
    strat = {k: (lambda target, fid=i: Rec(fid, target)) for i, k in enumerate(keys)}
    desc = {"iface": "legacy Gibbs", "strategy_keys": [list(k) if isinstance(k, tuple) else k for k in keys], "names": names,
            "without_key": missing, "scenario": idx}
    outcome = "ok"
    try:
        with quiet():
            G = LS.Gibbs(post, strat)
            par_names = list(G.par_names)
            G.sample(1)
    except KeyError as e:
        outcome = "KeyError"
    except Exception as e:
        outcome = "crash:" + type(e).__name__ + ": " + str(e)[:80]
    ctx.case("legacy-strategy:" + ("overlap:" if overlap else "") + outcome.split(":")[0], desc)
    stats["lstrategy"][outcome.split(":")[0]] = stats["lstrategy"].get(outcome.split(":")[0], 0) + 1
    K = "Gibbs"
    foreign = any((k if isinstance(k, str) else "".join(k)).startswith("q_") or (isinstance(k, tuple) and any(m.startswith("q_") for m in k)) for k in keys)
    if outcome.startswith("crash") or (outcome == "KeyError" and not missing):
        if foreign or overlap:
            # a strategy with keys naming no parameter / naming a block twice is not a well-formed assignment: refusing it is not a
            # failure of the property, only a difference from the model (which transcribes the code: such keys are ignored / overwrite)
            ctx.disagree(f"{K}:assigned-sampler:outcome", desc, "runs (foreign keys ignored, a later key overwrites)", "raises " + outcome,
                         "a strategy with foreign / repeated keys is refused")
        else:
            ctx.fail(f"{K}:crash:run", desc, "one sweep over all blocks", "raises " + outcome, "a sweep with a sampler assigned to every block raises")
        return None
    # ORACLE: every block is drawn by its assigned sampler (keys naming each block once)
    if not overlap:
        owner = {}
        for i, k in enumerate(keys):
            for n in (k if isinstance(k, tuple) else (k,)):
                owner[n] = i
        wrong = [(n, fid) for n, fid in advanced if owner.get(n) != fid]
        if wrong:
            ctx.fail(f"{K}:assigned-sampler", desc, {n: owner.get(n) for n, _ in wrong}, dict(wrong), "a block was advanced by a sampler other than the one assigned to it")
        if outcome == "ok" and [n for n, _ in advanced] != par_names:
            ctx.fail(f"{K}:steps", desc, par_names, [n for n, _ in advanced], "blocks are not advanced once each in parameter order")

    def kfmt(k):
        return ("(" + k[0] + ")" if len(k) == 1 else "+".join(k)) if isinstance(k, tuple) else k
    line = "ls {} {}".format(";".join(f"{kfmt(k)}={i}" for i, k in enumerate(keys)) if keys else "_", ",".join(par_names))

    def after(out):
        ids_s, _, out_s = out.partition("|")
        impl_out = f"ok:{len(advanced)}" if outcome == "ok" else f"KeyError:{len(advanced)}:{par_names[len(advanced)] if len(advanced) < len(par_names) else '?'}"
        if out_s != impl_out:
            ctx.disagree(f"{K}:assigned-sampler:outcome", desc, out_s, impl_out, "outcome of the first sweep (blocks advanced / KeyError at which block) differs"); return
        ids = ids_s.split(",")
        got = {n: str(fid) for n, fid in advanced}
        bad = [(n, ids[i], got[n]) for i, n in enumerate(par_names) if n in got and ids[i] != got[n]]
        if bad:
            ctx.disagree(f"{K}:assigned-sampler", desc, {n: a for n, a, _ in bad}, {n: b for n, _, b in bad}, "the sampler a block is advanced by differs from the model's dictionary look-up")
    return [(line, after)]


# ----------------------------------------------------------------------------- corpus
def corpus_scalar_initial_point(ctx, cuqi):
    """fixed scenario (oracle only): a python scalar as initial point of a 1-dim block that is not moved in the first
    sweep (0 transitions configured), then moved — the stored tuples must still come back from get_samples()"""
    from cuqi.distribution import Gaussian, Gamma, JointDistribution
    from cuqi.experimental.mcmc import HybridGibbs, MH, LinearRTO
    A = cuqi.model.LinearModel(np.array([[1., 2, 0], [0, 1, 1], [1, 0, 1], [2, 1, 0]]))
    d = Gamma(1, 1, name="d"); x = Gaussian(np.zeros(3), lambda d: 1 / d, name="x"); y = Gaussian(A @ x, 1.0, name="y")
    post = JointDistribution(d, x, y)(y=np.array([1., 2, 3, 4]))
    desc = {"iface": "HybridGibbs", "corpus": "scalar initial point, 0 then 1 transitions",
            "samplers": {"d": "MH(scale=0.05, initial_point=2.0)", "x": "LinearRTO"}, "num_sampling_steps": {"d": 0},
            "calls": ["sample(1)", "num_sampling_steps['d'] = 1", "sample(6)", "get_samples()"]}
    ctx.case("hybrid:corpus:scalar-initial-point", desc)
    with seeded(12345), quiet():
        G = HybridGibbs(post, {"d": MH(scale=0.05, initial_point=2.0), "x": LinearRTO()}, {"d": 0})
        G.sample(1); G.num_sampling_steps["d"] = 1; G.sample(6)
        stored = [vec(v).copy() for v in G.samples["d"]]
        try:
            out = np.asarray(G.get_samples()["d"].samples)
            ok = out.shape == (1, 7) and np.array_equal(out[0], np.array([v[0] for v in stored]))
            got = "ok" if ok else f"shape {out.shape}"
        except Exception as e:
            ok = False
            got = f"raises {type(e).__name__}: {str(e)[:80]}"
    if not ok:
        ctx.fail("HybridGibbs:stored:get_samples-raises:scalar-initial-point", desc, "the 7 stored tuples", got,
                 "get_samples() cannot assemble the stored tuples when a block's stored values are a python scalar first and arrays later")
    return None


# ----------------------------------------------------------------------------- entry
def run(ctx):
    cuqi = import_cuqi()
    MARGIN.clear()
    thorough = ctx.tier == "thorough"
    n_h = 60 if not thorough else 60 * min(ctx.scale * 2, 25)
    n_l = 40 if not thorough else 40 * min(ctx.scale * 2, 25)
    stats = {"sampler_hist": {}, "odd_initial_points": {}, "handed_kinds": {}, "tune_intervals": {}, "lstrategy": {}, "get_samples_outcomes": {}, "state_origins": {}, "target_classes": {}}
    ctx.trusted += ["recording proxies of harness/props/c09.py (instance-level wrappers of sampler.step, _store_samples, _get_initial_points; class-level wrapper of JointDistribution._condition, removed after each run)",
                    "JointDistribution.logd of the unconditioned posterior as the reference for the handed targets (C01)"]
    ctx.assumptions += ["block transitions are leaf data: the point after each step() of the real sampler is fed to the model; what the sampler does with its target is the subject of C02/C06/C08/C10",
                        "values are compared exactly (the model only moves values); log-densities with rel+abs tolerance 1e-8 (1e-5 in scenarios with float32 initial points)",
                        "the schedule of the warm-up tuning calls is modelled and compared (Model/C09_tune.lean); what sampler.tune does to step sizes is not modelled",
                        "the structure of the handed targets is compared with Model/C09_target.lean on the model graph read from the user's JointDistribution (name, dim, get_conditioning_variables per density); their values are tied by the numerical oracle only"]
    pending = []

    def guarded(fn, K, i, rs):
        # an exception escaping a scenario (set-up of the joint, the recording proxies meeting an object of
        # unexpected shape) is reported as a failing scenario, not as a failure of the machinery
        try:
            r = fn(ctx, cuqi, i, rs, thorough, stats)
        except Exception as e:
            import traceback
            tb = traceback.format_exc().strip().split("\n")
            ctx.case(f"{K}:scenario-raised", {"iface": K, "scenario": i}, nontrivial=False)
            ctx.fail(f"{K}:crash:scenario", {"iface": K, "scenario": i, "traceback_tail": tb[-6:]},
                     "a well-formed scenario runs", f"raises {type(e).__name__}: {str(e)[:120]}",
                     "setting up or running a well-formed Gibbs scenario raises")
            r = None
        if isinstance(r, list):
            pending.extend(r)
        elif r is not None:
            pending.append(r)
    guarded(lambda *a: corpus_scalar_initial_point(ctx, cuqi), "HybridGibbs", -1, None)
    for i in range(n_h):
        guarded(run_hybrid, "HybridGibbs", i, np.random.RandomState((ctx.seed * 7919 + i * 104729 + 9) % (2 ** 32)))
    for i in range(n_l):
        guarded(run_legacy, "Gibbs", i, np.random.RandomState((ctx.seed * 7919 + i * 104729 + 5000009) % (2 ** 32)))
    n_g = 40 if not thorough else 40 * min(ctx.scale * 2, 25)
    for i in range(n_g):
        guarded(run_graph, "graph", i, np.random.RandomState((ctx.seed * 7919 + i * 104729 + 7000003) % (2 ** 32)))
    n_c = 24 if not thorough else 24 * min(ctx.scale * 2, 25)
    for i in range(n_c):
        guarded(run_single, "HybridGibbs", i, np.random.RandomState((ctx.seed * 7919 + i * 104729 + 13000033) % (2 ** 32)))
    n_k = 30 if not thorough else 30 * min(ctx.scale * 2, 25)
    for i in range(n_k):
        guarded(run_shapes, "HybridGibbs", i, np.random.RandomState((ctx.seed * 7919 + i * 104729 + 11000027) % (2 ** 32)))
    n_s = 40 if not thorough else 40 * min(ctx.scale * 2, 25)
    for i in range(n_s):
        guarded(run_lstrategy, "Gibbs", i, np.random.RandomState((ctx.seed * 7919 + i * 104729 + 9000011) % (2 ** 32)))
    outs = ctx.lean.drive([l for l, _ in pending])
    for (l, cb), out in zip(pending, outs):
        cb(out)
    ctx.extra_cov["c09_stats"] = stats
    ctx.extra_cov["c09_margins"] = {k: {"max_observed_deviation_over_tolerance": float("%.3g" % v["max_ratio"]), "comparisons": v["n"]} for k, v in sorted(MARGIN.items())}
