"""C02 — Metropolis-type kernels accept with exactly the Metropolis-Hastings probability.

Correspondence: every transition of the eight kernels (MH, CWMH, PCN/pCN, MALA in
`cuqi.experimental.mcmc` and `cuqi.sampler`) is run on the real code under a scripted random
stream with every target evaluation recorded, and replayed on the executable Lean model
(`lean/Driver/C02.lean`): accept bit(s), next point, cached log-density / gradient, proposal
point(s) are diffed.

Oracle (implementation only, independent of the model): the MH log-ratio is recomputed from the
raw target functions and from the proposal mechanism *inferred from the recorded draws*
(shift/scale of the Gaussian that produced x*), and the accept bit is compared with
`log u <= min(0, r)`; the uniform draws are placed adaptively just below / just above that
threshold, so a wrong ratio flips a decision.  NaN / -inf proposals must be rejected; rejection
must leave point and caches untouched; acceptance must install the values at x*.
"""
import math
import contextlib
import numpy as np
from fractions import Fraction
from harness.core import import_cuqi, quiet, q, qv, pv, pm, close, vclose

KERNELS = ["expMH", "expCWMH", "expPCN", "expMALA", "legMH", "legCWMH", "legPCN", "legMALA"]



# ----------------------------------------------------------------------------- small helpers
def f1(v):
    """canonical python float of whatever the sampler cached (float, np.float64, 1-element array)"""
    return float(np.asarray(v, dtype=float).ravel()[0])


def xs(v):
    """XVal token of a float"""
    v = float(v)
    if v != v:
        return "nan"
    if v == math.inf:
        return "inf"
    if v == -math.inf:
        return "-inf"
    return q(v)


def xsv(vs):
    return ",".join(xs(v) for v in vs) if len(vs) else "_"


def same_float(a, b):
    a = float(a); b = float(b)
    return (a != a and b != b) or a == b


def tok_eq_float(tok, v):
    """model token (exact) vs implementation float, exact"""
    return tok == xs(v)


def arr(v):
    return np.array(np.asarray(v, dtype=float).ravel(), dtype=float)


# ----------------------------------------------------------------------------- scripted randomness
class Script:
    """Replacement for the numpy global generator functions the samplers use.  Standard-normal
    draws come from a dyadic grid (exact float arithmetic downstream); uniforms come from
    `u_hook` (adaptive placement around the true MH threshold)."""

    def __init__(self, seed, dyadic=True):
        self.rs = np.random.RandomState(seed)
        self.dyadic = dyadic
        self.log = []          # per-step log of draws
        self.u_hook = None

    def _z(self, shape):
        n = int(np.prod(shape)) if shape else 1
        if self.dyadic:
            z = self.rs.randint(-12, 13, size=n) / 4.0
        else:
            z = np.round(self.rs.randn(n) * 1024) / 1024
        return z.reshape(shape) if shape else float(z[0])

    def randn(self, *shape):
        z = self._z(tuple(shape))
        self.log.append(("randn", np.array(z, dtype=float).ravel().copy()))
        return z

    def standard_normal(self, size=None):
        shape = () if size is None else (tuple(size) if hasattr(size, "__len__") else (size,))
        return self.randn(*shape)

    def normal(self, loc=0.0, scale=1.0, size=None):
        shape = () if size is None else (tuple(size) if hasattr(size, "__len__") else (size,))
        z = self._z(shape)
        self.log.append(("normal", arr(loc).copy(), arr(scale).copy(), np.array(z, dtype=float).ravel().copy()))
        return loc + scale * z

    def _u(self):
        u = self.u_hook() if self.u_hook is not None else None
        if u is None:
            u = self.rs.randint(1, 1024) / 1024.0
        self.log.append(("u", float(u)))
        return float(u)

    def rand(self, *shape):
        if not shape:
            return self._u()
        return np.array([self._u() for _ in range(int(np.prod(shape)))]).reshape(shape)

    def uniform(self, low=0.0, high=1.0, size=None):
        shape = () if size is None else (tuple(size) if hasattr(size, "__len__") else (size,))
        u = self.rand(*shape)
        return low + (high - low) * u

    @contextlib.contextmanager
    def installed(self):
        names = ["randn", "standard_normal", "normal", "rand", "uniform"]
        old = {n: getattr(np.random, n) for n in names}
        try:
            for n in names:
                setattr(np.random, n, getattr(self, n))
            yield self
        finally:
            for n, f in old.items():
                setattr(np.random, n, f)


# ----------------------------------------------------------------------------- scenarios (targets)
class Scenario:
    """A target given by raw python functions (the oracle calls these directly; the sampler sees
    them through cuqi wrappers whose every call is recorded)."""

    def __init__(self, name, dim, F, G=None, cls="std", exact=True, prior_mean=None, prior_var=None,
                 prop_mean=None, real=None):
        self.name, self.dim, self.F, self.G = name, dim, F, G
        self.cls, self.exact = cls, exact
        self.prior_mean, self.prior_var = prior_mean, prior_var      # pCN: F is the log-LIKELIHOOD
        self.prop_mean = prop_mean                                    # MH: mean of the proposal
        self.real = real                                              # builder of a real cuqi target
        self.calls = []                                               # (point, value) recorded
        self.gcalls = []
        self.events = None                                            # shared with Script.log: order of queries and uniforms
        self.shared = False                                           # target returns the SAME array object on every call
        self._lbuf = np.zeros(1)
        self._gbuf = np.zeros(dim)

    # recorded wrappers handed to cuqi
    def rec_F(self, x):
        x = arr(x)
        v = self.F(x)
        self.calls.append((x.copy(), v))
        if self.events is not None:
            self.events.append(("q", len(self.calls) - 1))
        if self.shared:
            self._lbuf[0] = v          # preallocated work array, result written in place
            return self._lbuf
        return v

    def rec_G(self, x):
        x = arr(x)
        with np.errstate(all="ignore"):
            g = self.G(x)
        self.gcalls.append((x.copy(), arr(g).copy()))
        if self.shared:
            self._gbuf[:] = g
            return self._gbuf
        return g

    def prior_logd(self, x):
        return -0.5 * float(np.sum((x - self.prior_mean) ** 2 / self.prior_var))

    def post(self, x):
        """log-density the kernel is supposed to target"""
        v = self.F(x)
        if self.prior_mean is not None:
            v = v + self.prior_logd(x)
        return v


def make_scenario(rs, kernel, idx, force_shift=False, flat=False, extreme=None):
    """structured, mostly valid targets; NaN / -inf / +inf regions included"""
    dim = int(rs.choice([1, 1, 2, 2, 3, 4]))
    if kernel.endswith("CWMH"):
        dim = max(dim, 2)        # both CWMH implementations index a 0-d array for dim = 1 (they raise)
    a = rs.choice([0.5, 1.0, 2.0, 4.0], size=dim)
    mu = rs.randint(-2, 3, size=dim).astype(float)
    fam = rs.choice(["quad", "quartic", "support", "support", "posinf"], p=[0.3, 0.2, 0.25, 0.2, 0.05])
    if flat:
        fam = "flat"
    elif kernel.endswith("CWMH") and rs.rand() < 0.5:
        fam = "support"      # invalid proposals at components that are not the last of the sweep
    k0 = int(rs.randint(0, max(1, dim - 1)))   # coordinate carrying the support restriction (never the last one for dim >= 2)
    if extreme:
        fam = extreme if extreme != "quad_plain" else "quad"
    if force_shift:
        fam = "quad"        # DESIGN §5 #12 (and the analogous shifted random-walk proposal): always exercised
    lo = float(rs.choice([-1.0, -0.5, 0.0]))
    hi = float(rs.choice([1.5, 2.0, 3.0]))

    def quad(x):
        return -0.5 * float(np.sum(a * (x - mu) ** 2))

    def gquad(x):
        return -a * (x - mu)

    def quartic(x):
        return -0.25 * float(np.sum((x - mu) ** 4)) - 0.5 * float(np.sum(x[:-1] * x[1:]))

    def gquartic(x):
        g = -(x - mu) ** 3
        g[:-1] += -0.5 * x[1:]
        g[1:] += -0.5 * x[:-1]
        return g

    if fam in ("steep4", "steep6"):
        # steep non-Gaussian targets: |Δ log π| of 1e3…1e6 between neighbouring points at large |x|
        pw = 4 if fam == "steep4" else 6
        F, G = (lambda x: -float(np.sum(x ** pw)) / pw), (lambda x: -(x ** (pw - 1)))
    elif fam == "laplace":
        # piecewise-constant gradient: identical gradients at the current point and at every proposal in the same orthant
        b_ = float(rs.choice([0.5, 1.0, 2.0]))
        F, G = (lambda x: -float(np.sum(np.abs(x))) / b_), (lambda x: -np.sign(x) / b_)
    elif fam == "linhalf":
        # linear log-density on the positive orthant (constant gradient), zero density outside
        F = lambda x: -float(np.sum(a * x)) if np.all(x >= 0) else -math.inf
        G = lambda x: -a * np.ones_like(x)
    elif fam == "kink":
        # log-density finite everywhere, gradient NaN at the origin (0/0)
        def F(x):
            return -float(np.sqrt(np.sum(x ** 2)))
        def G(x):
            with np.errstate(all="ignore"):
                return -x / np.sqrt(np.sum(x ** 2))
    elif fam == "halfsqrt":
        # support x >= 0, gradient -inf on the boundary coordinates, NaN outside
        def F(x):
            return -float(np.sum(np.sqrt(x))) - 0.5 * float(np.sum(x ** 2)) if np.all(x >= 0) else -math.inf
        def G(x):
            with np.errstate(all="ignore"):
                return -0.5 / np.sqrt(x) - x
    elif fam in ("bigstate", "tinystate"):
        # state magnitude 1e3..1e6 (resp. 1e-4) with steps 1e-3 (resp. 1e-9): tolerance-based "did it move" tests show up
        mag = float(rs.choice([1e3, 1e4, 1e6])) if fam == "bigstate" else 1e-4
        cen = mag * rs.choice([-1.0, 1.0], size=dim)
        wid = 1e-2 if fam == "bigstate" else 1e-8
        F, G = (lambda x: -0.5 * float(np.sum(((x - cen) / wid) ** 2))), (lambda x: -(x - cen) / wid ** 2)
    elif fam == "huge":
        K = float(rs.choice([1e3, 1e4, 1e6]))
        F, G = (lambda x: -0.5 * K * float(np.sum((x - mu) ** 2))), (lambda x: -K * (x - mu))
    elif fam == "flat":
        eps_ = float(rs.choice([0.0, 0.0, 1.0 / 64]))
        F, G = (lambda x: -eps_ * float(np.sum(x ** 2))), (lambda x: -2 * eps_ * x)
    elif fam == "quad":
        F, G = quad, gquad
    elif fam == "quartic":
        F, G = quartic, gquartic
    elif fam == "support":
        def F(x):
            if x[k0] < lo:
                return -math.inf
            if x[k0] > hi:
                return math.nan
            return quad(x)
        G = gquad
    else:
        def F(x):
            if x[0] > hi + 1:
                return math.inf
            if x[0] < lo - 1:
                return -math.inf
            return quad(x)
        G = gquad
    sc = Scenario(f"{fam}{idx}", dim, F, G)
    sc.fam = fam
    if fam in ("bigstate", "tinystate"):
        sc.center, sc.width = cen, wid
    if kernel.endswith("PCN"):
        nz = rs.rand() < 0.25 or force_shift
        sc.prior_mean = rs.randint(-2, 3, size=dim).astype(float) if nz else np.zeros(dim)
        if nz and not np.any(sc.prior_mean):
            sc.prior_mean[0] = 1.0
        sc.prior_var = rs.choice([0.25, 1.0, 4.0], size=dim) if rs.rand() < 0.5 else np.full(dim, float(rs.choice([0.25, 1.0, 4.0])))
        if nz:
            sc.cls = "prior-mean-nonzero"
    if kernel.endswith("MH") and not kernel.endswith("CWMH") and (rs.rand() < 0.15 or force_shift):
        sc.prop_mean = rs.randint(-2, 3, size=dim).astype(float)
        if not np.any(sc.prop_mean):
            sc.prop_mean[0] = 1.0
        sc.cls = "proposal-mean-nonzero"
    return sc


def make_real_scenario(cuqi, rs, kernel, idx):
    """real cuqi targets (Gaussian, linear-Gaussian posterior): non-dyadic values, float tolerance"""
    dim = int(rs.choice([1, 2, 3]))
    if kernel.endswith("CWMH"):
        dim = max(dim, 2)
    A = np.round(rs.randn(dim, dim) * 4) / 4 + np.eye(dim)
    data = rs.randint(-2, 3, size=dim).astype(float)
    nvar = float(rs.choice([0.3, 0.7, 1.0]))
    pvar = float(rs.choice([0.5, 1.0, 2.0]))

    def build():
        model = cuqi.model.LinearModel(A)
        lik = cuqi.distribution.Gaussian(model, nvar).to_likelihood(data)
        prior = cuqi.distribution.Gaussian(np.zeros(dim), pvar)
        return cuqi.distribution.Posterior(lik, prior), lik, prior

    def loglik(x):
        r = A @ x - data
        return -0.5 * dim * math.log(2 * math.pi * nvar) - 0.5 * float(r @ r) / nvar

    def logprior(x):
        return -0.5 * dim * math.log(2 * math.pi * pvar) - 0.5 * float(x @ x) / pvar

    def gpost(x):
        return -(A.T @ (A @ x - data)) / nvar - x / pvar

    if kernel.endswith("PCN"):
        sc = Scenario(f"linpost{idx}", dim, loglik, None, exact=False, prior_mean=np.zeros(dim),
                      prior_var=np.full(dim, pvar), real=build)
        # prior_logd of Scenario omits the normalising constant: irrelevant in differences
    else:
        sc = Scenario(f"linpost{idx}", dim, lambda x: loglik(x) + logprior(x), gpost, exact=False, real=build)
    sc.fam = "linpost"
    return sc


# ----------------------------------------------------------------------------- transition records
class T:
    """one transition as observed on the implementation"""
    def desc(self):
        return {"kernel": self.kernel, "target": self.sc.name, "class": self.sc.cls, "history": self.hist, "step": self.step,
                "x": [float(v) for v in self.x], "cached_logd": repr(self.logd), "scale": [float(v) for v in self.scale],
                "u": [float(u) for u in self.us],
                "proposals": [[float(v) for v in p] for p, _ in self.queries],
                "prior_draw": None if getattr(self, "xi", None) is None else [float(v) for v in self.xi],
                "inferred_mechanism": getattr(self, "mech", None),
                "accept_bits": getattr(self, "acc", None),
                "values_at_proposals": [repr(float(v)) for _, v in self.queries]}


def true_ratio_single(t, xstar):
    """MH log-ratio for the proposal mechanism actually used (parameters inferred from the
    recorded draws), from the raw target functions.  Returns (r, fx, fy) or None if the mechanism
    cannot be identified."""
    sc = t.sc
    x = t.x
    fx, fy = sc.post(x), sc.post(xstar)
    k = t.kernel
    if k in ("expMH", "legMH"):
        # x* = x + s*xi, xi ~ N(m, I)  =>  q(y|x) = N(y; x + s m, s² I)
        s = float(t.scale[0])
        m = sc.prop_mean if sc.prop_mean is not None else np.zeros(sc.dim)
        if s == 0:
            return None
        lq_fwd = -0.5 * float(np.sum((xstar - x - s * m) ** 2)) / s ** 2
        lq_bwd = -0.5 * float(np.sum((x - xstar - s * m) ** 2)) / s ** 2
        return fy - fx + lq_bwd - lq_fwd, fx, fy
    if k in ("expPCN", "legPCN"):
        # x* = a x + lam xi, xi ~ N(m, C): q(y|x) = N(y; a x + lam m, lam² C).  (a, lam) are inferred from
        # the recorded draw and points, NOT taken from the sampler's attributes.
        xi = t.xi
        s_ = float(t.scale[0])
        a = lam = None
        if not (np.all(np.isfinite(xstar)) and np.all(np.isfinite(xi)) and np.all(np.isfinite(x))):
            return None          # e.g. scale > 1: np.sqrt(1 - s²) is NaN and so is every proposal coordinate
        M = np.stack([x, xi], axis=1)
        c_nom0 = math.sqrt(max(0.0, 1 - s_ * s_))
        scale_x = float(np.max(np.abs(xstar))) if len(xstar) else 0.0
        if np.allclose(c_nom0 * x + s_ * xi, xstar, rtol=0, atol=max(8e-16, 4 * getattr(t, "wtol", 0.0) if getattr(t, "wtol", 0.0) > 1e-12 else 0.0) * (scale_x + float(np.max(np.abs(s_ * xi))) + 1e-300)):
            # the recorded points are reproduced to rounding by the prior-reversible pair (sqrt(1-s²), s):
            # take it (solving a 2-parameter fit is ill-conditioned when |s xi| << |x|)
            a, lam = c_nom0, s_
        elif sc.dim >= 2 and np.linalg.matrix_rank(M) == 2:
            sol = np.linalg.lstsq(M, xstar, rcond=None)[0]
            a, lam = float(sol[0]), float(sol[1])
        else:
            # one equation, two unknowns (dim 1 / collinear): candidates in order of plausibility
            i = int(np.argmax(np.abs(xi)))
            cands = []
            c_nom = math.sqrt(max(0.0, 1 - s_ * s_))
            if x[i] != 0:
                cands.append(((xstar[i] - s_ * xi[i]) / x[i], s_))            # noise factor = scale
            if xi[i] != 0:
                cands.append((c_nom, (xstar[i] - c_nom * x[i]) / xi[i]))      # contraction = sqrt(1-scale²)
            for (ca, cl) in cands:
                if abs(ca * ca + cl * cl - 1) < 1e-9:
                    a, lam = float(ca), float(cl); break
            if a is None and len(cands) == 2:
                a, lam = float(cands[1][0]), float(cands[1][1])
            elif a is None and cands:
                a, lam = float(cands[0][0]), float(cands[0][1])
        if a is None or lam == 0 or not np.allclose(a * x + lam * xi, xstar, rtol=1e-9, atol=1e-12):
            return None
        t.mech = {"a": a, "lambda": lam, "a2+lambda2": a * a + lam * lam}
        t.cond = (float(np.max(np.abs(x))) + float(np.max(np.abs(xstar)))) / max(abs(lam) * float(np.min(np.sqrt(sc.prior_var))), 1e-300)
        m, C = sc.prior_mean, sc.prior_var
        lq_fwd = -0.5 * float(np.sum((xstar - a * x - lam * m) ** 2 / C)) / lam ** 2
        lq_bwd = -0.5 * float(np.sum((x - a * xstar - lam * m) ** 2 / C)) / lam ** 2
        return fy - fx + lq_bwd - lq_fwd, fx, fy
    if k in ("expMALA", "legMALA"):
        # x* = x + drift + sigma z.  The forward mean x + drift is known from the draw whatever produced it;
        # the backward mean is y + c g(y) with the coefficient c identified on the finite non-zero entries of
        # g(x) (Langevin value sigma²/2 when none is usable).  Nothing is taken from the sampler's attributes.
        sig = float(t.sigma)
        if sig == 0 or not np.all(np.isfinite(xstar)):
            return None
        with np.errstate(all="ignore"):
            gx = arr(sc.G(x)); gy = arr(sc.G(xstar))
        if not np.all(np.isfinite(gy)):
            return None
        drift = xstar - x - sig * t.z
        m = np.isfinite(gx) & (gx != 0)
        c0 = 0.5 * sig * sig
        big = float(np.max(np.abs(xstar))) + float(np.max(np.abs(x)))
        t.cond = big / sig
        if np.all(np.isfinite(gx)) and np.allclose(x + c0 * gx + sig * t.z, xstar, rtol=0, atol=max(8e-16, 4 * getattr(t, "wtol", 0.0) if getattr(t, "wtol", 0.0) > 1e-12 else 0.0) * (big + float(np.max(np.abs(c0 * gx))) + 1e-300)):
            # reproduced to rounding by the Langevin pair (drift coefficient sigma²/2): take it (the observed
            # drift x* - x - sigma z is below the resolution of x when the step is tiny relative to the state)
            c = c0
            drift = c0 * gx
        elif np.any(m):
            c = float(drift[m] @ gx[m]) / float(gx[m] @ gx[m])
            if not np.allclose(c * gx[m], drift[m], rtol=1e-9, atol=1e-12 * (1 + float(np.max(np.abs(x))))):
                return None
        else:
            c = 0.5 * sig * sig
        z0 = np.isfinite(gx) & (gx == 0)
        if np.any(z0) and not np.allclose(drift[z0], 0.0, atol=1e-9 * (1 + float(np.max(np.abs(x))))):
            return None
        t.mech = {"drift_coefficient": c, "observed_drift": [float(v) for v in drift],
                  "gradient_at_x_finite": bool(np.all(np.isfinite(gx)))}
        lq_fwd = -0.5 * float(np.sum(t.z ** 2))            # x* - (x + drift) = sigma z by construction
        lq_bwd = -0.5 * float(np.sum((x - xstar - c * gy) ** 2)) / sig ** 2
        return fy - fx + lq_bwd - lq_fwd, fx, fy
    return None


def demanded(ell, r, fx, fy, slack=0.0):
    """what the property demands of the accept bit: 1, 0 or None (silent / too close to call)"""
    if fy != fy or fy == -math.inf:
        return 0
    if fy == math.inf or fx != fx or fx == math.inf:
        return None
    if fx == -math.inf:
        return 1        # any finite-density proposal from a zero-density state: MH probability 1
    if r != r:
        return None
    thr = min(0.0, r)
    if ell == -math.inf:
        return 1
    if abs(ell - thr) <= 1e-8 * (1.0 + abs(thr)) + 10 * slack:        # silent zone: >= 1e7 x the rounding noise of the ratio
        return None
    return 1 if ell <= thr else 0


# ----------------------------------------------------------------------------- adaptive uniforms
class UHook:
    """chooses each uniform after the proposal has been evaluated: mostly just below / above the
    true acceptance threshold exp(min(0, r))"""

    def __init__(self, rs, forced=None):
        self.rs = rs
        self.t = None
        self.modes = {}
        self.forced = forced

    def ratio_now(self):
        t = self.t
        sc = t.sc
        if not sc.calls:
            return None
        xstar = sc.calls[-1][0]
        if t.kernel.endswith("CWMH"):
            j = len(t.us)
            if j >= sc.dim:
                return None
            xt = xstar.copy(); xt[j] = t.x[j]
            fx, fy = sc.post(xt), sc.post(xstar)
            return fy - fx, fx, fy
        if t.kernel.endswith("MALA"):
            nd = [d for d in t.draws if d[0] == "normal"]
            if not nd:
                return None
            t.sigma = float(nd[-1][2][0]); t.z = nd[-1][3]
        if t.kernel.endswith("PCN"):
            if not sc._xi:
                return None
            t.xi = sc._xi[-1]
        return true_ratio_single(t, xstar)

    def __call__(self):
        t = self.t
        if t is None:
            return None
        if self.forced is not None:
            t.us.append(self.forced)
            return self.forced
        mode = self.rs.choice(["grid", "below", "above", "far", "zero", "top", "between", "tiny"], p=[0.13, 0.25, 0.25, 0.1, 0.04, 0.06, 0.12, 0.05])
        u = None
        try:
            rr = self.ratio_now()
        except Exception:
            rr = None
        if rr is not None and self.rs.rand() < 0.6 and t.sc.calls and not t.kernel.endswith("CWMH"):
            # the plain difference (value at proposal - cached value) is not the MH log-ratio of the
            # mechanism actually realised: look for a uniform between the two thresholds
            rp = t.sc.calls[-1][1] - t.logd
            if rp == rp and rr[0] == rr[0] and abs(rp) != math.inf and abs(rr[0]) != math.inf \
                    and abs(min(0.0, rp) - min(0.0, rr[0])) > 1e-6:
                mode = "between"
        if mode == "between":
            # search device: a uniform strictly between the true threshold and the threshold of the
            # plain difference (value at proposal - cached value); flips the decision iff they differ
            u = None
            if rr is not None and t.sc.calls:
                cur = t.logd if not t.kernel.endswith("CWMH") else None
                if cur is None:
                    j = len(t.us); xt = t.sc.calls[-1][0].copy(); xt[j] = t.x[j]; cur = t.sc.F(xt)
                r_plain = t.sc.calls[-1][1] - cur
                r_true = rr[0]
                if r_plain == r_plain and r_true == r_true and abs(r_plain) != math.inf and abs(r_true) != math.inf:
                    a, b = min(0.0, r_plain), min(0.0, r_true)
                    if abs(a - b) > 1e-6 and max(a, b) > -700:
                        u = math.exp(0.5 * (max(a, -700) + max(b, -700)))
        elif mode == "zero":
            u = 0.0
        elif mode == "top":
            u = 1.0 - 2.0 ** -int(self.rs.randint(2, 40))
        elif mode == "tiny":
            u = 10.0 ** -int(self.rs.randint(3, 300))
        elif mode in ("below", "above", "far") and rr is not None:
            r = rr[0]
            if r == r and abs(r) != math.inf and r < 0 and r > -700:
                delta = float(self.rs.choice([1e-6, 1e-4, 1e-2])) if mode != "far" else 0.5
                u = math.exp(r) * (1 - delta if mode == "below" else 1 + delta)
                if mode == "far":
                    u = math.exp(r) * float(self.rs.choice([0.5, 2.0]))
                u = min(u, 1.0 - 2.0 ** -30)
        if u is None:
            mode = "grid"
            u = self.rs.randint(1, 1024) / 1024.0
        self.modes[mode] = self.modes.get(mode, 0) + 1
        t.us.append(u)
        return u


# ----------------------------------------------------------------------------- running the implementation
def cp(x0):
    return list(x0) if isinstance(x0, list) else x0.copy()


def build_target(cuqi, kernel, sc):
    """recorded wrappers of the scenario's target as a cuqi object"""
    D = cuqi.distribution
    if getattr(sc, "bounds", None) is not None and not kernel.endswith("PCN"):
        low, high = sc.bounds
        if sc.bounds_kind == "uniform":
            class _RecUniform(D.Uniform):                         # the real bounded-support distribution, sampled directly;
                def logpdf(self_, x):                             # call-through recorder as a METHOD (callable instance attributes
                    v = D.Uniform.logpdf(self_, x)                # would be taken for conditioning variables)
                    sc.calls.append((arr(x).copy(), f1(v)))
                    if sc.events is not None:
                        sc.events.append(("q", len(sc.calls) - 1))
                    return v
            target = _RecUniform(low.copy(), high.copy())
        else:
            target = D.UserDefinedDistribution(dim=sc.dim, logpdf_func=sc.rec_F, gradient_func=sc.rec_G)
            target.low, target.high = low.copy(), high.copy()     # user object exposing its box bounds
        return target
    if sc.real is not None:
        post, lik, prior = sc.real()
        # record through thin wrappers of the real objects' methods (call-through)
        if kernel.endswith("PCN"):
            orig = lik.logd
            def rec(x, _o=orig):
                v = _o(x); sc.calls.append((arr(x).copy(), f1(v)))
                if sc.events is not None:
                    sc.events.append(("q", len(sc.calls) - 1))
                return v
            lik.logd = rec
            target = post
            sc._prior = prior
        else:
            orig, origg = post.logd, post.gradient
            def rec(x, _o=orig):
                v = _o(x); sc.calls.append((arr(x).copy(), f1(v)))
                if sc.events is not None:
                    sc.events.append(("q", len(sc.calls) - 1))
                return v
            def recg(x, _o=origg):
                g = _o(x); sc.gcalls.append((arr(x).copy(), arr(g).copy())); return g
            post.logd = rec; post.gradient = recg
            target = post
    elif kernel.endswith("PCN"):
        lik = cuqi.likelihood.UserDefinedLikelihood(dim=sc.dim, logpdf_func=sc.rec_F)
        pv_ = sc.prior_var
        prior = D.Gaussian(sc.prior_mean.copy(), pv_.copy() if len(set(pv_)) > 1 else float(pv_[0]))
        sc._prior = prior
        target = cuqi.distribution.Posterior(lik, prior) if kernel == "expPCN" or sc.dim % 2 == 0 else (lik, prior)
    else:
        target = D.UserDefinedDistribution(dim=sc.dim, logpdf_func=sc.rec_F, gradient_func=sc.rec_G)
    if kernel.endswith("PCN"):
        # record the prior draw (call-through)
        prior = sc._prior
        osample = prior.sample
        def rsample(*a, **kw):
            s = osample(*a, **kw)
            sc._xi.append(arr(s).copy())
            return s
        prior.sample = rsample
        sc._xi = []
    return target


def build_sampler(cuqi, kernel, sc, scale, x0, rng=None):
    """real sampler on recorded wrappers of the scenario's target"""
    D = cuqi.distribution
    target = build_target(cuqi, kernel, sc)
    E, L = cuqi.experimental.mcmc, cuqi.sampler
    prop = None
    if sc.prop_mean is not None:
        prop = D.Gaussian(sc.prop_mean.copy(), 1)
    if kernel == "expMH":
        return E.MH(target, proposal=prop, scale=scale, initial_point=x0)
    if kernel == "expCWMH":
        return E.CWMH(target, scale=scale, initial_point=x0)
    if kernel == "expPCN":
        return E.PCN(target, scale=scale, initial_point=x0)
    if kernel == "expMALA":
        return E.MALA(target, scale=scale, initial_point=x0)
    if kernel == "legMH":
        return L.MH(target, proposal=prop, scale=scale, x0=x0)
    if kernel == "legCWMH":
        return L.CWMH(target, scale=scale, x0=x0)
    if kernel == "legPCN":
        return L.pCN(target, scale=scale, x0=x0)
    if kernel == "legMALA":
        return L.MALA(target, scale=scale, x0=x0, rng=rng)
    raise ValueError(kernel)


def exp_snapshot(kernel, s):
    x = arr(s.current_point).copy()
    logd = f1(s.current_likelihood_logd if kernel == "expPCN" else s.current_target_logd)
    grad = arr(s.current_target_grad).copy() if kernel == "expMALA" else np.zeros(0)
    scale = arr(s.scale).copy()
    return x, logd, grad, scale


def finish_T(t, script):
    sc = t.sc
    t.draws = list(script.log)
    t.queries = list(sc.calls)
    t.gqueries = list(sc.gcalls)
    k = t.kernel
    if k.endswith("PCN"):
        t.xi = sc._xi[-1] if sc._xi else None
    elif k in ("expMH", "legMH"):
        rn = [d for d in t.draws if d[0] == "randn"]
        if rn:
            m = sc.prop_mean if sc.prop_mean is not None else 0.0
            t.xi = m + rn[-1][1]
    elif k.endswith("MALA") or k.endswith("CWMH"):
        nd = [d for d in t.draws if d[0] == "normal"]
        if nd:
            t.sigma = nd[-1][2]; t.z = nd[-1][3]
            if k.endswith("MALA"):
                t.sigma = float(t.sigma[0])


def new_T(kernel, sc, hist, step, x, logd, grad, scale, script, hook):
    t = T()
    t.kernel, t.sc, t.hist, t.step = kernel, sc, hist, step
    t.x, t.logd, t.grad, t.scale = x, logd, grad, scale
    t.us, t.draws, t.queries, t.gqueries = [], [], [], []
    t.xi = t.sigma = t.z = None
    t.int_dtype = False
    t.f32 = False
    t.wtol = 1e-12
    sc.calls.clear(); sc.gcalls.clear(); script.log.clear()
    sc.events = script.log
    if kernel.endswith("PCN"):
        sc._xi.clear()
    hook.t = t
    return t


def snap(x0):
    return (type(x0).__name__, np.array(x0, dtype=float, copy=True).tobytes())


def run_exp(cuqi, kernel, sc, hist, nsteps, scale, x0, script, hook, out, sc2=None):
    x0_before = snap(x0)
    with quiet(), script.installed():
        s = build_sampler(cuqi, kernel, sc, scale, x0)
        s0 = s
        hook.t = None
        s.initialize()
        if hist == "warmup":
            s.warmup(12, tune_freq=0.25)
        elif hist in ("warmup-long", "warmup-reload"):
            s.warmup(40, tune_freq=0.1)          # 10 tuning updates: on flat targets the uncapped tuning variable passes 1
        if hist in ("reload", "warmup-reload"):
            if hist == "reload":
                s.sample(3)
            state = s.get_state()
            old_post = exp_snapshot(kernel, s)
            s2 = build_sampler(cuqi, kernel, sc, 0.3 if not kernel.endswith("CWMH") else scale, np.zeros(sc.dim) + 0.5)
            s2.initialize()
            s2.set_state(state)
            s = s2
            new_pre = exp_snapshot(kernel, s)
            out.append(("reload", kernel, sc, old_post, new_pre))
        elif hist == "retarget":
            # same sampler object, new target: caches must belong to the CURRENT target after reinitialize()
            s.sample(3)
            sc = sc2
            s.target = build_target(cuqi, kernel, sc)
            s.reinitialize()
        elif hist == "warmup-sample-warmup":
            s.warmup(8, tune_freq=0.25); s.sample(2); s.warmup(8, tune_freq=0.25)      # repeated phases
        elif hist == "warmup1":
            s.warmup(1)                                                                # phase of length exactly 1
        elif hist == "rescale":
            # option re-assigned after first use: the kernel must use the CURRENT scale consistently
            s.sample(3)
            s.scale = (np.asarray(s.scale) * 0.5) if kernel.endswith("CWMH") else float(np.asarray(s.scale).ravel()[0]) * 0.5
        elif hist == "rescale-up":
            s.sample(2)
            s.scale = 1.5                     # pCN: 1 - scale² < 0 from now on
        elif hist == "repoint-new":
            s.sample(3)
            s.initial_point = np.asarray(s.initial_point, dtype=float) * 0 + np.arange(1, sc.dim + 1) / 2.0
            s.reinitialize()
        elif hist == "repoint-inplace":
            s.sample(3)
            ip = s.initial_point
            if isinstance(ip, np.ndarray) and ip.dtype == np.float64 and ip.flags.writeable:
                x0_before = None                              # the harness itself edits the caller's array here
                ip[:] = np.arange(1, sc.dim + 1) / 2.0        # same object, mutated in place
            else:
                s.initial_point = np.arange(1, sc.dim + 1) / 2.0
            s.reinitialize()
        # run through the public sample() loop with step() recorded (call-through)
        orig_step = s.step
        recs = []

        def wstep():
            x, logd, grad, sca = exp_snapshot(kernel, s)
            t = new_T(kernel, sc, hist, len(recs), x, logd, grad, sca, script, hook)
            t.int_dtype = bool(np.issubdtype(np.asarray(s.current_point).dtype, np.integer) or np.asarray(s.current_point).dtype == np.bool_)
            t.f32 = np.asarray(s.current_point).dtype == np.float32
            t.wtol = {"float32": 1e-6, "float16": 2e-3}.get(str(np.asarray(s.current_point).dtype), 1e-12)
            acc = orig_step()
            hook.t = None
            finish_T(t, script)
            t.x1, t.logd1, t.grad1, _ = exp_snapshot(kernel, s)
            t.acc = [int(a) for a in np.atleast_1d(acc)]
            recs.append(t)
            return acc
        s.step = wstep
        n0 = len(s._samples)
        s.sample(nsteps)
        stored = [arr(v) for v in s._samples[n0:]]
        got = s.get_samples().samples
    for t in recs:
        out.append(("T", t))
    if x0_before is not None and hist not in ("repoint-new",):
        out.append(("caller-x0", kernel, sc, x0_before, snap(x0)))
    out.append(("stored", kernel, sc, recs, stored, np.asarray(got)[:, n0:] if np.asarray(got).ndim == 2 else None))


_RNG_TOGGLE = [0]


def run_leg(cuqi, kernel, sc, hist, nsteps, scale, x0, script, hook, out):
    x0_before = snap(x0)
    with quiet(), script.installed():
        # optional `rng` argument of legacy ULA/MALA: a generator object with the same scripted stream
        if kernel == "legMALA" and not hasattr(sc, "use_rng"):
            _RNG_TOGGLE[0] += 1
            sc.use_rng = _RNG_TOGGLE[0] % 2 == 0
        s = build_sampler(cuqi, kernel, sc, scale, x0, rng=(script if getattr(sc, "use_rng", False) else None))
        hook.t = None
        orig = s.single_update
        recs = []
        counter = [0]

        def wrapped(*args):
            x = arr(args[0]).copy()
            logd = f1(args[1])
            grad = arr(args[2]).copy() if kernel == "legMALA" else np.zeros(0)
            t = new_T(kernel, sc, hist, counter[0], x, logd, grad, arr(s.scale).copy(), script, hook)
            counter[0] += 1
            res = orig(*args)
            hook.t = None
            finish_T(t, script)
            t.x1 = arr(res[0]).copy()
            t.logd1 = f1(res[1])
            t.grad1 = arr(res[2]).copy() if kernel == "legMALA" else np.zeros(0)
            t.acc = [int(a) for a in np.atleast_1d(res[-1])]
            recs.append(t)
            return res
        s.single_update = wrapped
        if hist == "adapt":
            res = s.sample_adapt(nsteps + 1 - 2, 2)        # N + Nb = nsteps + 1 states
            nb = 2
        elif hist.startswith("burnin"):
            nb = int(hist[6:] or 2)                        # non-adaptive sampling WITH burn-in: sample(N, Nb), Nb > 0
            res = s.sample(nsteps + 1 - nb, nb)
        else:
            res = s.sample(nsteps + 1)
            nb = 0
    out.append(("caller-x0", kernel, sc, x0_before, snap(x0)))
    # returned chain: column c is samples[:, nb + c], i.e. the result of transition nb + c - 1
    chain = np.asarray(res.samples)
    if kernel != "legCWMH" and chain.ndim == 2:     # legacy CWMH overwrites the stored previous column through a view (C14 finding): not judged here
        pairs = [(c, nb + c - 1) for c in range(chain.shape[1]) if 0 <= nb + c - 1 < len(recs)]
        out.append(("stored", kernel, sc, [recs[i] for _, i in pairs], None, chain[:, [c for c, _ in pairs]]))
    for i, t in enumerate(recs):
        out.append(("T", t))
        if i > 0:
            out.append(("chain", kernel, sc, recs[i - 1], t))


# ----------------------------------------------------------------------------- model lines
def model_line(t):
    k = t.kernel
    if not t.queries:
        return None
    if k in ("expMH", "legMH"):
        if t.xi is None or len(t.us) != 1:
            return None
        return f"mh {k} {qv(t.x)} {xs(t.logd)} {q(t.scale[0])} {qv(t.xi)} {xs(math.log(t.us[0]) if t.us[0] > 0 else -math.inf)} {xs(t.queries[0][1])}"
    if k in ("expPCN", "legPCN"):
        if t.xi is None or len(t.us) != 1:
            return None
        s = float(t.scale[0])
        if s * s > 1:
            # np.sqrt(1 - s²) is NaN: all-NaN proposal (model: pcnNanStep)
            return f"pcnx {k} {xs(t.logd)} {q(s)} {xs(math.log(t.us[0]) if t.us[0] > 0 else -math.inf)} {xs(t.queries[0][1])}"
        c = float(np.sqrt(1 - s ** 2))
        return f"pcn {k} {qv(t.x)} {xs(t.logd)} {q(s)} {q(c)} {qv(t.xi)} {xs(math.log(t.us[0]) if t.us[0] > 0 else -math.inf)} {xs(t.queries[0][1])}"
    if k in ("expMALA", "legMALA"):
        if t.z is None or len(t.us) != 1 or not t.gqueries:
            return None
        if not (np.all(np.isfinite(t.grad)) and np.all(np.isfinite(t.gqueries[0][1]))):
            return "skip"        # the model takes finite gradients only (stated assumption); the oracle still judges the transition
        return (f"mala {k} {qv(t.x)} {xs(t.logd)} {qv(t.grad)} {q(t.scale[0])} {q(t.sigma)} {qv(t.z)} "
                f"{xs(math.log(t.us[0]) if t.us[0] > 0 else -math.inf)} {xs(t.queries[0][1])} {qv(t.gqueries[0][1])}")
    if k in ("expCWMH", "legCWMH"):
        d = t.sc.dim
        if t.z is None or len(t.us) != d or len(t.queries) != d:
            return None
        ells = [math.log(u) if u > 0 else -math.inf for u in t.us]
        return (f"cw {k} {qv(t.x)} {xs(t.logd)} {qv(t.scale)} {qv(t.z)} {xsv(ells)} {xsv([v for _, v in t.queries])} "
                f"{'int' if t.int_dtype else 'float'}")
    return None


def np_log(u):
    with np.errstate(divide="ignore"):
        return float(np.log(u))


# ----------------------------------------------------------------------------- oracle on one transition
def oracle(ctx, t, stats):
    """property-level verdicts on the implementation alone; returns list of failing keys"""
    sc, k = t.sc, t.kernel
    base = f"{k}:{sc.cls}"
    fails = []

    def fail(what, demanded_, got, msg):
        key = f"{base}:{what}"
        ctx.fail(key, t.desc(), demanded_, got, msg)
        fails.append(key)

    if k.endswith("CWMH"):
        d = sc.dim
        # align target evaluations and uniforms from the order in which they happened
        comps = []                       # (query index, uniform or None)
        for ev in t.draws:
            if ev[0] == "q":
                comps.append([ev[1], None])
            elif ev[0] == "u" and comps and comps[-1][1] is None:
                comps[-1][1] = ev[1]
        nd = [dr for dr in t.draws if dr[0] == "normal"]
        drawn = (nd[-1][1] + nd[-1][2] * nd[-1][3]) if nd else None
        if drawn is not None and drawn.shape != (d,):
            drawn = None
        if len(t.acc) != d or len(comps) > d or (len(comps) < d and drawn is None):
            stats["cw-shape-unknown"] = stats.get("cw-shape-unknown", 0) + 1
            return fails
        xt = t.x.copy()
        cur = sc.post(xt)
        point_failed = trunc_failed = skip_failed = False
        ci = 0
        for j in range(d):
            # does the next evaluation belong to component j?  (a component may have been passed over
            # without evaluating the target; it is then identified through the recorded proposal draw)
            has_q = ci < len(comps)
            if has_q and len(comps) < d and drawn is not None:
                qp = t.queries[comps[ci][0]][0]
                if not close(qp[j], drawn[j], 1e-6) and any(close(qp[jj], drawn[jj], 1e-6) and qp[jj] != xt[jj] for jj in range(j + 1, d)):
                    has_q = False
            if not has_q:
                a = t.acc[j]
                if drawn is not None and drawn[j] != xt[j]:
                    expect = xt.copy(); expect[j] = drawn[j]
                    fy = sc.post(expect)
                    if a == 0 and fy == fy and abs(fy) != math.inf and (cur == cur and cur != math.inf) and not skip_failed:
                        skip_failed = True
                        r_ = fy - cur
                        fail("component-skipped", {"component": j, "acceptance_probability": "min(1, exp(%r))" % r_},
                             {"component": j, "acceptance_probability": 0, "target_evaluated": False},
                             f"component {j}: the drawn proposal coordinate {float(drawn[j])!r} differs from the current one {float(xt[j])!r} but was "
                             f"rejected without evaluating the target or drawing a uniform; its MH probability is min(1, exp({r_!r})) > 0")
                if a == 1 and drawn is not None:
                    xt[j] = drawn[j]; cur = sc.post(xt)
                continue
            qpt, qval = t.queries[comps[ci][0]]
            u = comps[ci][1]
            ci += 1
            # each inner iteration must be an MH step whose proposal differs from the CURRENT state in
            # coordinate j only (one-coordinate proposal centred at the current coordinate)
            expect = xt.copy(); expect[j] = qpt[j]
            if drawn is not None and not trunc_failed and not close(qpt[j], drawn[j], max(1e-6, t.wtol)):
                trunc_failed = True
                fail("proposal-truncated", float(drawn[j]), float(qpt[j]),
                     f"component {j}: the coordinate evaluated/stored is not the drawn proposal coordinate (altered by the dtype of the "
                     "work vector); the chain then lives on a lattice and the proposal is not the symmetric random walk")
            if not np.array_equal(qpt, expect, equal_nan=True) and not point_failed:
                point_failed = True
                fail("component-point", {"component": j, "evaluated_at": [float(v) for v in expect]},
                     {"component": j, "evaluated_at": [float(v) for v in qpt]},
                     f"component {j}: the target was evaluated at a point that differs from the current state in other coordinates "
                     "than its own (contaminated work vector); the accept test is then not the MH test of a one-coordinate proposal")
            fy = sc.post(expect)
            a = t.acc[j]
            if u is None:
                dem = 0 if (fy != fy or fy == -math.inf) else None      # no uniform drawn: only an invalid proposal may be judged
                ell = None
            else:
                ell = np_log(u)
                dem = demanded(ell, fy - cur, cur, fy)
            if fy != fy and a == 1:
                fail("accept-nan", 0, 1, "a component proposal whose target log-density is NaN was accepted")
            elif fy == -math.inf and a == 1:
                why = "u0" if u == 0 else ("from-neginf" if cur == -math.inf else ("from-nan" if cur != cur else "other"))
                fail(f"accept-neginf:{why}", 0, 1, "a component proposal whose target log-density is -inf was accepted")
            elif dem is not None and a != dem:
                fail("decision", dem, a, f"component {j}: accept bit differs from [log u <= min(0, log MH ratio)] for the one-coordinate proposal "
                                         f"(log u={ell!r}, log ratio={fy - cur!r})")
            if dem is not None:
                stats["decisions"] = stats.get("decisions", 0) + 1
            if a == 1:
                xt[j] = qpt[j]; cur = sc.post(xt)
        if not np.array_equal(t.x1, xt):
            fail("frame", [float(v) for v in xt], [float(v) for v in t.x1], "next point is not the current point with exactly the accepted components replaced")
        else:
            c1 = sc.post(t.x1)
            if not (same_float(t.logd1, c1) or close(t.logd1, c1, 1e-9)):
                fail("cache", repr(c1), repr(t.logd1), "cached log-density after the sweep is not the log-density of the new point")
        return fails

    if not t.queries or len(t.us) != 1:
        return fails
    xstar, val = t.queries[0]
    if k in ("expMH", "legMH") and t.xi is not None and len(t.xi) == len(t.x) and np.all(np.isfinite(t.xi)) and np.all(np.isfinite(t.x)):
        # the random-walk kernels accept with the SYMMETRIC ratio: the point evaluated must be x + scale*xi for the recorded draw
        want = t.x + float(t.scale[0]) * t.xi
        tol_ = max(1e-12, 4 * t.wtol) * (1.0 + float(np.max(np.abs(want))))
        stats["rw-proposal-checked"] = stats.get("rw-proposal-checked", 0) + 1
        if xstar.shape == want.shape and np.all(np.isfinite(xstar)):
            stats["margin:rw-proposal:max_dev_over_tol"] = max(stats.get("margin:rw-proposal:max_dev_over_tol", 0.0),
                                                                float(np.max(np.abs(xstar - want))) / tol_)
        if xstar.shape != want.shape or not np.allclose(xstar, want, rtol=0, atol=tol_, equal_nan=True):
            fail("proposal-not-random-walk", [float(v) for v in want], [float(v) for v in xstar],
                 "the proposal evaluated is not x + scale*xi for the recorded draw (e.g. projected onto the support): the proposal "
                 "mechanism is then not the symmetric random walk whose ratio pi(x*)/pi(x) the accept test uses")
    ell = np_log(t.us[0])
    a = t.acc[0]
    rr = true_ratio_single(t, xstar)
    fy = sc.post(xstar)
    fx = sc.post(t.x)
    # cached value at x must be the density at x (else every later ratio is wrong)
    cache_true = sc.F(t.x)
    if rr is None:
        stats["mechanism-unknown"] = stats.get("mechanism-unknown", 0) + 1
    dem = demanded(ell, rr[0], fx, fy, slack=1e-12 * getattr(t, "cond", 0.0)) if rr is not None else (0 if (fy != fy or fy == -math.inf) else None)
    if fy != fy and a == 1:
        fail("accept-nan", 0, 1, "a proposal whose target log-density is NaN was accepted")
    elif fy == -math.inf and a == 1:
        with np.errstate(all="ignore"):
            gfin = (not k.endswith("MALA")) or bool(np.all(np.isfinite(arr(sc.G(t.x)))))
        why = "u0" if t.us[0] == 0 else ("from-neginf" if fx == -math.inf else ("from-nan" if fx != fx else ("other" if gfin else "nonfinite-gradient")))
        fail(f"accept-neginf:{why}", 0, 1, "a proposal whose target log-density is -inf was accepted")
    elif dem is not None and a != dem:
        fail("decision", dem, a, f"accept bit differs from [log u <= min(0, log MH ratio of the proposal actually used)] (log u={ell!r}, log ratio={rr[0] if rr else None!r})")
    if dem is not None:
        stats["decisions"] = stats.get("decisions", 0) + 1
        if rr is not None and ell != -math.inf and rr[0] == rr[0] and abs(rr[0]) != math.inf:
            # distance of the uniform from the true threshold relative to the "too close to call" band (must be > 1)
            thr_ = min(0.0, rr[0])
            band_ = 1e-9 * (1.0 + abs(thr_)) + 1e-12 * getattr(t, "cond", 0.0)       # a tenth of the silent zone of `demanded`: judged decisions are >= 10
            stats["margin:decision:min_dist_over_band"] = min(stats.get("margin:decision:min_dist_over_band", math.inf), abs(ell - thr_) / band_)
    if cache_true == cache_true and abs(cache_true) != math.inf and t.logd == t.logd and abs(t.logd) != math.inf:
        stats["margin:stale-cache:max_dev_over_tol"] = max(stats.get("margin:stale-cache:max_dev_over_tol", 0.0),
                                                            abs(t.logd - cache_true) / (1e-9 * max(abs(t.logd), abs(cache_true)) + 1e-9))
    # frame
    if a == 0:
        ok = np.array_equal(t.x1, t.x) and same_float(t.logd1, t.logd) and np.array_equal(t.grad1, t.grad, equal_nan=True)
        if not ok:
            fail("frame-reject", "state and caches unchanged", "changed", "a rejected transition changed the point or a cached value")
    else:
        lv = sc.F(xstar)
        ok = np.array_equal(t.x1, xstar, equal_nan=True) and (same_float(t.logd1, lv) or close(t.logd1, lv, 1e-9))
        if k.endswith("MALA") and ok:
            gv = arr(sc.G(xstar))
            ok = t.grad1.shape == gv.shape and bool(np.allclose(t.grad1, gv, rtol=1e-9, atol=1e-12, equal_nan=True))
        if not ok:
            fail("frame-accept", "point = proposal, caches = values at the proposal", "differs", "an accepted transition did not install the proposal and its log-density/gradient")
    # stale cache before the step (e.g. after reload / warm-up)
    if k.endswith("MALA"):
        with np.errstate(all="ignore"):
            g_true = arr(sc.G(t.x))
        if t.grad.shape != g_true.shape or not np.allclose(t.grad, g_true, rtol=1e-9, atol=1e-12, equal_nan=True):
            fail("stale-grad", [float(v) for v in g_true], [float(v) for v in t.grad],
                 "cached gradient does not belong to the current point (e.g. it aliases an array the target re-uses)")
    if not (same_float(t.logd, cache_true) or close(t.logd, cache_true, 1e-9)):
        fail("stale-cache", repr(cache_true), repr(t.logd), "cached log-density does not belong to the current point")
    return fails


# ----------------------------------------------------------------------------- compare model vs implementation
def compare(ctx, t, out, stats):
    """returns list of (field, model, impl) differences"""
    k = t.kernel
    toks = out.split()
    diffs = []

    def veq(tok, v):
        mv = [float(x) for x in pv(tok)]
        if len(mv) != len(v):
            return False
        if all(a == float(b) for a, b in zip(mv, v)):
            return True
        return vclose(v, pv(tok), t.wtol)

    if out in ("bad-op", "err-cert"):
        return [("driver", out, "ok")]
    if toks[0] == "nanprop":
        # pCN with scale > 1: the model says the proposal is the all-NaN vector
        stats["pcn-scale-gt-1"] = stats.get("pcn-scale-gt-1", 0) + 1
        if not np.all(np.isnan(t.queries[0][0])):
            diffs.append(("proposal-point", "all-NaN (np.sqrt(1 - scale²) with scale > 1)", [float(v) for v in t.queries[0][0]]))
        if int(toks[1]) != t.acc[0]:
            diffs.append(("acc", int(toks[1]), t.acc[0]))
        if not tok_eq_float(toks[2], t.logd1):
            diffs.append(("cached-logd", toks[2], repr(t.logd1)))
        want_x1 = t.x if t.acc[0] == 0 else t.queries[0][0]
        if not np.array_equal(t.x1, want_x1, equal_nan=True):
            diffs.append(("next-point", [float(v) for v in want_x1], [float(v) for v in t.x1]))
        return diffs
    if k.endswith("CWMH"):
        accb, x1, logd1, qs = toks
        macc = [int(b) for b in accb.split(",")]
        if macc != t.acc:
            diffs.append(("acc", macc, t.acc))
        if not veq(x1, t.x1):
            diffs.append(("next-point", x1, [float(v) for v in t.x1]))
        if not tok_eq_float(logd1, t.logd1):
            diffs.append(("cached-logd", logd1, repr(t.logd1)))
        mq = pm(qs)
        if len(mq) != len(t.queries) or not all(vclose(p, m, t.wtol) for (p, _), m in zip(t.queries, mq)):
            diffs.append(("proposal-points", qs[:120], [[float(v) for v in p] for p, _ in t.queries]))
        return diffs
    if k.endswith("MALA"):
        a, x1, logd1, g1, xs_, r = toks
    else:
        a, x1, logd1, xs_ = toks
        g1 = None
    if int(a) != t.acc[0]:
        diffs.append(("acc", int(a), t.acc[0]))
    if not veq(x1, t.x1):
        diffs.append(("next-point", x1, [float(v) for v in t.x1]))
    if not tok_eq_float(logd1, t.logd1):
        diffs.append(("cached-logd", logd1, repr(t.logd1)))
    if g1 is not None and not veq(g1, t.grad1):
        diffs.append(("cached-grad", g1, [float(v) for v in t.grad1]))
    if not veq(xs_, t.queries[0][0]):
        diffs.append(("proposal-point", xs_, [float(v) for v in t.queries[0][0]]))
    if k.endswith("MALA") and r not in ("nan", "inf", "-inf"):
        rr = true_ratio_single(t, t.queries[0][0])
        if rr is not None and rr[0] == rr[0] and abs(rr[0]) != math.inf:
            stats["mala-ratio-checked"] = stats.get("mala-ratio-checked", 0) + 1
            if not close(rr[0], Fraction(r), 1e-7) and abs(rr[0] - float(Fraction(r))) > 1e-12 * getattr(t, "cond", 0.0) * (1 + abs(rr[0])):
                diffs.append(("log-ratio", float(Fraction(r)), rr[0]))
    return diffs


# ----------------------------------------------------------------------------- special-value table
def special_runs(ctx, cuqi, records, stats):
    """IEEE special values in the cache and at the proposal, u = 0 included: one real transition
    per (kernel, cached value, value at proposal, u); they go through the same replay / oracle."""
    vals = [math.nan, -math.inf, math.inf, -2.0, 0.0, 1.5, -1e3, 1e3, -1e4, 1e4]      # ±1e3, ±1e4 overflow / underflow under exp
    us = [0.0, 0.25, 1.0 - 2.0 ** -20]
    combos = [(k, cur, star, u, None) for k in KERNELS for cur in vals for star in vals for u in us]
    # MALA: huge target difference against a huge opposing proposal ratio (gradient at the proposal chosen freely)
    for k in ("expMALA", "legMALA"):
        for star in (1e3, -1e3, 2.5e3, -2.5e3, 1e4):
            for g1 in (0.0, 100.0, -100.0, 200.0, -200.0, 400.0):
                for u in (0.25, 1e-200, 1.0 - 2.0 ** -20):
                    combos.append((k, 0.0, star, u, g1))
    n = 0
    for (k, cur, star, u, g1) in combos:
        def F(x, cur=cur, star=star):
            return cur if x[0] == 0.5 else (0.0 if x[0] == 1.0 else star)
        d = 2 if k.endswith("CWMH") else 1
        if g1 is None:
            G = lambda x, d=d: np.zeros(d)
        else:
            G = lambda x, g1=g1: np.array([1.0 if x[0] == 0.5 else g1])
        sc = Scenario(f"special[{cur!r},{star!r}" + ("" if g1 is None else f",grad={g1!r}") + "]", d, F, G)
        sc.fam = "special"
        if k.endswith("PCN"):
            sc.prior_mean, sc.prior_var = np.zeros(1), np.ones(1)
        script = Script(ctx.seed + n)
        hook = UHook(None, forced=u)
        script.u_hook = hook
        n += 1
        try:
            (run_exp if k.startswith("exp") else run_leg)(cuqi, k, sc, "fresh" if k.startswith("exp") else "plain", 1, 0.5,
                                                            np.full(d, 0.5), script, hook, records)
        except Exception as e:
            stats["special-raised"] = stats.get("special-raised", 0) + 1
            if stats["special-raised"] <= 3:
                ctx.note(f"special-value case raised: {k} cached={cur!r} proposal={star!r} u={u}: {repr(e)[:100]}")


# ----------------------------------------------------------------------------- refusals
def refusals(ctx, cuqi):
    """proposals the constructors must refuse (non-symmetric / not a distribution)"""
    D = cuqi.distribution
    t = D.UserDefinedDistribution(dim=2, logpdf_func=lambda x: -0.5 * float(np.sum(np.asarray(x) ** 2)))
    props = [("gaussian", lambda: D.Gaussian(np.zeros(2), 1), 1, 1),
             ("gamma", lambda: D.Gamma(np.ones(2), 1), 1, 0),
             ("lognormal", lambda: D.Lognormal(np.zeros(2), 1), 1, 0),
             ("beta", lambda: D.Beta(np.ones(2) * 2, np.ones(2) * 2), 1, 0),
             ("uniform", lambda: D.Uniform(-np.ones(2), np.ones(2)), 1, 1),
             ("callable", lambda: (lambda: np.zeros(2)), 0, 0)]
    lines = [f"prop {d} {s}" for _, _, d, s in props]
    outs = ctx.lean.drive(lines)
    for (name, mk, d, s), o in zip(props, outs):
        for kn, ctor in (("expMH", lambda p: cuqi.experimental.mcmc.MH(t, proposal=p, scale=0.5)),
                         ("legMH", lambda p: cuqi.sampler.MH(t, proposal=p, scale=0.5))):
            desc = {"kernel": kn, "proposal": name}
            ctx.case("proposal-validation", desc)
            try:
                with quiet():
                    ctor(mk())
                impl = "ok"
            except Exception:
                impl = "err"
            if impl != o:
                key = f"{kn}:validate:{name}"
                ctx.disagree(key, desc, o, impl, "proposal validation differs")
                if impl == "ok" and s == 0:
                    ctx.fail(key, desc, "refused", "accepted", "a non-symmetric proposal is accepted although the kernel uses the symmetric-proposal ratio")


def undeclared_symmetry(ctx, cuqi):
    """Proposals whose `is_symmetric` flag is None (undeclared) must be refused like asymmetric ones by both MH
    constructors and by later assignment `sampler.proposal = p`: the kernels use the plain ratio pi(x')/pi(x).
    If one is accepted, exhibit the failing input with one-sided increments: every accepted move then has exact
    MH probability 0 (q(x|x') = 0)."""
    D = cuqi.distribution
    F = lambda x: -0.5 * float(np.sum(np.asarray(x, dtype=float) ** 2))
    out = ctx.lean.drive(["prop 1 0"])[0]           # flag not True -> the model refuses
    lrs = np.random.RandomState(99 + ctx.seed)
    mkprop = lambda: D.UserDefinedDistribution(dim=2, sample_func=lambda: np.abs(lrs.randn(2)) + 0.25)   # is_symmetric is None
    ways = [("expMH", "constructor", lambda t, p: cuqi.experimental.mcmc.MH(t, proposal=p, scale=0.5, initial_point=np.array([2.0, 2.0]))),
            ("expMH", "assigned-later", lambda t, p: _assign(cuqi.experimental.mcmc.MH(t, scale=0.5, initial_point=np.array([2.0, 2.0])), p)),
            ("legMH", "constructor", lambda t, p: cuqi.sampler.MH(t, proposal=p, scale=0.5, x0=np.array([2.0, 2.0]))),
            ("legMH", "assigned-later", lambda t, p: _assign(cuqi.sampler.MH(t, scale=0.5, x0=np.array([2.0, 2.0])), p))]
    for kn, how, ctor in ways:
        t = D.UserDefinedDistribution(dim=2, logpdf_func=F)
        desc = {"kernel": kn, "proposal": "UserDefinedDistribution(sample_func=0.25+|N(0,1)|), is_symmetric=None", "how": how}
        ctx.case("proposal-validation", desc)
        key = f"{kn}:validate:undeclared-symmetry"
        try:
            with quiet():
                s = ctor(t, mkprop())
            impl = "ok"
        except Exception:
            impl = "err"
        if impl != out:
            ctx.disagree(key, desc, out, impl, "proposal validation differs")
        if impl != "ok":
            continue
        # run the real kernel with small uniforms; any accepted move goes up in every coordinate and cannot be reversed
        real_rand = np.random.rand
        try:
            np.random.rand = lambda *a: 1e-3
            with quiet():
                if kn == "expMH":
                    s.initialize()
                    for _ in range(20):
                        x = arr(s.current_point).copy()
                        a = int(np.atleast_1d(s.step())[0])
                        y = arr(s.current_point).copy()
                        if a == 1:
                            break
                else:
                    x = np.array([2.0, 2.0]); a = 0
                    for _ in range(20):
                        r = s.single_update(x.copy(), F(x))
                        y, a = arr(r[0]).copy(), int(np.atleast_1d(r[-1])[0])
                        if a == 1:
                            break
        finally:
            np.random.rand = real_rand
        if a == 1 and np.all(y > x):
            ctx.fail(key, {**desc, "x": [float(v) for v in x], "accepted_proposal": [float(v) for v in y], "u": 1e-3, "scale": 0.5},
                     "accept probability min(1, pi(x')q(x|x')/(pi(x)q(x'|x))) = 0 (increments are one-sided: q(x|x') = 0)", "accepted",
                     "a proposal of undeclared symmetry is accepted by the sampler and moves are accepted with the symmetric-proposal ratio")


def _assign(sampler, p):
    sampler.proposal = p
    return sampler


def cw_nonsymmetric(ctx, cuqi):
    """experimental CWMH defines validate_proposal ("Proposal must be symmetric") but its own
    `proposal` property setter never calls it: a non-symmetric conditional proposal is accepted
    and used with the symmetric-proposal ratio.  Exhibit a uniform between the two thresholds."""
    from scipy.stats import gamma as sgamma
    D = cuqi.distribution
    F = lambda x: -0.5 * float(np.sum(np.asarray(x, dtype=float) ** 2))
    calls = []

    def recF(x):
        calls.append(arr(x).copy()); return F(x)
    t = D.UserDefinedDistribution(dim=2, logpdf_func=recF)
    out = ctx.lean.drive(["prop 1 0"])[0]
    desc = {"kernel": "expCWMH", "proposal": "Gamma(shape=|location|+1, rate=1/scale) (is_symmetric=False)"}
    ctx.case("proposal-validation", desc)
    key = "expCWMH:validate:nonsymmetric"
    x0, sc_ = np.array([1.0, 2.0]), 0.5
    state = np.random.get_state()
    try:
        np.random.seed(4242 + ctx.seed)
        with quiet():
            s = cuqi.experimental.mcmc.CWMH(t, proposal=D.Gamma(shape=lambda location: np.abs(location) + 1, rate=lambda scale: 1 / scale, geometry=2),
                                            scale=sc_, initial_point=x0)
            s.initialize()
        impl = "ok"
    except Exception:
        impl = "err"
    if impl != out:
        ctx.disagree(key, desc, out, impl, "proposal validation differs")
    if impl == "ok":
        info = {}
        real_rand = np.random.rand

        def fake_rand(*a):
            if "u" in info:
                return 0.5
            y = calls[-1]
            r_plain = F(y) - F(x0)
            lq_fwd = sgamma.logpdf(y[0], a=abs(x0[0]) + 1, scale=sc_)
            lq_bwd = sgamma.logpdf(x0[0], a=abs(y[0]) + 1, scale=sc_)
            r_true = r_plain + lq_bwd - lq_fwd
            a_, b_ = min(0.0, r_plain), min(0.0, r_true)
            info.update(r_plain=r_plain, r_true=r_true, y=float(y[0]))
            info["u"] = math.exp(0.5 * (a_ + b_)) if abs(a_ - b_) > 1e-9 else 0.5
            return info["u"]
        try:
            np.random.rand = fake_rand
            calls.clear()
            with quiet():
                acc = s.step()
        finally:
            np.random.rand = real_rand
        if "u" in info and abs(min(0.0, info["r_plain"]) - min(0.0, info["r_true"])) > 1e-9:
            dem = 1 if math.log(info["u"]) <= min(0.0, info["r_true"]) else 0
            if int(acc[0]) != dem:
                ctx.fail(key, {**desc, **info, "x": [1.0, 2.0], "scale": sc_}, dem, int(acc[0]),
                         "a proposal flagged non-symmetric is accepted and the accept bit is not [log u <= min(0, log MH ratio of that proposal)]")
    np.random.set_state(state)


# ----------------------------------------------------------------------------- main
def run(ctx):
    cuqi = import_cuqi()
    thorough = ctx.tier == "thorough"
    ctx.trusted += ["numpy generator laws (rand ~ U[0,1), randn/normal ~ N): the scripted stream replaces them",
                    "np.log / np.sqrt (their float results are handed to the model as data; sqrt certified by c*c ~ v)",
                    "harness recorders (call-through wrappers of target.logd/gradient, prior.sample, single_update)"]
    ctx.assumptions += ["model arithmetic is exact; implementation floats compared with tolerance 1e-12 (exact on dyadic scenarios)",
                        "decisions whose log-uniform lies within 1e-8*(1+|threshold|) (+ conditioning slack) of the true threshold are not judged, so rounding cannot flip a judged decision",
                        "gradients handed to MALA are finite"]
    stats = {}
    refusals(ctx, cuqi)
    cw_nonsymmetric(ctx, cuqi)
    undeclared_symmetry(ctx, cuqi)

    n_sc = (40 if not thorough else 400)
    nsteps = 5 if not thorough else 8
    records = []
    special_runs(ctx, cuqi, records, stats)
    for ki, k in enumerate(KERNELS):
        rs = np.random.RandomState(1000 * ctx.seed + 17 * ki + 3)
        for i in range(n_sc):
            real = (i % 5 == 4)
            flat = (not real) and i % 10 in (3, 6, 7)
            extreme = None
            if i % 10 == 5:
                extreme = "steep4" if (i // 10) % 2 == 0 else "steep6"
            elif i % 20 == 10:
                extreme = "huge"
            sc = make_real_scenario(cuqi, rs, k, i) if real else make_scenario(rs, k, i, force_shift=(i in (1, 2)), flat=flat, extreme=extreme)
            sc2 = None
            if k.startswith("exp"):
                hist = ["fresh", "warmup", "reload", "fresh"][i % 4]
                if flat:
                    hist = "warmup-reload" if i % 10 == 7 else "warmup-long"
                elif i % 20 == 8:
                    hist = "warmup-long"
                elif i % 20 in (11, 18):
                    hist = "retarget"        # construct with A, sample, set target B, reinitialize
                    sc2 = make_scenario(rs, k, 1000 + i)
                    while sc2.dim != sc.dim:
                        sc2 = make_scenario(rs, k, 1000 + i)
                    # the proposal object stays with the sampler
                    sc2.prop_mean = sc.prop_mean
                    if sc2.cls == "proposal-mean-nonzero" or sc.prop_mean is not None:
                        sc2.cls = "proposal-mean-nonzero" if sc.prop_mean is not None else "std"
                elif i % 20 == 12:
                    hist = "repoint-new"
                elif i % 20 == 0 and i > 0:
                    hist = "repoint-inplace"
            else:
                hist = ["plain", "adapt", "burnin" + str(1 + (i // 3) % 4)][i % 3]     # sample(N) / sample_adapt(N, 2) / sample(N, Nb), Nb = 1..4
            x0 = rs.randint(-4, 5, size=sc.dim) / 2.0
            if getattr(sc, "fam", "") in ("support", "posinf") and rs.rand() < 0.7:
                x0[:] = np.where(np.arange(sc.dim) < max(1, sc.dim - 1), 0.5, x0)          # mostly start inside the support
            if k.endswith("PCN"):
                scale = float(rs.choice([0.25, 0.5, 0.75, 1.0]))
            elif k.endswith("MALA"):
                scale = float(rs.choice([0.25, 0.0625, 1.0, 0.5]))
            elif k.endswith("CWMH") and k.startswith("exp") and rs.rand() < 0.5:
                scale = rs.choice([0.25, 0.5, 1.0, 2.0, 4.0], size=sc.dim)
            elif k.endswith("CWMH"):
                scale = float(rs.choice([0.5, 1.0, 2.0, 4.0]))
            else:
                scale = float(rs.choice([0.25, 0.5, 1.0, 2.0]))
            if extreme:
                # far out in the tails, tiny and large steps: log-ratios of +-1e3...1e12, for MALA nearly
                # cancelled by the opposing proposal ratio
                x0 = rs.choice([-1.0, 1.0], size=sc.dim) * rs.choice([5.0, 8.0, 10.0, 12.0], size=sc.dim)
                if k.endswith("MALA"):
                    scale = float(rs.choice([0.02, 0.01, 1.0 / 64, 0.5, 2.0]))
                elif k.endswith("PCN"):
                    scale = float(rs.choice([0.25, 0.75]))
                elif k.endswith("CWMH"):
                    scale = float(rs.choice([1.0, 4.0]))
                else:
                    scale = float(rs.choice([0.25, 4.0, 8.0]))
            # dtype / container of the starting point
            x0kind = str(rs.choice(["f64", "f64", "f64", "int", "f32", "list"]))
            if x0kind == "int":
                x0 = np.rint(x0).astype(int)
                if k == "expCWMH":
                    sc.cls = "int-x0"       # work vectors inherit the integer dtype (listed finding)
                    if sc2 is not None:
                        sc2.cls = "int-x0"
            elif x0kind == "f32":
                x0 = x0.astype(np.float32)
            elif x0kind == "list" and k != "expPCN":      # experimental PCN refuses a list (float * list raises TypeError)
                x0 = [float(v) for v in x0]
            stats["x0-" + x0kind] = stats.get("x0-" + x0kind, 0) + 1
            script = Script(ctx.seed * 7919 + ki * 131 + i, dyadic=not real)
            hook = UHook(np.random.RandomState(ctx.seed * 104729 + ki * 17 + i))
            script.u_hook = hook
            n = nsteps if hist != "adapt" else 22
            try:
                if k.startswith("exp"):
                    run_exp(cuqi, k, sc, hist, n, scale, x0, script, hook, records, sc2=sc2)
                else:
                    run_leg(cuqi, k, sc, hist, n, scale, x0, script, hook, records)
            except Exception as e:
                ctx.note(f"scenario raised: {k} {sc.name} {hist}: {repr(e)[:160]}")
                stats["raised"] = stats.get("raised", 0) + 1
            for m, c in hook.modes.items():
                stats["u-" + m] = stats.get("u-" + m, 0) + c

    # dtype / container of the starting point, every kernel, both sampling entry points, well-accepting targets
    for ki, k in enumerate(KERNELS):
        rs = np.random.RandomState(5000 * ctx.seed + 31 * ki + 7)
        for kind in ("int", "f32", "list", "uint8", "int8", "bool", "float16"):
            for hist in (("fresh", "warmup") if k.startswith("exp") else ("plain", "adapt")):
                if kind == "list" and k == "expPCN":
                    continue
                sc = make_scenario(rs, k, 2000 + len(records), flat=True)
                base = rs.randint(-3, 4, size=sc.dim)
                if kind == "int":
                    x0 = base.astype(int)
                elif kind == "f32":
                    x0 = base.astype(np.float32) + np.float32(0.5)
                elif kind == "list":
                    x0 = [float(v) + 0.5 for v in base]
                elif kind == "uint8":
                    x0 = np.abs(base).astype(np.uint8)         # arithmetic in this dtype would wrap
                elif kind == "int8":
                    x0 = base.astype(np.int8)
                elif kind == "bool":
                    x0 = base > 0                               # arithmetic in this dtype would be logical
                else:
                    x0 = base.astype(np.float16) + np.float16(0.5)
                if kind in ("int", "uint8", "int8", "bool") and k == "expCWMH":
                    sc.cls = "int-x0"
                scale = 0.5 if not k.endswith("MALA") else 0.25
                script = Script(ctx.seed * 7919 + 9000 + ki * 31 + len(records))
                hook = UHook(np.random.RandomState(ctx.seed * 104729 + 9000 + ki))
                script.u_hook = hook
                stats["x0-" + kind] = stats.get("x0-" + kind, 0) + 1
                try:
                    if k.startswith("exp"):
                        run_exp(cuqi, k, sc, hist, nsteps, scale, x0, script, hook, records)
                    else:
                        run_leg(cuqi, k, sc, hist, nsteps if hist == "plain" else 22, scale, x0, script, hook, records)
                except Exception as e:
                    ctx.note(f"dtype scenario raised: {k} {kind} {hist}: {repr(e)[:160]}")
                    stats["raised"] = stats.get("raised", 0) + 1

    # ---- round-4 input classes, every kernel: non-finite gradients at kinks / boundaries (exact-zero starting points),
    # steps tiny relative to the state (tolerance-based tests), targets returning the same array object on every
    # call, array properties of the starting point (strides, read-only, subclass), scale re-assigned after use
    def launch(k, sc, hist, n, scale, x0, seed_off):
        script = Script(ctx.seed * 7919 + 20000 + seed_off)
        hook = UHook(np.random.RandomState(ctx.seed * 104729 + 20000 + seed_off))
        script.u_hook = hook
        try:
            if k.startswith("exp"):
                run_exp(cuqi, k, sc, hist, n, scale, x0, script, hook, records)
            else:
                run_leg(cuqi, k, sc, hist, n if hist != "adapt" else 22, scale, x0, script, hook, records)
        except Exception as e:
            ctx.note(f"round-4 scenario raised: {k} {sc.name} {hist}: {repr(e)[:160]}")
            stats["raised"] = stats.get("raised", 0) + 1
        for m_, c_ in hook.modes.items():
            stats["u-" + m_] = stats.get("u-" + m_, 0) + c_

    so = 0
    for ki, k in enumerate(KERNELS):
        rs = np.random.RandomState(7000 * ctx.seed + 13 * ki + 1)
        hists = ("fresh", "warmup") if k.startswith("exp") else ("plain", "adapt")
        mala, pcn, cw = k.endswith("MALA"), k.endswith("PCN"), k.endswith("CWMH")
        for rep_ in range(2 if not thorough else 8):
            # (i) kinks / boundaries, started exactly there
            for fam in ("kink", "halfsqrt"):
                sc = make_scenario(rs, k, 3000 + so, extreme=fam)
                x0 = np.zeros(sc.dim)
                if fam == "halfsqrt" and sc.dim > 1 and rep_ % 2 == 1:
                    x0[-1] = 0.5                      # only some gradient entries non-finite
                so += 1
                launch(k, sc, hists[rep_ % 2], nsteps, 0.25 if not pcn else 0.5, x0, so)
            # many short runs for the gradient-based kernels: only the first transition(s) sit exactly on the kink / boundary
            if mala:
                for extra in range(8):
                    fam = ("kink", "halfsqrt")[extra % 2]
                    sc = make_scenario(rs, k, 3000 + so, extreme=fam)
                    x0 = np.zeros(sc.dim)
                    if fam == "halfsqrt" and sc.dim > 1 and extra % 4 == 3:
                        x0[0] = 0.25
                    so += 1
                    launch(k, sc, hists[0], 2, float(rs.choice([0.25, 0.0625, 1.0])), x0, so)
            # (ii) steps tiny relative to the state
            for fam in ("bigstate", "bigstate", "tinystate"):
                sc = make_scenario(rs, k, 3000 + so, extreme=fam)
                if pcn:
                    mag = float(np.max(np.abs(sc.center)))
                    sc.prior_mean, sc.prior_var, sc.cls = np.zeros(sc.dim), np.full(sc.dim, mag * mag), "std"
                    scale = sc.width / mag
                elif mala:
                    scale = sc.width ** 2
                elif cw and k.startswith("exp") and rep_ % 2 == 0:
                    scale = np.full(sc.dim, sc.width)
                else:
                    scale = sc.width
                x0 = sc.center + sc.width * rs.randint(-2, 3, size=sc.dim)
                so += 1
                launch(k, sc, hists[(rep_ + so) % 2], nsteps, scale, x0, so)
            # (iii) target returning the same preallocated arrays on every call
            sc = make_scenario(rs, k, 3000 + so, extreme="quad_plain")
            sc.shared = True
            sc.prop_mean = None
            if pcn:
                sc.prior_mean = np.zeros(sc.dim)
            sc.cls = "shared-output"
            so += 1
            launch(k, sc, hists[rep_ % 2], nsteps, 0.5 if not mala else 0.25, rs.randint(-2, 3, size=sc.dim) / 2.0, so)
            # (iv) array properties of the starting point
            for kind in ("strided", "negstride", "readonly", "cuqiarray"):
                sc = make_scenario(rs, k, 3000 + so, flat=True)
                base = rs.randint(-3, 4, size=2 * sc.dim) / 2.0
                if kind == "strided":
                    x0 = base[::2]
                elif kind == "negstride":
                    x0 = base[::-2]
                elif kind == "readonly":
                    x0 = base[:sc.dim].copy(); x0.flags.writeable = False
                else:
                    x0 = cuqi.array.CUQIarray(base[:sc.dim].copy())
                stats["x0-" + kind] = stats.get("x0-" + kind, 0) + 1
                so += 1
                launch(k, sc, hists[(rep_ + so) % 2], nsteps, 0.5 if not mala else 0.25, x0, so)
            # (v) scale re-assigned after first use
            if k.startswith("exp"):
                sc = make_scenario(rs, k, 3000 + so)
                so += 1
                launch(k, sc, "rescale", nsteps, 0.5 if not mala else 0.25, rs.randint(-2, 3, size=sc.dim) / 2.0, so)
                for h_ in ("warmup-sample-warmup", "warmup1"):
                    sc = make_scenario(rs, k, 3000 + so)
                    so += 1
                    launch(k, sc, h_, nsteps, 0.5 if not mala else 0.25, rs.randint(-2, 3, size=sc.dim) / 2.0, so)

    # ---- session 3: pCN with a user-supplied scale > 1 (constructor, attribute assignment, state reload): np.sqrt(1 - s²) is
    # NaN, every proposal is NaN and must be rejected; whatever is proposed instead must be accepted with ITS MH probability
    for ki, k in enumerate(("expPCN", "legPCN")):
        rs = np.random.RandomState(9100 * ctx.seed + 7 * ki + 5)
        for rep_ in range(6 if not thorough else 30):
            sc = make_scenario(rs, k, 4000 + so, flat=(rep_ % 3 == 0), extreme=("quad_plain" if rep_ % 3 == 1 else None))
            sc.prior_mean, sc.cls = np.zeros(sc.dim), "std"
            big = float(rs.choice([1.25, 1.5, 2.0, 3.0]))
            x0 = rs.randint(-4, 5, size=sc.dim) / 2.0
            if getattr(sc, "fam", "") in ("support", "posinf"):
                x0[:] = 0.5
            so += 1
            if k == "expPCN":
                hist = ("fresh", "rescale-up", "reload")[rep_ % 3]
                launch(k, sc, hist, nsteps + 3, 0.5 if hist == "rescale-up" else big, x0, so)
            else:
                launch(k, sc, ("plain", "burnin2")[rep_ % 2], nsteps + 3, big, x0, so)
            stats["pcn-scale-gt-1-runs"] = stats.get("pcn-scale-gt-1-runs", 0) + 1

    # ---- round 8: (a) constant / piecewise-constant gradients (the gradient at the proposal EQUALS the cached one: the
    # Hastings correction of MALA is -(x*-x).g, not 0), every kernel; (b) bounded-support targets that expose `low`/`high`
    # (cuqi Uniform sampled directly, user objects with box bounds) with proposals overshooting the bounds, MH and CWMH
    for ki, k in enumerate(KERNELS):
        rs = np.random.RandomState(8800 * ctx.seed + 19 * ki + 2)
        hists = ("fresh", "warmup") if k.startswith("exp") else ("plain", "adapt")
        mala, pcn = k.endswith("MALA"), k.endswith("PCN")
        for rep_ in range((8 if mala else 2) * (1 if not thorough else 5)):
            fam = ("laplace", "linhalf")[rep_ % 2]
            sc = make_scenario(rs, k, 8000 + so, extreme=fam)
            sc.prop_mean = None
            if pcn:
                sc.prior_mean = np.zeros(sc.dim)
            sc.cls = "std"
            x0 = rs.randint(2, 8, size=sc.dim).astype(float)            # well inside one orthant
            if fam == "laplace" and rep_ % 4 == 2:
                x0 = -x0
            scale = float(rs.choice([0.25, 0.5, 1.0])) if mala else (0.5 if pcn else float(rs.choice([0.5, 1.0])))
            so += 1
            launch(k, sc, hists[(rep_ // 2) % 2], nsteps, scale, x0, so)
            stats["const-gradient-runs"] = stats.get("const-gradient-runs", 0) + 1
        if k.endswith("MH"):
            for rep_ in range(6 if not thorough else 24):
                d_ = int(rs.choice([1, 2, 3])) if not k.endswith("CWMH") else int(rs.choice([2, 3]))
                low = rs.randint(-2, 1, size=d_).astype(float)
                high = low + rs.choice([1.0, 2.0], size=d_)
                kind = ("uniform", "user")[rep_ % 2]
                if kind == "uniform":
                    vol = float(np.prod(high - low))
                    F = lambda x, low=low, high=high, vol=vol: (-math.inf if (np.any(x < low) or np.any(x > high)) else float(np.log(1.0 / vol)))
                    G = lambda x: np.zeros_like(x)
                else:
                    cen = (low + high) / 2
                    F = lambda x, low=low, high=high, cen=cen: (-math.inf if (np.any(x < low) or np.any(x > high)) else -0.5 * float(np.sum((x - cen) ** 2)))
                    G = lambda x, cen=cen: -(x - cen)
                sc = Scenario(f"box-{kind}{so}", d_, F, G, exact=(kind == "user"))
                sc.fam, sc.bounds, sc.bounds_kind = "box", (low, high), kind
                x0 = low + (high - low) * rs.choice([0.25, 0.5, 0.75], size=d_)
                so += 1
                launch(k, sc, hists[rep_ % 2] if rep_ % 3 else hists[0], nsteps + 3, float(rs.choice([0.5, 1.0, 2.0])), x0, so)
                stats["box-target-runs"] = stats.get("box-target-runs", 0) + 1

    # ---- session 3: whole sampler sessions (loops, burn-in, adaptation / tune, reload, scale assignment) replayed on the
    # loop model of Model/C02_chain.lean; their transitions join `records` (per-transition tie + oracle)
    import sys
    from harness.props import c02_chain
    B_ = sys.modules[__name__]
    sessions = c02_chain.generate(B_, ctx, cuqi, records, stats)

    # model side
    from harness.core import KnownMap
    open_known = KnownMap([r_ for r_ in ctx.known if r_.get("status", "open") == "open"])
    pending = []                # (transition, fails of that transition, field, model value, impl value)
    new_fail_keys = {}          # kernel -> first oracle failure key that is not a listed finding
    lines, idx = [], []

    known_cls_keys = {}         # (kernel, non-std class) -> a listed finding's failure key seen in this run

    def note_fails(t, fails):
        for fk in fails:
            if fk not in open_known:
                new_fail_keys.setdefault(t.kernel, fk)
            elif t.sc.cls != "std":
                known_cls_keys.setdefault((t.kernel, t.sc.cls), fk)

    for r in records:
        if r[0] == "T":
            ln = model_line(r[1])
            if ln == "skip":
                stats["non-finite-gradient-not-replayed"] = stats.get("non-finite-gradient-not-replayed", 0) + 1
                note_fails(r[1], oracle(ctx, r[1], stats))
                continue
            if ln is None:
                stats["not-replayable"] = stats.get("not-replayable", 0) + 1
                fails = oracle(ctx, r[1], stats)
                note_fails(r[1], fails)
                pending.append((r[1], fails, "shape", "one proposal, one uniform per (component) step",
                                {"u": len(r[1].us), "queries": len(r[1].queries)}))
                continue
            lines.append(ln); idx.append(r[1])
    slines, sowners = c02_chain.lines_of(B_, sessions, stats)
    outs_all = ctx.lean.drive(lines + slines)
    outs = outs_all[:len(lines)]
    accs = {}
    for t, o in zip(idx, outs):
        ctx.case(f"{t.kernel}:{t.hist}", {"target": t.sc.name, "step": t.step, "x": [float(v) for v in t.x], "u": t.us,
                                           "z": None if t.z is None and t.xi is None else [float(v) for v in (t.z if t.z is not None else t.xi)]})
        accs.setdefault(t.kernel, [0, 0])
        accs[t.kernel][0] += sum(t.acc); accs[t.kernel][1] += len(t.acc)
        fails = oracle(ctx, t, stats)
        note_fails(t, fails)
        for field, mv, iv in compare(ctx, t, o, stats):
            pending.append((t, fails, field, mv, iv))
    # a model/implementation difference is reported under the key of a failing input exhibited by the oracle:
    # first one of the same transition, else one of the same kernel in this run (never a listed finding's key,
    # which would hide it), else under its own tie key (=> no-failing-input-found)
    for t, fails, field, mv, iv in pending:
        own = [fk for fk in fails if fk not in open_known]
        cls_known = known_cls_keys.get((t.kernel, t.sc.cls))
        if own:
            key = own[0]
        elif t.sc.cls != "std" and cls_known is not None:
            key = cls_known       # input class of a listed finding (keys are per kernel and class): the difference is that finding
        elif t.kernel in new_fail_keys:
            key = new_fail_keys[t.kernel]
        else:
            key = f"{t.kernel}:{t.sc.cls}:tie:{field}"
        ctx.disagree(key, t.desc(), mv, iv, f"model vs implementation: {field}")
    for r in records:
        if r[0] == "step-start":
            fk = c02_chain.step_start_oracle(B_, ctx, r)
            if fk is not None and fk not in open_known:
                new_fail_keys.setdefault(r[1], fk)
        if r[0] == "returned-cache":
            fk = c02_chain.returned_cache_oracle(B_, ctx, r)
            if fk is not None and fk not in open_known:
                new_fail_keys.setdefault(r[1], fk)
    c02_chain.judge(B_, ctx, cuqi, sowners, outs_all[len(lines):], new_fail_keys, stats)
    # chain continuity (legacy loops) and state reload (experimental)
    for r in records:
        if r[0] == "chain":
            _, k, sc, a, b = r
            ctx.case(f"{k}:chain-link", {"target": sc.name, "step": b.step})
            ok = np.array_equal(a.x1, b.x, equal_nan=True) and same_float(a.logd1, b.logd) and np.array_equal(a.grad1, b.grad, equal_nan=True)
            if not ok:
                key = f"{k}:{sc.cls}:chain-link"
                ctx.fail(key, b.desc(), "next transition starts from the previous result (point and caches)", "differs",
                         "between transitions the state or its cached density/gradient changed")
        elif r[0] == "caller-x0":
            _, k, sc, before, after = r
            ctx.case(f"{k}:caller-x0", {"target": sc.name})
            if before != after:
                ctx.fail(f"{k}:{sc.cls}:caller-x0-modified", {"kernel": k, "target": sc.name}, "the caller's x0 / initial_point array is left untouched",
                         "modified", "sampling wrote into the array the caller passed as starting point")
        elif r[0] == "stored":
            _, k, sc, recs_, lst, mat = r
            for i_, t_ in enumerate(recs_):
                ctx.case(f"{k}:stored-state", {"target": sc.name, "step": t_.step})
                cols = []
                if lst is not None and i_ < len(lst):
                    cols.append(lst[i_])
                if mat is not None and i_ < mat.shape[1]:
                    cols.append(np.asarray(mat[:, i_], dtype=float))
                for col in cols:
                    if col.shape != t_.x1.shape or not np.array_equal(col, t_.x1, equal_nan=True):
                        ctx.fail(f"{k}:{t_.sc.cls}:stored-state", {**t_.desc(), "stored": [float(v) for v in np.ravel(col)], "state_after_transition": [float(v) for v in t_.x1]},
                                 "stored sample == state after the transition (the accepted proposal, float64)", "differs",
                                 "the chain stores a point that is not the state the cached density belongs to")
                        break
        elif r[0] == "reload":
            _, k, sc, old, new = r
            ctx.case(f"{k}:reload", {"target": sc.name})
            ok = np.array_equal(old[0], new[0]) and same_float(old[1], new[1]) and np.array_equal(old[2], new[2]) and np.array_equal(old[3], new[3])
            if not ok:
                key = f"{k}:{sc.cls}:reload"
                ctx.fail(key, {"kernel": k, "target": sc.name}, "set_state(get_state()) restores point, caches, scale", "differs",
                         "state reload changed the point, a cached value or the scale")
    ctx.extra_cov["c02_stats"] = stats
    ctx.extra_cov["acceptance_counts"] = {k: {"accepted": v[0], "decisions": v[1]} for k, v in accs.items()}
    ctx.extra_cov["tolerances"] = {"points": "exact on dyadic scenarios, else 1e-12", "caches": "exact", "accept bits": "exact",
                                   "MALA log-ratio vs independent Gaussian log-densities": 1e-7}
