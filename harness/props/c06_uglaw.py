"""C06, session 3 — tie of UGLA's `Lk_fun(x_k)` (experimental interface: the attribute the sampler really calls) to
`Ugla.L2` / `Ugla.weightResidual` of the Lean model: the weights the implementation used are read off its factor
`W^{1/2} D` (D has entries 0, ±1) and the driver evaluates `w⁴((D x_k)² + β) − 1` exactly on them — the hypothesis of
`ugla_weights_are_documented`.  Oracle (implementation only): `w²` = documented weight `1/sqrt((D(x_k − location))² + β)`
for `D·location = 0`."""
import numpy as np
from harness.core import quiet, q, qv, qm, pv, pm
from harness.props import c06 as base

TOL_W = 1e-12


def run_uglaw(ctx, cuqi, r, thorough):
    import cuqi.experimental.mcmc as em
    from cuqi.distribution import Gaussian, LMRF, JointDistribution
    from cuqi.model import LinearModel
    n_cases = 12 if not thorough else 200
    recs, lines = [], []
    for t in range(n_cases):
        n = int(r.randint(3, 7)); m = int(r.randint(2, 6))
        bc = ["zero", "neumann", "periodic"][t % 3]
        beta = [1.0, 0.0625, 1e-2, 1e-5][(t // 3) % 4]
        scale = float(r.choice([0.25, 0.5, 1.0, 2.0]))
        locmode = ["zero", "const"][r.randint(2)] if bc != "zero" else "zero"
        loc = np.zeros(n) if locmode == "zero" else np.full(n, float(r.randint(1, 4)))
        A = r.randint(-2, 3, size=(m, n)).astype(float); d = r.randint(-3, 4, size=m).astype(float)
        xk = (r.randint(-8, 9, size=n) / 4.0).astype(float)
        if r.rand() < 0.3:
            xk[1] = xk[0]            # a zero difference: the weight is β^{-1/4}
        with quiet():
            x = LMRF(location=loc, scale=scale, bc_type=bc, geometry=n, name="x")
            y = Gaussian(mean=LinearModel(A)(x), cov=1.0, name="y")
            post = JointDistribution(x, y)(y=d)
            s = em.UGLA(post, initial_point=np.zeros(n), beta=beta)
            s.initialize()
            L2 = base.dense(s.Lk_fun(xk.copy()))
            D = base.dense(x._diff_op.get_matrix())
        p = D.shape[0]
        w = np.array([L2[i, np.argmax(np.abs(D[i]))] / D[i, np.argmax(np.abs(D[i]))] for i in range(p)])
        recs.append({"n": n, "bc": bc, "beta": beta, "loc": loc, "xk": xk, "D": D, "L2": L2, "w": w})
        lines.append(f"uglaw {n} {p} {qm(D)} {qv(xk)} {q(beta)} {qv(w)}")
    outs = ctx.lean.drive(lines)
    worst = 0.0
    for rec, o in zip(recs, outs):
        desc = {"n": rec["n"], "bc": rec["bc"], "beta": rec["beta"], "location": rec["loc"].tolist(), "x_k": rec["xk"].tolist()}
        key = f"uglaw:exp:{rec['bc']}"
        ctx.case("ugla-weights", desc)
        toks = o.split(" ")
        res = np.array([float(v) for v in pv(toks[1])])
        L2m = np.array([[float(v) for v in row] for row in pm(toks[2])])
        worst = max(worst, float(np.max(np.abs(res))))
        bad = []
        if np.max(np.abs(res)) > TOL_W or np.any(rec["w"] < 0):
            ctx.disagree(key + ":weights", desc, "w >= 0, w^4((D x_k)^2+beta) = 1", {"w": rec["w"].tolist(), "residual": res.tolist()},
                         "weights of Lk_fun(x_k) do not satisfy their defining relation")
            bad.append(key + ":weights")
        if base.relerr(rec["L2"], L2m, rel=True) > 1e-13:
            ctx.disagree(key + ":factor", desc, L2m.tolist(), rec["L2"].tolist(), "Lk_fun(x_k) is not diag(w) D")
            bad.append(key + ":factor")
        # oracle: documented weights (D·location = 0 in every case generated here)
        t_ = rec["D"] @ (rec["xk"] - rec["loc"])
        wdoc = 1.0 / np.sqrt(t_ ** 2 + rec["beta"])
        G = rec["L2"].T @ rec["L2"]
        Gdoc = rec["D"].T @ np.diag(wdoc) @ rec["D"]
        if base.relerr(G, Gdoc, rel=True) > 1e-9:
            for k_ in bad or [key + ":doc"]:
                ctx.fail(k_, desc, Gdoc.tolist(), G.tolist(),
                         "Lk_fun(x_k)ᵀ Lk_fun(x_k) is not Dᵀ W(x_k) D of the documented local Gaussian approximation")
    ctx.extra_cov["ugla_weight_residual_max"] = worst
