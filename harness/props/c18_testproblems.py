"""C18, session 3 — the shipped PDE test problems `Poisson1D` / `Heat1D` against the model of their
constructors (`lean/CuqiVerif/Model/C18_testproblems.lean`, driver ops `tpp` / `tph`).

The model gets only the constructor arguments (dim, endpoint, max_time, source coefficients, field map,
observation_grid_map kind) and the parameter; it builds the grids, the finite-difference matrices, the
number of time steps, the PDE form and runs its own exact assemble-solve-observe pipeline.  Compared with
the real objects: N, domain grid, grid_sol, grid_obs, grids_equal, rhs (= source on the problem's source
grid), the assembled operator at the parameter, time_steps / max_iter, and `model.forward(x)`.

Oracle (implementation only): forward = observe(solve(assemble(par2fun x))[0]) on the problem's own PDE;
the solution satisfies the discrete equations of the problem's own form; observation exact at coinciding
nodes; one value per observation point; the operator is the documented finite-difference one
(`Dx^T diag(x) Dx` with spacing endpoint/N, resp. the second difference with spacing endpoint/(dim+1));
Heat1D form time-independent with zero source and ic = parameter, time grid from 0 to max_time.
"""
from fractions import Fraction
import numpy as np
import scipy.interpolate
from harness.core import quiet, q, qv, qm, pv, pm, close

TOL = 1e-9


def _gm(kind, idx=None):
    if kind == "none":
        return None, "none"
    if kind == "pick":
        ii = list(idx)
        return (lambda g: np.asarray(g)[ii]), "pick:" + ",".join(str(i) for i in ii)
    if kind == "mid":
        return (lambda g: (g[:-1] + g[1:]) / 2), "mid"
    if kind == "shift":
        def gmap(g):
            g2 = np.array(g, dtype=float).copy(); j = len(g2) // 2; g2[j] = (g2[j] + g2[j + 1]) / 2
            return g2
        return gmap, "shift"
    raise ValueError(kind)


def _fmap(rng, kind):
    if kind == "id":
        return None, None, "id"
    if kind == "sq":
        return (lambda x: x ** 2), np.sqrt, "sq"
    a = rng.choice([0.5, 2.0, 1.5]); b = rng.choice([0.25, 1.0, 0.5])
    return (lambda x: a * x + b), (lambda y: (y - b) / a), f"aff:{q(a)}:{q(b)}"


def _pick_idx(rng, n, cls):
    if n == 0:
        return [0]
    if cls == "subset":
        k = rng.randint(1, n)
        return sorted(rng.sample(range(n), k))
    if cls == "shuffled":
        k = rng.randint(1, n)
        ii = rng.sample(range(n), k); rng.shuffle(ii)
        return ii
    if cls == "repeats":
        return [rng.randrange(n) for _ in range(rng.randint(2, n + 2))]
    if cls == "full-copy":
        return list(range(n))
    if cls == "out-of-range":
        return [0, n]
    raise ValueError(cls)


def _grid_of(geom):
    g = geom
    while hasattr(g, "geometry") and not hasattr(g, "_grid"):
        g = g.geometry
    return np.asarray(g.grid, dtype=float)


def _same(a, b, tol):
    a = np.asarray(a, dtype=float); b = np.asarray(b, dtype=float)
    if a.shape != b.shape:
        return False
    if a.size == 0:
        return True
    if np.isnan(a).any() or np.isnan(b).any():
        return False
    return bool(np.all(np.abs(a - b) <= tol * (1.0 + max(np.abs(a).max(), np.abs(b).max()))))


def _short(a):
    a = np.asarray(a)
    return f"shape={a.shape} " + np.array2string(a.ravel()[:8], precision=8)


def _vec(tok):
    return np.array([float(v) for v in pv(tok)], dtype=float) if tok not in ("", "none") else np.zeros(0)


def _mat(tok, n):
    rows = pm(tok)
    return np.array([[float(v) for v in r] for r in rows], dtype=float).reshape(len(rows), -1) if rows else np.zeros((0, n))


def _arr(tok):
    kind, _, body = tok.partition(":")
    if kind == "s":
        return np.array(float(pv(body)[0]))
    if kind == "v":
        return np.array([float(v) for v in pv(body)], dtype=float)
    rows = pm(body)
    return np.array([[float(v) for v in r] for r in rows], dtype=float)


GM_CLASSES = ["none", "none", "subset", "shuffled", "repeats", "full-copy", "mid", "shift", "out-of-range"]


def check_testproblem_models(ctx, cuqi, rng, thorough):
    from cuqi.testproblem import Poisson1D, Heat1D
    cov = {"problem": {}, "dim": {}, "gm": {}, "fmap": {}, "endpoint": {}, "branch": {}, "refusal": {}, "max_iter": {}}
    ctx.extra_cov["c18_testproblems"] = cov

    def bump(h, k):
        cov[h][str(k)] = cov[h].get(str(k), 0) + 1

    state = np.random.get_state()
    configs = []
    # ---- deterministic first cases: every observation_grid_map class, degenerate sizes, refusals
    for gmc in ["none", "subset", "shuffled", "repeats", "full-copy", "mid", "shift", "out-of-range"]:
        configs.append(dict(p="Poisson1D", dim=6, endpoint=1.0, gmc=gmc, fm="id"))
        configs.append(dict(p="Heat1D", dim=5, endpoint=1.0, max_time=0.125, gmc=gmc, fm="id"))
    for dim in (0, 1, 2, 3):
        configs.append(dict(p="Poisson1D", dim=dim, endpoint=1.0, gmc="none", fm="id"))
    for dim in (0, 1, 2):
        configs.append(dict(p="Heat1D", dim=dim, endpoint=1.0, max_time=0.25, gmc="none", fm="id"))
    configs.append(dict(p="Poisson1D", dim=5, endpoint=2.0, gmc="none", fm="sq"))          # endpoint != 1: the two grids differ
    configs.append(dict(p="Poisson1D", dim=5, endpoint=0.5, gmc="subset", fm="aff"))
    configs.append(dict(p="Poisson1D", dim=4, endpoint=1.0, gmc="none", fm="id", zero_x=True))   # singular operator
    configs.append(dict(p="Heat1D", dim=4, endpoint=1.0, max_time=0.0, gmc="none", fm="id"))     # one time level
    configs.append(dict(p="Heat1D", dim=4, endpoint=1.0, max_time=-0.1, gmc="none", fm="id"))    # negative num for linspace
    configs.append(dict(p="Heat1D", dim=4, endpoint=1.0, max_time=1e-5, gmc="none", fm="sq"))    # max_iter = 0
    configs.append(dict(p="Heat1D", dim=3, endpoint=2.0, max_time=0.5, gmc="none", fm="aff"))
    configs.append(dict(p="Heat1D", dim=6, endpoint=1.0, max_time=0.1, gmc="mid", fm="id"))
    configs.append(dict(p="Heat1D", dim=4, endpoint=1.0, max_time=0.03, gmc="none", fm="id"))    # max_iter = 1: step > cfl dx^2
    nrand = 40 if not thorough else 400
    for _ in range(nrand):
        if rng.random() < 0.5:
            configs.append(dict(p="Poisson1D", dim=rng.choice([2, 3, 4, 5, 5, 6, 7, 9, 12] if not thorough else [2, 3, 4, 5, 6, 7, 9, 12, 17, 24]),
                                endpoint=rng.choice([1.0, 1.0, 2.0, 0.5, 3.0, 0.75]), gmc=rng.choice(GM_CLASSES), fm=rng.choice(["id", "id", "sq", "aff"])))
        else:
            dim = rng.choice([1, 2, 3, 4, 5, 6, 7] if not thorough else [1, 2, 3, 4, 5, 6, 7, 9, 11])
            configs.append(dict(p="Heat1D", dim=dim, endpoint=rng.choice([1.0, 1.0, 2.0, 0.5]),
                                max_time=rng.choice([0.125, 0.0625, 0.1, 0.2, 0.03, 0.25, 0.02]) * (1.0 if dim < 6 else 0.25),
                                gmc=rng.choice(GM_CLASSES), fm=rng.choice(["id", "id", "sq", "aff"])))
    try:
        lines, cases = [], []
        for ci, cf in enumerate(configs):
            name, dim, endpoint = cf["p"], cf["dim"], cf["endpoint"]
            nnodes = max(dim - 1, 0) if name == "Poisson1D" else dim
            gmc = cf["gmc"]
            if gmc in ("none", "mid", "shift"):
                gmap, gmtok = _gm(gmc)
            else:
                gmap, gmtok = _gm("pick", _pick_idx(rng, nnodes, gmc))
            fmap, imap, fmtok = _fmap(rng, cf["fm"])
            np.random.seed(ctx.seed + 1850 + ci)
            # parameter: positive dyadic values (Poisson: conductivity; Heat: initial condition of any sign)
            if name == "Poisson1D":
                x = np.array([rng.randint(2, 12) / 4 for _ in range(dim)], dtype=float)
                if cf.get("zero_x"):
                    x = np.zeros(dim)
                src = [rng.randint(-4, 4) / 2, rng.randint(-4, 4) / 2, rng.randint(-2, 2) / 2]
                c0, c1, c2 = src
                source = lambda s, c0=c0, c1=c1, c2=c2: c0 + c1 * s + c2 * s * s
            else:
                x = np.array([rng.randint(-8, 8) / 4 for _ in range(dim)], dtype=float)
                max_time = cf["max_time"]
                # the number of steps is int(max_time/dt_approx) in floating point: keep away from integer ratios, where
                # rounding (not the code) decides
                if dim > 0 and endpoint != 0:
                    ratio = Fraction(max_time) / (Fraction(5, 11) * (Fraction(endpoint) / (dim + 1)) ** 2)
                    if abs(ratio - round(ratio)) < Fraction(1, 10 ** 6) and ratio != 0:
                        ctx.note(f"Heat1D(dim={dim}, endpoint={endpoint}, max_time={max_time}): max_time/dt_approx within 1e-6 of an integer, case skipped")
                        continue
            desc = {"problem": name, "dim": dim, "endpoint": endpoint, "observation_grid_map": gmtok, "map": fmtok, "x": x.tolist()}
            if name == "Heat1D":
                desc["max_time"] = cf["max_time"]
            else:
                desc["source_coefficients"] = src
            key = f"{name}.model:{gmc}"
            rec = dict(name=name, key=key, desc=desc, cf=cf, x=x, fmap=fmap, impl_err=None)
            try:
                with quiet():
                    if name == "Poisson1D":
                        tp = Poisson1D(dim=dim, endpoint=endpoint, source=source, map=fmap, imap=imap, observation_grid_map=gmap)
                    else:
                        tp = Heat1D(dim=dim, endpoint=endpoint, max_time=cf["max_time"], map=fmap, imap=imap, observation_grid_map=gmap)
                    model = tp.model; pde = model.pde
                    rec.update(model=model, pde=pde)
                    y = np.asarray(model.forward(x.copy()), dtype=float)
                    xf = x if fmap is None else fmap(x)
                    pde.assemble(xf)
                    sol, _ = pde.solve()
                    sol = np.asarray(sol, dtype=float)
                    manual = np.asarray(pde.observe(sol), dtype=float)
                    rec.update(y=y, xf=xf, sol=sol, manual=manual)
            except Exception as e:  # noqa
                rec["impl_err"] = type(e).__name__ + ": " + str(e)[:120]
            Wtok = "-"
            if rec["impl_err"] is None:
                gs = np.asarray(pde.grid_sol, dtype=float); go = np.asarray(pde.grid_obs, dtype=float)
                try:
                    with quiet():
                        if name == "Poisson1D":
                            W = np.asarray(scipy.interpolate.interp1d(gs, sol, kind="quadratic")(go), dtype=float); Wtok = qv(W)
                            if ci % 2 == 0:
                                Wtok = "exact"      # the model's own exact quadratic spline instead of scipy's values as data
                        else:
                            ts = np.asarray(pde.time_steps, dtype=float)
                            W = np.asarray(scipy.interpolate.RectBivariateSpline(gs, ts, sol)(go, ts[-1:]), dtype=float); Wtok = qm(W)
                        if W.size == 0:
                            Wtok = "-"
                        else:
                            rec["W"] = W.reshape(-1)
                except Exception:
                    Wtok = "err"
            if name == "Poisson1D":
                lines.append(f"tpp {dim} {q(endpoint)} {qv(src)} {fmtok} {gmtok} plain {qv(x) if dim else '0'} {Wtok}")
            else:
                lines.append(f"tph {dim} {q(endpoint)} {q(cf['max_time'])} {fmtok} {gmtok} {qv(x) if dim else '0'} {Wtok}")
            cases.append(rec)
        outs = yield lines
        for rec, out, line in zip(cases, outs, lines):
            name, key, desc, cf = rec["name"], rec["key"], rec["desc"], rec["cf"]
            ctx.case("testproblem-model", desc)
            bump("problem", name); bump("dim", f"{name}:{cf['dim']}"); bump("gm", f"{name}:{cf['gmc']}"); bump("fmap", cf["fm"]); bump("endpoint", cf["endpoint"])
            if out == "bad-op":
                raise RuntimeError("C18 test-problem driver line not understood: " + line[:200])
            toks = out.split(" ")
            model_refuses = out.startswith("err:") or toks[-1].startswith("err:")
            if rec["impl_err"] is not None:
                bump("refusal", f"{name}:{rec['impl_err'].split(':')[0]}")
                if not model_refuses:
                    ctx.disagree(key, desc, out[:160], rec["impl_err"], "the shipped test problem raises, the model of its constructor and pipeline returns")
                    ctx.fail(key, desc, "a PDEModel and a forward output", rec["impl_err"], "shipped PDE test problem raises on valid constructor arguments")
                continue
            model, pde, x, y, sol, manual, xf = rec["model"], rec["pde"], rec["x"], rec["y"], rec["sol"], rec["manual"], rec["xf"]
            gs = np.asarray(pde.grid_sol, dtype=float); go = np.asarray(pde.grid_obs, dtype=float)
            dim, endpoint = cf["dim"], cf["endpoint"]
            bump("branch", f"{name}:{'direct' if pde.grids_equal else 'interp'}")
            # ------------------------------------------------------------------ oracle (implementation only)
            if not _same(manual, y, 1e-12):
                ctx.fail(key, desc, "observe(solve(assemble(par2fun x))[0]) = " + _short(manual), _short(y),
                         "test problem's model.forward is not the assemble-solve-observe pipeline of its PDE")
            # (`squeeze()` after a single observation time also removes a space axis of length one)
            shape_ok = y.shape == (len(go),) or (len(go) == 1 and y.shape == ())
            if not shape_ok:
                ctx.fail(key, desc, f"one value per observation point: shape ({len(go)},)", f"shape {y.shape}",
                         "test problem's observation does not have one entry per observation point")
            fin = sol if sol.ndim == 1 else sol[:, -1]
            gsl = gs.tolist()
            if shape_ok and len(set(gsl)) == len(gsl):      # (a degenerate solution grid with repeated nodes has no 'value at the node')
                yr = y.reshape(-1)
                for a, v in enumerate(go.tolist()):
                    if v in gsl and not close(float(yr[a]), float(fin[gsl.index(v)]), TOL):
                        ctx.fail(key, desc, f"y[{a}] = solution at node {v} = {fin[gsl.index(v)]}", float(yr[a]),
                                 "test problem's observation at a coinciding node is not the solution value")
                        break
            # off the nodes: the documented interpolant (quadratic spline / bivariate spline), scipy called directly on the solution
            if shape_ok and len(set(gsl)) == len(gsl) and rec.get("W") is not None and not pde.grids_equal and len(rec["W"]) == len(go):
                expv = np.array([fin[gsl.index(v)] if v in gsl else rec["W"][a] for a, v in enumerate(go.tolist())])
                if not _same(expv, y.reshape(-1), TOL):
                    ctx.fail(key, desc, "solution interpolated to the observation grid: " + _short(expv), _short(y),
                             "test problem's observation is not the (documented) interpolation of its solution")
            if name == "Poisson1D":
                A, b = pde.PDE_form(xf)
                A = np.asarray(A, dtype=float); b = np.asarray(b, dtype=float)
                N = dim - 1
                res = np.abs(A @ sol - b).max() / (1.0 + np.abs(b).max() + np.abs(A).sum(axis=1).max() * np.abs(sol).max())
                if not res <= TOL:
                    ctx.fail(key, desc, "A(x) u = b", f"scaled residual {res:.3e}", "Poisson1D solution violates its discrete equations")
                Dref = np.vstack([np.eye(N)[0:1], -np.eye(N) + np.diag(np.ones(N - 1), 1)]) * (N / endpoint)
                if not _same(Dref.T @ np.diag(xf) @ Dref, A, 1e-12):
                    ctx.fail(key + ":operator", desc, "Dx^T diag(x) Dx, Dx the (N+1) x N difference matrix of spacing endpoint/N", _short(A),
                             "Poisson1D operator is not the documented discretisation")
            else:
                ts = np.asarray(pde.time_steps, dtype=float)
                A, b, ic = pde.PDE_form(xf, ts[0])
                A2, b2, ic2 = pde.PDE_form(xf, ts[-1])
                A = np.asarray(A, dtype=float)
                if not (np.array_equal(A, A2) and not np.any(b) and not np.any(b2) and np.array_equal(ic, xf) and np.array_equal(ic2, xf)):
                    ctx.fail(key + ":form", desc, "time-independent operator, zero source, ic = parameter", "differs", "Heat1D form is not the documented one")
                dx = endpoint / (dim + 1)
                Lref = (np.diag(-2 * np.ones(dim)) + np.diag(np.ones(dim - 1), 1) + np.diag(np.ones(dim - 1), -1)) / dx ** 2
                if not _same(Lref, A, 1e-12):
                    ctx.fail(key + ":operator", desc, "second-difference matrix with spacing endpoint/(dim+1)", _short(A), "Heat1D operator is not the documented discretisation")
                if not (ts[0] == 0.0 and close(float(ts[-1]), float(max(cf["max_time"], 0.0)) if len(ts) > 1 else 0.0, 1e-12)):
                    ctx.fail(key + ":time-grid", desc, f"time grid from 0 to max_time={cf['max_time']}", _short(ts), "Heat1D time grid does not span [0, max_time]")
                # per-level explicit Euler residual with the documented operator
                bad = None
                for k in range(len(ts) - 1):
                    dt = ts[k + 1] - ts[k]
                    rhs = sol[:, k] + dt * (A @ sol[:, k])
                    sc = 1.0 + np.abs(sol[:, k]).max() * (1.0 + abs(dt) * np.abs(A).sum(axis=1).max())
                    if np.abs(sol[:, k + 1] - rhs).max() > TOL * sc:
                        bad = k; break
                if sol.shape != (dim, len(ts)) or not _same(sol[:, 0], xf, 1e-12) or bad is not None:
                    ctx.fail(key, desc, "level 0 = parameter, every level the forward-Euler step from the previous one", f"first bad level {bad}, shape {sol.shape}",
                             "Heat1D solution violates its discrete equations")
                bump("max_iter", min(len(ts) - 1, 50))
            # ------------------------------------------------------------------ tie with the model
            if out.startswith("err:"):
                ctx.disagree(key, desc, out, _short(y), "model of the constructor refuses, implementation builds the problem")
                continue
            try:
                if name == "Poisson1D":
                    _, mN, mgd, mgs, mgo, meq, _msrc, mA, mrhs, mout = toks
                    parts = [("N", int(mN), len(gs)), ("domain_dim", dim, int(model.domain_dim)), ("range_dim", len(_vec(mgo)), int(model.range_dim))]
                    for nm, a, b_ in parts:
                        if a != b_:
                            ctx.disagree(key, desc, f"{nm}={a}", f"{nm}={b_}", "size of the shipped problem differs from the model of its constructor")
                    for nm, a, b_ in [("grid_domain", _vec(mgd), _grid_of(model.domain_geometry)), ("grid_sol", _vec(mgs), gs), ("grid_obs", _vec(mgo), go),
                                     ("rhs", _vec(mrhs), b), ("diff_op", _mat(mA, int(mN)), A)]:
                        if not _same(a, b_, 1e-10):
                            ctx.disagree(key, desc, f"{nm} " + _short(a), f"{nm} " + _short(b_), f"{nm} of the shipped problem differs from the model of its constructor")
                else:
                    _, mmi, mts, mgs, mgo, meq, mA, mout = toks
                    if int(mmi) != len(ts) - 1:
                        ctx.disagree(key, desc, f"max_iter={mmi}", f"max_iter={len(ts) - 1}", "number of time steps differs from int(max_time/(5/11 dx^2))")
                    if pde.method != "forward_euler":
                        ctx.disagree(key, desc, "forward_euler", pde.method, "Heat1D time-stepping method")
                    if not _same(np.asarray(pde._time_obs, dtype=float), ts[-1:], 0.0):
                        ctx.disagree(key, desc, "time_obs = final time", _short(pde._time_obs), "Heat1D observation times")
                    for nm, a, b_ in [("domain_dim", dim, int(model.domain_dim)), ("range_dim", len(_vec(mgo)), int(model.range_dim))]:
                        if a != b_:
                            ctx.disagree(key, desc, f"{nm}={a}", f"{nm}={b_}", "size of the shipped problem differs from the model of its constructor")
                    for nm, a, b_ in [("time_steps", _vec(mts), ts), ("grid_sol", _vec(mgs), gs), ("grid_obs", _vec(mgo), go), ("diff_op", _mat(mA, dim), A),
                                     ("grid_domain", _vec(mgs), _grid_of(model.domain_geometry))]:
                        if not _same(a, b_, 1e-10):
                            ctx.disagree(key, desc, f"{nm} " + _short(a), f"{nm} " + _short(b_), f"{nm} of the shipped problem differs from the model of its constructor")
                if (meq == "1") != bool(pde.grids_equal):
                    ctx.disagree(key, desc, f"grids_equal={meq}", f"grids_equal={bool(pde.grids_equal)}", "grids_equal flag of the shipped problem")
                if mout.startswith("err:"):
                    ctx.disagree(key, desc, mout, _short(y), "model refuses, implementation returns")
                elif not _same(_arr(mout), y, 1e-8):
                    ctx.disagree(key, desc, _short(_arr(mout)), _short(y), "forward output of the shipped problem differs from the model built from the constructor arguments")
            except ValueError as e:
                raise RuntimeError(f"C18 test-problem driver output not understood: {out[:200]} ({e})")
    finally:
        np.random.set_state(state)
