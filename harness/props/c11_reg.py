"""C11 helper — RegularizedGaussian-family originals whose conditioning variable is given DIRECTLY as None
(`mean=None`, `cov=None`, `prec=None`, `sqrtprec=None` with an explicit geometry), possibly next to a callable one.

The setters of `RegularizedGaussian` (mean / cov / prec / sqrtprec / sqrtcov) write THROUGH to the inner Gaussian, and a
conditioned copy is a shallow copy: any assignment on the copy made before its inner Gaussian is replaced lands in the
ORIGINAL's inner Gaussian.  Random short programs (keyword / positional / partial / empty conditioning, to_likelihood, logd,
repeated with different values, on the original and on every derived object) are run on RegularizedGaussian,
ConstrainedGaussian, NonnegativeGaussian (and the GMRF variants where the constructor accepts the combination).
Correspondence: result kind, parameter names, name, allocations vs the heap model (`condReg`: the inner Gaussian holds the
mutable variables, `unset` slots).  Oracle after every op: structural snapshot + facts (conditioning variables, parameter
names, name, is_cond, which parameters are None, inner Gaussian's conditioning variables, logd at a full binding) of the
original and of every derived object.
"""
import random
import numpy as np
from harness.core import quiet

N = 4
CONFIGS = [("mean", None), ("cov", None), ("prec", None), ("sqrtprec", None), ("mean", "cov_fn"), ("cov", "mean_fn")]
KEYID = {"mean": 100, "cov": 101}


def _facts(o, vals):
    def t(f):
        try:
            with quiet():
                return f()
        except Exception as e:  # noqa
            return "exc:" + type(e).__name__
    out = {"type": type(o).__name__, "cv": t(lambda: list(o.get_conditioning_variables())), "names": t(lambda: list(o.get_parameter_names())),
           "name": t(lambda: o.name), "is_cond": t(lambda: o.is_cond)}
    g = getattr(o, "_gaussian", None) if "_gaussian" in getattr(o, "__dict__", {}) else None
    if g is not None:
        out["inner_cv"] = t(lambda: list(g.get_conditioning_variables()))
        out["mean_is_none"] = t(lambda: g.__dict__.get("_mean") is None)
    names = out["names"]
    # (logd of a still conditional object conditions a copy internally: that is an operation of its own — op kind `logd` —, not
    #  part of the fingerprint)
    if isinstance(names, list) and out["cv"] == [] and all(k in vals for k in names):
        v = t(lambda: o.logd(**{k: vals[k][0] for k in names}))
        try:
            out["logd"] = ["nan" if x != x else repr(float(x)) for x in np.asarray(v, dtype=float).ravel()]
        except Exception:  # noqa
            out["logd"] = str(v)[:40]
    return out


def regularized_none_programs(ctx, cuqi, n_prog):
    import cuqi.implicitprior as IP
    from harness.props import c11
    classes = ["RegularizedGaussian", "ConstrainedGaussian", "NonnegativeGaussian", "RegularizedGMRF", "ConstrainedGMRF", "NonnegativeGMRF"]
    progs, lines = [], []
    hist = {}
    for idx in range(n_prog):
        rng = random.Random(f"C11-reg-{ctx.seed}-{idx}")
        cn = classes[idx % len(classes)] if rng.random() < 0.8 else rng.choice(classes[:3])
        none_var, other = CONFIGS[(idx // len(classes) + rng.randint(0, 1)) % len(CONFIGS)]
        if "GMRF" in cn and none_var in ("cov", "sqrtprec"):
            none_var = "prec"
        vals = {"mean": [np.arange(N, dtype=float), 10.0 + np.arange(N, dtype=float)], "cov": [2.0, 0.5], "prec": [3.0, 0.25], "sqrtprec": [2.0, 0.5],
                "s": [1.5, 4.0], "u": [np.ones(N), 2.0 * np.ones(N)], "x": [np.array([0.5, 1.0, 0.0, 2.0]), np.array([1.0, 1.0, 1.0, 1.0])]}
        kw = {none_var: None}
        second = "cov" if none_var == "mean" else "mean"
        if "GMRF" in cn and second == "cov":
            second = "prec"
        if other == "cov_fn":
            kw[second] = (lambda s: s) if second != "mean" else (lambda u: u)
        elif other == "mean_fn":
            kw["mean"] = lambda u: u
        else:
            kw[second] = (np.zeros(N) if second == "mean" else 2.0)
        extra = {} if cn.startswith("Nonneg") else {"constraint": "nonnegativity"}
        try:
            with quiet():
                x = getattr(IP, cn)(**kw, **extra, **({} if "GMRF" in cn else {"geometry": N}), name="x")
                cv = list(x.get_conditioning_variables())
        except Exception as e:  # noqa
            hist["refused:" + cn] = hist.get("refused:" + cn, 0) + 1
            continue
        desc0 = {"program": idx, "seed": ctx.seed, "class": cn, "parameters": {k: ("None" if v is None else ("callable" if callable(v) else "value")) for k, v in kw.items()},
                 "conditioning_variables": cv}
        hist[cn + ":" + none_var + ("+callable" if other else "")] = hist.get(cn + ":" + none_var + ("+callable" if other else ""), 0) + 1

        def kid(k):
            return KEYID.get(k, KEYID["cov"] if k in ("prec", "sqrtprec") else (c11.name_id(k) if c11.name_id(k) is not None else 9990))
        # heap text of the model: geometry, inner Gaussian (holds the mutable variables), RegularizedGaussian
        s0 = "u100" if kw.get("mean", 0) is None else ("f1/%d" % c11.name_id("u") if callable(kw.get("mean")) else "n1")
        cov_key = [k for k in kw if k != "mean"][0]
        s1 = "u101" if kw[cov_key] is None else ("f2/%d" % c11.name_id("s") if callable(kw[cov_key]) else "n2")
        heap = f"g:;d:fam=n0,geom=r0,s0={s0},s1={s1};r:fam=n7,name=n{c11.name_id('x')},gauss=r1"
        tracked = [("@2", x)]
        snaps = [c11.snapshot(x)]
        facts = [_facts(x, vals)]
        ops_txt, impl, ops_desc = [], [], []
        bad = None
        fp_bad = c11.snap_equal(snaps[0], c11.snapshot(x))      # taking the facts evaluates `x.logd(**all)`: already an operation
        if fp_bad:
            ctx.case("program:regularized-none", {"program": idx, "seed": ctx.seed, "class": cn, "parameters": desc0["parameters"], "n_ops": 0})
            ctx.fail("alter:logd:regularized-none:fingerprint", {**desc0, "op": "x.logd(**{all parameter names})"}, "original unchanged", fp_bad[:3],
                     f"evaluating logd of the conditional {cn} (which conditions a copy internally) altered the original")
            continue
        for step in range(rng.randint(3, 6)):
            ref, o = rng.choice(tracked[:1] * 2 + tracked)
            ocv = []
            try:
                ocv = list(o.get_conditioning_variables())
            except Exception:  # noqa
                pass
            kind = rng.choice(["full", "full", "partial", "pos", "empty", "tolik", "logd"]) if type(o).__name__ != "Likelihood" else rng.choice(["full", "empty", "logd"])
            which = rng.randint(0, 1)
            res, code, txt = None, None, None
            try:
                with quiet():
                    if kind in ("full", "partial"):
                        sub = ocv if kind == "full" else ocv[:1]
                        res = o(**{k: vals[k][which] for k in sub})
                        txt = f"c:{ref}:" + ("&".join(f"{kid(k)}={which + 1}" for k in sub) or ".")
                    elif kind == "pos":
                        res = o(*[vals[k][which] for k in ocv[:1]])
                        txt = f"c:{ref}:" + ("&".join(f"{kid(k)}={which + 1}" for k in ocv[:1]) or ".")       # (keyword form on the model side)
                    elif kind == "empty":
                        res = o()
                        txt = f"c:{ref}:."
                    elif kind == "tolik":
                        res = o.to_likelihood(vals["x"][which])
                        txt = f"t:{ref}:{which + 1}"
                    else:
                        names = list(o.get_parameter_names())
                        res = o.logd(**{k: vals[k][which] for k in names})
                        txt = f"l:{ref}:" + ("&".join(f"{kid(k) if k != 'x' else c11.name_id('x')}={which + 1}" for k in names) or ".")
            except Exception as e:  # noqa
                res = e
                if txt is None:
                    continue
            k = len(ops_txt)
            ops_txt.append(txt)
            ops_desc.append({"op": kind, "on": ref, "args": txt, "values": which})
            if isinstance(res, Exception):
                impl.append({"kind": "e", "exc": type(res).__name__})
            elif kind == "logd":
                impl.append({"kind": "v"})
            else:
                L = c11.letter(cuqi, res)
                nm = []
                try:
                    nm = [kid(q) if q != "x" else c11.name_id("x") for q in res.get_parameter_names()]
                except Exception:  # noqa
                    nm = "exc"
                name = None
                if L in ("d", "n", "r", "L", "E"):
                    try:
                        name = c11.name_id(res.name)
                    except Exception:  # noqa
                        name = "exc"
                existing = any(res is ot for _, ot in tracked)
                impl.append({"kind": L + ("=" if existing else "+"), "names": nm, "name": name})
                if not existing:
                    tracked.append((f"${k}", res)); snaps.append(c11.snapshot(res)); facts.append(_facts(res, vals))
                else:
                    res = ValueError("existing")      # (nothing new to exclude from the check below)
            # ---- oracle: the original and every object derived earlier are what they were
            if bad is None:
                for t_, (r_, ot) in enumerate(tracked[:len(tracked) - (0 if isinstance(res, Exception) or kind == "logd" else 1)]):
                    d = c11.snap_equal(snaps[t_], c11.snapshot(ot))
                    f = _facts(ot, vals)
                    if d or f != facts[t_]:
                        bad = (k, t_, r_, d[:3], {q: (facts[t_].get(q), f.get(q)) for q in f if f.get(q) != facts[t_].get(q)})
                        break
        progs.append((desc0, ops_desc, impl, bad, cn, none_var))
        lines.append(f"prog {heap} " + ";".join(ops_txt))
    outs = ctx.lean.drive(lines)
    for (desc0, ops_desc, impl, bad, cn, none_var), out in zip(progs, outs):
        desc = {**desc0, "ops": ops_desc}
        ctx.case("program:regularized-none", {"program": desc0["program"], "seed": ctx.seed, "class": cn, "parameters": desc0["parameters"], "n_ops": len(ops_desc)})
        okey = None
        if bad is not None:
            k, t_, r_, sd, fd = bad
            okey = f"{'alter' if t_ == 0 else 'sibling'}:cond:regularized-none:{ops_desc[k]['op']}"
            ctx.fail(okey, {**desc, "op_index": k, "op": ops_desc[k], "object": r_}, "object unchanged (structure, conditioning variables, parameter names, name, logd)",
                     {"structure": sd, "facts": fd},
                     f"op #{k} ({ops_desc[k]['op']} on {ops_desc[k]['on']}) altered {'the original' if t_ == 0 else 'the derived object ' + r_} "
                     f"(a {cn} whose `{none_var}` is given directly as None)")
        if out == "bad-op":
            ctx.disagree(okey or "driver:bad-op:reg", desc, "bad-op", "ok", "driver could not parse the program"); continue
        recs, sib = c11.parse_model(out)
        for k, (m, i) in enumerate(zip(recs, impl)):
            diffs = []
            if (m["kind"] == "e") != (i["kind"] == "e"):
                diffs.append(f"refusal differs: model {m['kind']} vs impl {i['kind']} {i.get('exc', '')}")
            elif m["kind"] not in ("e", "v") and i["kind"] not in ("e", "v"):
                if m["kind"] != i["kind"]:
                    diffs.append(f"result kind {m['kind']} vs {i['kind']}")
                if m["names"] != i.get("names"):
                    diffs.append(f"parameter names {m['names']} vs {i.get('names')}")
                if m["name"] != i.get("name"):
                    diffs.append(f"name {m['name']} vs {i.get('name')}")
            if m.get("fp", "1").strip("1") != "":
                diffs.append("model fingerprint changed")
            if diffs:
                same_op = bad is not None and bad[0] == k
                ctx.disagree((okey if same_op else None) or f"tie:regularized-none:{ops_desc[k]['op']}", {**desc, "op_index": k}, m, i, "; ".join(diffs))
                break
    ctx.extra_cov["regularized_none_programs"] = hist
