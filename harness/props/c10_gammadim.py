"""C10, session-3 extension: the dimension of the Gamma prior (`prior.dim`, the quantity all anchored validators test)
and the number of variates one step draws.

`Distribution.dim` -> `Distribution.geometry` getter (inference from the lengths of `shape` / `rate`, precedence of an
explicit geometry, the `TypeError` / `ValueError` branches) is modelled by `inferDim` / `gammaPriorDim`
(`lean/CuqiVerif/Model/C10_gammadim.lean`); so far the harness *supplied* the prior's dimension to the model.
Tie: for every (len shape, len rate, geometry) in {0 (callable), 1, 2, 3} x {0, 1, 2, 3} x {none, 1, 2, 3}
  (i) `Gamma(...).dim` or the exception class  ==  model `gammadim`;
  (ii) where a Posterior can be built: the verdict of all four validators == model `validateg` (the prior's dimension
       computed by the model from the three numbers);
  (iii) where the validator accepts: the number of gamma variates of one step == model `drawnDim`.
Oracle (implementation only): a validator that accepts a prior with `dim != 1` where the faithful model rejects is a
failing input (non-scalar Gamma accepted); the legacy ConjugateApprox acceptances are the listed finding and are
reported by the validator stream of c10.py, not here.
"""
import itertools
import numpy as np
from harness.core import quiet


def stream_gamma_dim(ctx, cuqi, thorough):
    lines, state = prepare_gamma_dim(ctx, cuqi, thorough)
    finish_gamma_dim(ctx, cuqi, state, lines, ctx.lean.drive(lines))


def prepare_gamma_dim(ctx, cuqi, thorough):
    return _gamma_dim(ctx, cuqi, thorough, None, None)


def finish_gamma_dim(ctx, cuqi, state, lines, outs):
    return _gamma_dim(ctx, cuqi, None, lines, outs)


def _gamma_dim(ctx, cuqi, thorough, lines_in, outs):
    import harness.props.c10 as base
    D = cuqi.distribution
    E, L = cuqi.experimental.mcmc, cuqi.sampler
    n = 3
    data = np.array([1.0, 0.5, 2.5])

    def par(k, v):
        if k == 0:
            return (lambda z: z)         # a callable parameter: conditional Gamma (infer_len 0)
        return v if k == 1 else v * np.ones(k)

    combos = list(itertools.product((0, 1, 2, 3), (0, 1, 2, 3), (None, 1, 2, 3)))
    if ctx.tier == "thorough":
        combos += [(a, r, g) for a in (1, 4, 5) for r in (1, 4, 5) for g in (None, 0, 4, 5)]
    gtok = lambda g: "-" if g is None else str(g)
    lines, meta = [], []
    ifaces = {"exp": (E.Conjugate, "gaussian"), "leg": (L.Conjugate, "gaussian"), "approx": (E.ConjugateApprox, "lmrf"),
              "approxleg": (L.ConjugateApprox, "lmrf")}
    for a, r, g in combos:
        lines.append(f"gammadim {a} {r} {gtok(g)}")
        meta.append(("dim", a, r, g, None))
        if a >= 1 and r >= 1:
            for iface, (_, lik) in ifaces.items():
                if lik == "gaussian":
                    vt = "mean:0:0:- cov:1:1:1|1/10|1/100"
                else:
                    vt = "location:0:0:- scale:1:1:1|1/10|1/100"
                lines.append(f"validateg {iface} {a} {r} {gtok(g)} 1 {lik} 1 1 {vt}")
                meta.append(("val", a, r, g, iface))
    if outs is None:
        return lines, None
    hist = ctx.extra_cov.setdefault("gamma_prior_dim", {})
    for (kind, a, r, g, iface), out in zip(meta, outs):
        if out == "bad-op":
            raise RuntimeError(f"driver rejected gamma-dim line ({kind}, {a}, {r}, {g}, {iface})")
        desc = {"len_shape": a, "len_rate": r, "geometry": g}
        kw = {} if g is None else {"geometry": g}
        if kind == "dim":
            ctx.case("gamma-dim", desc)
            try:
                with quiet():
                    impl = f"dim {D.Gamma(par(a, 2.0), par(r, 3.0), name='s', **kw).dim}"
            except Exception as e:
                impl = "raises"
            # demanded: a dimension, or a refusal (the exception class -- TypeError / ValueError in the model -- is not compared)
            want = " ".join(out.split()[:2]) if out.startswith("dim") else "raises"
            hist[f"dim:{want}"] = hist.get(f"dim:{want}", 0) + 1
            if impl != want:
                key = f"tie:gamma-dim:{a}:{r}:{g}"
                ctx.disagree(key, desc, want, impl, "Gamma(...).dim differs from the model's inferDim")
            continue
        # ---- validators with the prior's dimension computed by the model
        desc["validator"] = iface
        ctx.case(f"gamma-dim-validate-{iface}", desc)
        key = f"tie:gamma-dim:validate:{iface}:{a}:{r}:{g}"
        cons, lik = ifaces[iface]
        try:
            with quiet():
                prior = D.Gamma(par(a, 2.0), par(r, 3.0), name="s", **kw)
                if lik == "gaussian":
                    x = D.Gaussian(np.zeros(n), cov=lambda s: 1 / s, name="x")
                else:
                    x = D.LMRF(0, lambda s: 1 / s, geometry=n, name="x")
                post = D.Posterior(x.to_likelihood(data), prior)
            built = True
        except Exception as e:
            built = False
        if not built:
            hist["posterior:unbuildable"] = hist.get("posterior:unbuildable", 0) + 1
            if out != "unbuildable":
                ctx.disagree(key, desc, out, "Posterior cannot be built", "the model expects a target here")
            continue
        try:
            with quiet():
                smp = cons(post)
            impl = "ok"
        except Exception as e:
            impl = base.classify(e)
        hist[f"{iface}:{impl}"] = hist.get(f"{iface}:{impl}", 0) + 1
        if impl != out:
            ctx.disagree(key, desc, out, impl, "validator decision (prior dimension computed by the model) differs")
            try:
                pdim = int(post.prior.dim)
            except Exception:
                pdim = -1
            if impl == "ok" and pdim != 1:
                got = {"accepted": True, "prior_dim": pdim}
                try:
                    with base.Capture(cuqi) as cap, quiet():
                        smp.step()
                    got["variates_drawn_in_one_step"] = [c["nvariates"] for c in cap.calls]
                except Exception as e:
                    got["step"] = f"raised {type(e).__name__}: {str(e)[:80]}"
                ctx.fail(key, desc, "rejected: non-scalar Gamma prior", got, "a posterior with a non-scalar Gamma prior is accepted instead of rejected")
            continue
        if impl != "ok":
            continue
        # ---- accepted: how many variates does one step draw?
        want_d = None
        try:
            with base.Capture(cuqi) as cap, quiet():
                smp.step()
            got_d = str(cap.calls[0]["nvariates"]) if len(cap.calls) == 1 else f"{len(cap.calls)} calls"
        except Exception as e:
            got_d = "x"
        mdl = outs[lines.index(f"gammadim {a} {r} {gtok(g)}")].split()
        want_d = mdl[3] if len(mdl) == 4 else "?"
        hist[f"{iface}:drawn:{got_d}:prior_dim:{mdl[1] if len(mdl) > 1 else '?'}"] = hist.get(f"{iface}:drawn:{got_d}:prior_dim:{mdl[1] if len(mdl) > 1 else '?'}", 0) + 1
        if got_d != want_d:
            ctx.disagree(key + ":draws", desc, want_d, got_d, "number of gamma variates drawn by one step differs from the model's drawnDim")
