"""C05 — direct samples follow the distribution's own density and the given random stream.

Tie: the `rng` handed to `sample(N, rng=…)` is a scripted recorder (a `RandomState` subclass whose
generator methods return chosen arrays and record `(method, args)`).  For Gaussian / GMRF /
Lognormal the draws are `0, e_1, …, e_m`, so one call returns offset and linear part of the affine
map `xi -> sample`, which is compared with the executable Lean model (exact rational solve with the
solver selection of the code).  For the univariate families the recorded generator call is compared
with the model's plumbing record.

Oracle (implementation only): the log-density of the *same object* is probed by exact second
differences (quadratic densities: Hessian = precision, stationary point = mean) and compared with the
read-off affine map (`B Bᵀ · H = I`, gradient zero at the offset); for the univariate families the
law of the recorded generator call pushed through the (monotone) map `draw -> sample` is compared
with the integral of `exp(logpdf)`; wrapping (type / shape / geometry), refusal of conditional
distributions, determinism under a given generator and untouched global random state are checked
on every call.
"""
import math
import numpy as np
from fractions import Fraction
from harness.core import import_cuqi, quiet, q, qv, qm, pq, pv, pm, close, vclose, mclose

TOL = 1e-9


# ----------------------------------------------------------------------------- scripted generator
class Script(np.random.RandomState):
    """RandomState whose generator methods return scripted values and record the calls.
    `plan(method, shape)` must return an array of that shape (or None -> default grid)."""

    def __init__(self, plan=None):
        super().__init__(12345)
        self.calls = []
        self.plan = plan

    def _out(self, method, args, size):
        if size is None:
            shape = ()
        elif isinstance(size, (int, np.integer)):
            shape = (int(size),)
        else:
            shape = tuple(int(s) for s in size)
        self.calls.append((method, args, shape))
        v = self.plan(method, shape, len(self.calls) - 1) if self.plan is not None else None
        if v is None:
            n = int(np.prod(shape)) if shape else 1
            v = ((np.arange(n) + 1.0) / (n + 1.0)).reshape(shape)
        v = np.asarray(v, dtype=float)
        if shape == ():
            return float(v.reshape(-1)[0])
        return v.reshape(shape).copy()

    def randn(self, *shape):
        return self._out("randn", (), tuple(shape) if shape else None)

    def standard_normal(self, size=None):
        return self._out("standard_normal", (), size)

    def normal(self, loc=0.0, scale=1.0, size=None):
        return self._out("normal", (loc, scale), size)

    def gamma(self, shape, scale=1.0, size=None):
        return self._out("gamma", (shape, scale), size)

    def standard_gamma(self, shape, size=None):
        return self._out("standard_gamma", (shape,), size)

    def beta(self, a, b, size=None):
        return self._out("beta", (a, b), size)

    def laplace(self, loc=0.0, scale=1.0, size=None):
        return self._out("laplace", (loc, scale), size)

    def uniform(self, low=0.0, high=1.0, size=None):
        return self._out("uniform", (low, high), size)

    def random_sample(self, size=None):
        return self._out("random_sample", (), size)

    def rand(self, *shape):
        return self._out("rand", (), tuple(shape) if shape else None)

    def standard_cauchy(self, size=None):
        return self._out("standard_cauchy", (), size)

    def standard_exponential(self, size=None):
        return self._out("standard_exponential", (), size)

    def exponential(self, scale=1.0, size=None):
        return self._out("exponential", (scale,), size)


def unit_plan(rows):
    """draws [0 | I]: column 0 is the zero vector, column k the k-th unit vector"""
    def plan(method, shape, k):
        assert len(shape) == 2 and shape[0] == rows and shape[1] == rows + 1, (method, shape, rows)
        return np.hstack([np.zeros((rows, 1)), np.eye(rows)])
    return plan


def dense(M):
    return np.asarray(M.todense()) if hasattr(M, "todense") else np.asarray(M)


def global_state_fingerprint():
    s = np.random.get_state()
    return (s[0], s[1].tobytes(), s[2], s[3], s[4])


class Sampled:
    """result of one guarded `dist.sample(N, rng=…)` call"""
    pass


def call_sample(dist, N, rng):
    """run dist.sample(N, rng=rng); returns (value or None, error-class or None, global-state-unchanged)"""
    before = global_state_fingerprint()
    try:
        with quiet():
            s = dist.sample(N, rng=rng)
        err = None
    except Exception as e:  # noqa
        s, err = None, type(e).__name__ + ": " + str(e)[:100]
    after = global_state_fingerprint()
    return s, err, before == after


def shape_token(cuqi, s):
    """canonical description of what sample() returned, in the vocabulary of the model"""
    from cuqi.samples import Samples
    from cuqi.array import CUQIarray
    if isinstance(s, Samples):
        a = np.asarray(s.samples)
        if a.ndim == 1:
            return f"samples1 {a.shape[0]}"
        if a.ndim == 2:
            return f"samples2 {a.shape[0]} {a.shape[1]}"
        return f"samples-nd {a.shape}"
    if isinstance(s, CUQIarray):
        if s.ndim == 0:
            return "scalar"
        if s.ndim == 1:
            return f"array {s.shape[0]}"
        return f"array-nd {s.shape}"
    return "other " + type(s).__name__


def wrap_oracle(cuqi, dist, N, s):
    """property: one draw -> array with the distribution's geometry (dim entries); several draws ->
    sample collection with one column per draw.  Returns a list of (demanded, got) failures."""
    from cuqi.samples import Samples
    from cuqi.array import CUQIarray
    out = []
    dim = int(dist.dim)
    if N == 1:
        if not isinstance(s, CUQIarray):
            out.append(("CUQIarray for N=1", type(s).__name__))
        else:
            if int(np.asarray(s).size) != dim:
                out.append((f"{dim} entries (the distribution's dimension)", f"{int(np.asarray(s).size)} entries"))
            if s.geometry is not dist.geometry and s.geometry != dist.geometry:
                out.append(("the distribution's geometry", repr(s.geometry)))
            if s.is_par is not True:
                out.append(("parameter array", "is_par False"))
    else:
        if not isinstance(s, Samples):
            out.append(("Samples for N>1", type(s).__name__))
        else:
            a = np.asarray(s.samples)
            if s.Ns != N or a.shape[-1] != N:
                out.append((f"{N} columns", f"shape {a.shape}"))
            elif int(np.prod(a.shape[:-1])) != dim:
                out.append((f"{dim} parameters per column", f"shape {a.shape}"))
            if s.geometry is not dist.geometry and s.geometry != dist.geometry:
                out.append(("the distribution's geometry", repr(s.geometry)))
    return out


def values(s, dim=None):
    """(dim, N) float array of the numbers returned"""
    a = np.asarray(s.samples if hasattr(s, "samples") else s, dtype=float)
    if a.ndim == 0:
        return a.reshape(1, 1)
    if a.ndim == 1:
        if hasattr(s, "samples"):
            return a.reshape(1, -1)
        return a.reshape(-1, 1)
    return a


# ----------------------------------------------------------------------------- density probes (oracle)
def logpdf1(dist, x):
    with quiet():
        try:
            v = dist.logpdf(np.asarray(x, dtype=float))
        except NotImplementedError:
            # sparse full matrices without cholmod: only the un-normalised log-density is reported
            v = dist._logupdf(np.asarray(x, dtype=float))
    return float(np.asarray(v, dtype=float).ravel()[0])


def hessian_from_logpdf(dist, center, h=1.0):
    """-Hessian of logpdf by exact second differences (exact for quadratic log-densities)"""
    n = len(center)
    c = np.asarray(center, dtype=float)
    f0 = logpdf1(dist, c)
    fi = []
    E = np.eye(n) * h
    for i in range(n):
        fi.append(logpdf1(dist, c + E[i]))
    H = np.zeros((n, n))
    fm = [logpdf1(dist, c - E[i]) for i in range(n)]
    for i in range(n):
        H[i, i] = -(fi[i] - 2 * f0 + fm[i]) / h ** 2
        for j in range(i):
            fij = logpdf1(dist, c + E[i] + E[j])
            H[i, j] = H[j, i] = -(fij - fi[i] - fi[j] + f0) / h ** 2
    grad = np.array([(fi[i] - fm[i]) / (2 * h) for i in range(n)])
    return H, grad


def affine_oracle(dist, offset, B, key, desc, ctx, singular=False, tol=1e-7, Hfallback=None):
    """the affine map xi -> offset + B xi has mean `offset` and covariance B Bᵀ; the log-density of the
    same object is quadratic with Hessian -H and stationary point m: demand grad logpdf(offset) = 0 and
    (B Bᵀ) H = I  (singular H: H (B Bᵀ) H = H)."""
    n = len(offset)
    H, g = hessian_from_logpdf(dist, offset)
    fails = 0
    if not np.all(np.isfinite(H)):
        if Hfallback is None:
            ctx.note(f"log-density not finite around the offset at {desc}; covariance oracle skipped")
            return 0
        H = Hfallback
        g = np.zeros(n)
        ctx.extra_cov.setdefault("oracle_density_nonfinite", 0)
        ctx.extra_cov["oracle_density_nonfinite"] += 1
    scale = max(1.0, float(np.abs(H).max()))
    if np.abs(g).max() > tol * scale * max(1.0, float(np.abs(offset).max())):
        ctx.fail(key, desc, "gradient of the object's log-density vanishes at the mean of the draws (draw at xi = 0)",
                 {"offset": offset.tolist()[:8], "grad_logpdf_at_offset": g.tolist()[:8]},
                 "mean of the draws is not the mean implied by the log-density")
        fails += 1
    C = B @ B.T
    if singular:
        lhs, rhs = H @ C @ H, H
    else:
        lhs, rhs = C @ H, np.eye(n)
    err = float(np.abs(lhs - rhs).max())
    if err > tol * max(1.0, float(np.abs(rhs).max()), float(np.abs(lhs).max())):
        ctx.fail(key, desc, "cov(draws) = inverse of the precision implied by the log-density" + (" (on the range of the precision)" if singular else ""),
                 {"max_abs_error": err, "cov_draws_diag": np.diag(C).tolist()[:8],
                  "cov_density_diag": (np.diag(np.linalg.pinv(H)).tolist()[:8])},
                 "covariance of the draws differs from the covariance implied by the log-density")
        fails += 1
    return fails


# ----------------------------------------------------------------------------- Gaussian generators
def rint(rs, lo, hi, size=None):
    return rs.randint(lo, hi + 1, size=size)


def gen_matrix(rs, kind, n):
    """small-integer / dyadic square-root matrices with non-zero diagonal"""
    d = rs.choice([1.0, 2.0, 4.0, 0.5, -1.0, -2.0], size=n)
    if kind == "diag":
        return np.diag(d)
    off = rint(rs, -2, 2, size=(n, n)).astype(float)
    if kind == "lower":
        M = np.tril(off, -1) + np.diag(d)
        if n >= 2 and not np.any(np.tril(M, -1)):
            M[n - 1, 0] = 1.0
        return M
    if kind == "upper":
        M = np.triu(off, 1) + np.diag(d)
        if n >= 2 and not np.any(np.triu(M, 1)):
            M[0, n - 1] = 1.0
        return M
    if kind == "lowerbi":
        M = np.diag(d)
        for i in range(1, n):
            M[i, i - 1] = float(rs.choice([-1.0, 1.0, 0.5]))
        return M
    if kind == "upperbi":
        M = np.diag(d)
        for i in range(n - 1):
            M[i, i + 1] = float(rs.choice([-1.0, 1.0, 0.5]))
        return M
    # full non-symmetric, diagonally dominant (invertible)
    M = off.copy()
    for i in range(n):
        M[i, i] = (np.abs(off[i]).sum() + 1.0) * (1.0 if rs.rand() < 0.7 else -1.0)
    if n >= 2 and np.allclose(M, M.T):
        M[0, 1] += 1.0
    return M


def to_model_R(ctx, R):
    return qm(dense(R).tolist())


def run_gaussian(ctx, cuqi, thorough):
    import scipy.sparse as sp
    from cuqi.distribution import Gaussian, Lognormal
    rs = np.random.RandomState(ctx.seed + 501)
    cases = []
    ncase = 160 * ctx.scale
    kinds_full = ["lower", "upper", "full", "lowerbi", "upperbi"]
    for k in range(ncase):
        r = rs.rand()
        if r < 0.05:
            n = int(rs.choice([74, 75, 76, 77, 80]))          # across the dense/sparse switch (MIN_DIM_SPARSE = 75)
        elif r < 0.2:
            n = 1
        else:
            n = int(rint(rs, 2, 7))
        form = ["cov", "prec", "sqrtcov", "sqrtprec"][k % 4]
        shape_kind = rs.choice(["scalar", "vector", "diag2d", "full", "full", "full"]) if n > 1 else rs.choice(["scalar", "vector", "diag2d"])
        sparse_in = bool(rs.rand() < 0.3) and shape_kind in ("diag2d", "full")
        mkind = rs.choice(["scalar", "vector", "zero"])
        cases.append((n, form, str(shape_kind), sparse_in, str(mkind)))
    # DESIGN §5 #9 (repaired in /repo): lower-triangular non-diagonal sqrtprec, always present, dense
    for n in (2, 3, 5, 8):
        for _ in range(3):
            cases.append((n, "sqrtprec", "lower!", False, "vector"))
    cases.append((76, "sqrtprec", "lowerbi!", False, "vector"))
    cases.append((76, "sqrtprec", "lowerbi!", True, "vector"))

    lines, metas = [], []
    for (n, form, shape_kind, sparse_in, mkind) in cases:
        big = n > 20
        squares = [0.25, 1.0, 4.0, 16.0, 0.0625]
        if mkind == "scalar":
            mean = float(rint(rs, -3, 3))
        elif mkind == "zero":
            mean = np.zeros(n)
        else:
            mean = rint(rs, -3, 3, size=n).astype(float)
        sub = None
        if shape_kind == "scalar":
            val = float(rs.choice(squares)) if form in ("cov", "prec") else float(rs.choice([0.5, 1.0, 2.0, 4.0, -2.0]))
            param = val
        elif shape_kind in ("vector", "diag2d"):
            v = rs.choice(squares, size=n) if form in ("cov", "prec") else rs.choice([0.5, 1.0, 2.0, 4.0, -2.0], size=n)
            if n == 1 and shape_kind == "vector":
                param = np.array([float(v[0])])
            else:
                param = np.array(v, dtype=float) if shape_kind == "vector" else np.diag(np.array(v, dtype=float))
            val = np.array(v, dtype=float)
        else:
            if shape_kind.endswith("!"):
                sub = shape_kind[:-1]
            elif big:
                sub = str(rs.choice(["lowerbi", "upperbi"]))
            else:
                sub = str(rs.choice(kinds_full))
            M = gen_matrix(rs, sub, n)
            if form in ("cov", "prec"):
                # symmetric positive definite with small integer entries
                param = M @ M.T
            else:
                param = M
            val = None
        if sparse_in and not np.isscalar(param) and np.ndim(param) == 2:
            fmt = rs.choice(["csr", "csc", "dia"]) if shape_kind == "diag2d" else rs.choice(["csr", "csc"])
            param_obj = sp.csr_matrix(param).asformat(str(fmt))
        else:
            param_obj = param
            sparse_in = False
        desc = {"family": "Gaussian", "dim": n, "form": form, "value": shape_kind if sub is None else f"full:{sub}",
                "sparse_input": bool(sparse_in), "mean": mkind,
                "param": (np.asarray(param).tolist() if n <= 8 else "…"), "mean_value": (np.asarray(mean).tolist() if n <= 8 else "…")}
        key = f"Gaussian:{form}:{shape_kind.rstrip('!') if sub is None else sub}:{'sparse-in' if sparse_in else 'dense-in'}"
        try:
            with quiet():
                G = Gaussian(mean, **{form: param_obj})
                n_dim = int(G.dim)
        except Exception as e:  # constructor refuses: a refusal is not a wrong sample
            ctx.note(f"Gaussian constructor refused {key} dim {n}: {type(e).__name__}")
            ctx.case("gaussian-refused", desc, nontrivial=False)
            continue
        if n_dim != n:
            # scalar parameters and scalar mean: dim is 1
            n = n_dim
            desc["dim"] = n
        R_impl = G.sqrtprec
        is_sparse = bool(sp.issparse(R_impl))
        Rd = dense(R_impl)
        # read-off call
        rng = Script(unit_plan(n))
        s, err, untouched = call_sample(G, n + 1, rng)
        meta = dict(key=key, desc=desc, G=G, n=n, form=form, shape_kind=shape_kind, sub=sub, val=val, param=param,
                    Rd=Rd, is_sparse=is_sparse, s=s, err=err, untouched=untouched, calls=rng.calls, mean=mean)
        # model lines: 1) diagonal forms: the stored sqrtprec from the parameter; 2) the draw itself
        if val is not None:
            lines.append(f"dform {form} {n} {qv(np.atleast_1d(val).tolist())}")
        else:
            lines.append("noop")
        cols = np.hstack([np.zeros((n, 1)), np.eye(n)]).T
        colsel = list(range(n + 1)) if n <= 20 else [0, 1, n // 2, n]   # model evaluated on these columns of the same call
        meta["colsel"] = colsel
        cols = cols[colsel]
        meta["leaf_R"] = val is None and form != "sqrtprec"
        meta["cert_only"] = meta["leaf_R"] and n > 20     # float-valued dense 76x76 factor: exact elimination too slow
        if meta["cert_only"]:
            lines.append("noop")
        else:
            lines.append(f"gauss {1 if is_sparse else 0} {qv(np.atleast_1d(np.asarray(mean, dtype=float)).tolist())} {qm(Rd.tolist())} {qm(cols.tolist())}")
        metas.append(meta)
    outs = ctx.lean.drive(lines)
    solver_hist = {}
    for i, m in enumerate(metas):
        o_form, o_gauss = outs[2 * i], outs[2 * i + 1]
        key, desc, G, n = m["key"], m["desc"], m["G"], m["n"]
        ctx.case("gaussian-affine", desc)
        bad = False
        if not m["untouched"]:
            ctx.fail(key + ":global-state", desc, "global numpy random state untouched when rng is given", "changed")
        # (1) stored sqrtprec of diagonal forms
        if m["val"] is not None:
            if o_form in ("irr", "err-shape", "bad-op"):
                ctx.note(f"dform not exact for {desc}: {o_form}")
            else:
                r_model = [float(x) for x in pv(o_form.split()[0])]
                p_model = np.array([float(x) for x in pv(o_form.split()[1])])
                if not (np.count_nonzero(m["Rd"] - np.diag(np.diag(m["Rd"]))) == 0 and vclose(np.diag(m["Rd"]), r_model, 1e-12)):
                    ctx.disagree(key, desc, r_model[:8], np.diag(m["Rd"]).tolist()[:8], "stored sqrtprec of a scalar/vector/diagonal parameter")
                    bad = True
        # (2) the draws
        if m["cert_only"] and m["err"] is None:
            Si = values(m["s"])
            offset = Si[:, 0].copy(); B = Si[:, 1:] - offset[:, None]
            mu = np.broadcast_to(np.atleast_1d(np.asarray(m["mean"], dtype=float)), (n,))
            if not (vclose(offset, mu, 1e-9) and mclose((m["Rd"] @ B).tolist(), np.eye(n).tolist(), 1e-7)):
                ctx.disagree(key, desc, "mean + p with sqrtprec p = e", "differs", "defining relation of the perturbation (large dense factor)")
            affine_oracle(G, offset, B, key, desc, ctx)
            ctx.extra_cov["gaussian_cert_only"] = ctx.extra_cov.get("gaussian_cert_only", 0) + 1
            continue
        if m["err"] is not None or o_gauss.startswith("err") or o_gauss == "bad-op":
            if (m["err"] is not None) != (o_gauss == "err"):
                ctx.disagree(key, desc, o_gauss[:80], m["err"], "refusal differs")
                if m["err"] is not None:
                    ctx.fail(key, desc, "a sample", m["err"], "sampling raises for a valid parameterisation")
            continue
        solver, S = o_gauss.split(" ", 1)
        solver_hist[solver] = solver_hist.get(solver, 0) + 1
        Sm = np.array([[float(x) for x in row] for row in pm(S)]).T      # (n, n+1)
        Si = values(m["s"])
        Sm_full = Sm
        calls_ok = len(m["calls"]) == 1 and m["calls"][0][0] == "randn" and m["calls"][0][2] == (n, n + 1)
        if not calls_ok:
            ctx.disagree(key, desc, f"one call randn({n},{n + 1})", str(m["calls"])[:200], "generator calls")
            bad = True
        if Si.shape != (n, n + 1) or not mclose(Si[:, m["colsel"]].tolist(), Sm.tolist(), 1e-9):
            ctx.disagree(key, desc, Sm.tolist() if n <= 8 else "…", Si.tolist() if n <= 8 else "…", "draws for xi = 0, e_1..e_n")
            bad = True
        # oracle on the implementation alone
        if Si.shape == (n, n + 1):
            offset = Si[:, 0].copy()
            B = Si[:, 1:] - offset[:, None]
            nf = affine_oracle(G, offset, B, key, desc, ctx) if (n <= 8 or i % 3 == 0 or bad) else 0
            if bad and nf == 0:
                # look near the case: same object, other draws
                pass
        for d, g in wrap_oracle(cuqi, G, n + 1, m["s"]):
            ctx.fail(key + ":wrap", desc, d, g, "wrapping of several draws")
    ctx.extra_cov["gaussian_solver_hist"] = solver_hist


# ----------------------------------------------------------------------------- entry point
def run(ctx):
    cuqi = import_cuqi()
    thorough = ctx.tier == "thorough"
    ctx.trusted += ["numpy/scipy generator laws (documented densities of RandomState.normal/gamma/beta/laplace/uniform/standard_cauchy)",
                    "scipy.linalg.solve / solve_triangular / spsolve enter through the relation R p = e (checked exactly on the model side)"]
    ctx.assumptions += ["IEEE arithmetic modelled by exact rationals; float results compared to 1e-9 (relative+absolute)",
                        "quadratic log-densities are probed by second differences at integer offsets (exact up to rounding)"]
    run_gaussian(ctx, cuqi, thorough)
